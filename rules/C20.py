"""C20 — ld.so.preload is never left half-written (atomic replace protocol)."""
from engine import cfg as C
from engine import facts, fmt
from engine.dataflow import PtrTaint, decl_of, def_exprs
from engine.facts import AnalysisBroken, render, strip
from engine.polarity import result_tests

LEVEL = 'other'

PATH_GETTER = 'etcLdSoPreload_getFilePath'
PATH_GLOBALS = {'g_etcLdSoPreloadPath'}
O_WRONLY, O_RDWR, O_CREAT, O_EXCL, O_TRUNC, O_APPEND = 0o1, 0o2, 0o100, 0o200, 0o1000, 0o2000
STDIO_WRITE = {'fprintf': 0, 'fputs': 1, 'fwrite': 3, 'fputc': 1, 'putc': 1, 'vfprintf': 0}
FD_WRITE = {'write': 0, 'dprintf': 0, 'pwrite': 0}
DESTRUCTIVE_PATH_APIS = {'creat': 0, 'truncate': 0, 'unlink': 0, 'remove': 0, 'mkstemp': 0, 'mktemp': 0}


def is_final_seed(n):
    if n.k == 'CallExpr' and n.get('callee') == PATH_GETTER:
        return True
    if n.k == 'DeclRefExpr' and n['ref']['kind'] == 'var' and n['ref']['name'] in PATH_GLOBALS:
        return True
    if n.k == 'StringLiteral' and 'ld.so.preload' in n.get('s', '') and '/' in n.get('s', ''):
        return True
    return False


def arg(call, i):
    a = call.ch[1:]
    return a[i] if i < len(a) else None


def run(ctx):
    chk = ctx.chk
    chk.rule('AT1', 'the live preload path is never opened for writing, truncated, created or removed in place', floor=2)
    chk.rule('AT2', 'the only mutation of the live path is rename(temp, live) in a single writer function; temp is a '
                    'distinct path in the same directory (live path + suffix)', floor=1)
    chk.rule('AT3', 'every path to the rename passes, in order: temp created exclusively -> content written -> '
                    'stream flushed -> fsync/fdatasync -> closed', floor=0)
    chk.rule('AT4', 'the results of create, write, flush, sync, close and rename are tested, and the rename is not '
                    'reachable from the failure outcome', floor=0)
    chk.rule('AT5', 'once the temp file exists, every path that ends without a successful rename unlinks it', floor=0)
    chk.explanation = (
        'Crash points are quantified away by the protocol: if the live file is only ever replaced by rename() of a '
        'complete, flushed, synced and closed temporary in the same directory, then at every instant (and after '
        'every failing write-type call) the path names either the complete old or the complete new content. The rule '
        'is a typestate check on the only function that may modify the file, plus a whole-CLI scan that nothing else '
        'opens the path destructively.')
    chk.assumptions = ['rename(2) within one directory is atomic (POSIX)',
                       'the preload path is obtained only through %s() / %s' % (PATH_GETTER, ', '.join(PATH_GLOBALS))]
    chk.not_decided = ['durability of the directory entry itself (no fsync of the directory is required)',
                       'which bytes are written (C18, C19)']
    prog = ctx.program(facts.AS_CONFIGURED, 'cli')
    PROG20[0] = prog
    cg = ctx.callgraph(facts.AS_CONFIGURED, 'cli')
    if prog.func(PATH_GETTER) is None:
        raise AnalysisBroken('anchor %s not found in the CLI' % PATH_GETTER)
    writers = []
    nsites = 0
    from rules import common
    live_params, live_seed = common.pointer_flow(prog, is_final_seed)   # the path handed on to helpers, or returned by them
    for f in prog.functions:
        pt = PtrTaint(f, live_seed, live_params.get(f.key, ()))
        for c in f.calls():
            name = c.get('callee')
            if name in ('fopen', 'freopen'):
                p, mode = arg(c, 0), strip(arg(c, 1))
                if p is not None and pt.is_derived(p):
                    nsites += 1
                    m = mode.get('s') if mode is not None and mode.k == 'StringLiteral' else None
                    ok = m is not None and m.rstrip('b').rstrip('e') in ('r', 'rb')
                    chk.ob('AT1', 'open[%s:%s]' % (f.name, name), ok, c.where(), f.name,
                           '%s opens the live preload file with mode %s: it is truncated/modified in place, a kill '
                           'or ENOSPC between open and the last write leaves an empty or partial file' % (
                               render(c), render(mode) if mode is not None else '?'),
                           how='mode "%s" is read-only' % m)
            elif name in ('open', 'openat'):
                pi = 0 if name == 'open' else 1
                p, fl = arg(c, pi), strip(arg(c, pi + 1))
                if p is not None and pt.is_derived(p):
                    nsites += 1
                    v = fl.get('v') if fl is not None else None
                    ok = v is not None and not (v & (O_WRONLY | O_RDWR | O_CREAT | O_TRUNC | O_APPEND))
                    chk.ob('AT1', 'open[%s:%s]' % (f.name, name), ok, c.where(), f.name,
                           '%s opens the live preload file with flags %s (writable/truncating)' % (render(c), render(fl)))
            elif name in DESTRUCTIVE_PATH_APIS:
                p = arg(c, DESTRUCTIVE_PATH_APIS[name])
                if p is not None and pt.is_derived(p):
                    nsites += 1
                    chk.ob('AT1', 'destroy[%s:%s]' % (f.name, name), False, c.where(), f.name,
                           '%s acts on the live preload path' % render(c))
            elif name in ('rename', 'renameat', 'link'):
                src, dst = arg(c, 0), arg(c, 1)
                if name == 'renameat':
                    src, dst = arg(c, 1), arg(c, 3)
                if src is not None and pt.is_derived(src):
                    nsites += 1
                    # link(live, other) only gives the file a second name; rename(live, other) takes the live name away
                    chk.ob('AT1', 'rename-away[%s:%s]' % (f.name, name), name == 'link', c.where(), f.name,
                           '%s moves the live preload file away: until something is put in its place the path does not '
                           'exist and nothing is preloaded' % render(c),
                           how='link() adds a name, the live name stays')
                elif dst is not None and pt.is_derived(dst):
                    nsites += 1
                    writers.append((f, c, pt))
    chk.count('path_operations_inspected', nsites)
    chk.ob('AT1', 'no-destructive-open-anywhere', True, '', '', nontrivial=False,
           how='%d operations on the live path in %d CLI functions inspected' % (nsites, len(prog.functions)))
    wf = sorted(set(f.name for f, _, _ in writers))
    chk.ob('AT2', 'single-writer', len(writers) == 1, writers[0][1].where() if writers else '', ', '.join(wf),
           '%d rename()-onto-the-live-path sites (%s); the file must be replaced in exactly one place' % (
               len(writers), ', '.join(wf)) if writers else
           'no function replaces the live path by rename(temp, live): the file is either never written or written '
           'in place', how='writer: %s' % ', '.join(wf))
    if len(writers) != 1:
        return
    W, R, pt = writers[0]
    check_writer(ctx, W, R, pt)
    for rid, need in (('AT2', 2), ('AT3', 2), ('AT4', 5), ('AT5', 1)):
        n = sum(1 for o in chk.obls if o.rule == rid)
        if n < need and not any(not o.ok for o in chk.obls):
            raise AnalysisBroken('rule %s produced %d instance(s) for the writer %s, expected >= %d' % (
                rid, n, W.name, need))


PROG20 = [None]


def _unlinks_param(t, pid):
    """every way through the (no-return) helper t unlinks the path given as parameter pid - except where the helper
    has found that parameter to be NULL, which the temp path array at the call site never is"""
    def null_side(b):
        c = strip(b.cond) if b.cond is not None else None
        if c is None or len(b.all_succs) != 2:
            return None
        neg = False
        while c is not None and c.k == 'UnaryOperator' and c.get('op') == '!':
            neg = not neg
            c = strip(c.ch[0])
        if c is None:
            return None
        if c.k == 'BinaryOperator' and c.get('op') in ('==', '!='):
            l, r = strip(c.ch[0]), strip(c.ch[1])
            for x, y in ((l, r), (r, l)):
                if (decl_of(x) or {}).get('id') == pid and (y.get('null') or y.get('v') == 0):
                    isnull_true = (c['op'] == '==') != neg
                    return 0 if isnull_true else 1
            return None
        if (decl_of(c) or {}).get('id') == pid:
            return 0 if neg else 1
        return None
    is_unl = lambda e: e.k == 'CallExpr' and e.get('callee') in ('unlink', 'remove') and (decl_of(arg(e, 0)) or {}).get('id') == pid
    visited, ex = C.reach(t, (t.entry, 0), is_unl, edge_filter=lambda b, si: null_side(b) != si)
    if ex:
        return False
    # a no-return call reached without the unlink
    return not any(t.nodes[v].k == 'CallExpr' and t.nodes[v].get('calleeNoReturn') for v in visited)


def check_writer(ctx, W, R, pt):
    chk = ctx.chk
    src = strip(arg(R, 0))
    # ---- AT2: temp path -----------------------------------------------------
    r = decl_of(src)
    tmp_ok = False
    detail = 'rename source %s is not a local path buffer' % render(src)
    tmp_id = None
    if r is not None and r['kind'] == 'var' and not r.get('staticStorage') and not pt.is_derived(src):
        tmp_id = r['id']
        # filled by snprintf/sprintf(tmp, [size,] "%s<suffix>", live ...)
        for c in W.calls():
            if c.get('callee') in ('snprintf', 'sprintf'):
                d = decl_of(arg(c, 0))
                if d is None or d['id'] != tmp_id:
                    continue
                binds = fmt.variadic_bindings(c)
                cf = fmt.call_format(c)
                if not binds or cf is None or cf[2] is None:
                    continue
                toks = cf[2]
                first = toks[0] if toks else None
                if first and first[0] == 'conv' and first[1]['conv'] == 's' and pt.is_derived(binds[0][0]):
                    suffix = ''.join(t[1] for t in toks[1:] if t[0] == 'lit')
                    if suffix and '/' not in suffix and len([t for t in toks if t[0] == 'conv']) == 1:
                        tmp_ok = True
                        detail = ''
                    else:
                        detail = 'temp path format "%s" does not keep the temp file in the directory of the live file' % cf[0]
                else:
                    detail = 'temp path format "%s" is not <live path><suffix>' % cf[0]
    chk.ob('AT2', 'temp-is-sibling-of-live', tmp_ok, R.where(), W.name, detail,
           how='%s = <live path> + constant suffix (same directory, so rename is atomic)' % render(src))
    if tmp_id is None:
        return

    def is_tmp(e):
        d = decl_of(e) if e is not None else None
        return d is not None and d['id'] == tmp_id

    # ---- handles ---------------------------------------------------------------
    creates, fds, streams = [], set(), set()
    for c in W.calls():
        n = c.get('callee')
        if n == 'mkstemp' and is_tmp(arg(c, 0)):
            creates.append(c)
        elif n == 'open' and is_tmp(arg(c, 0)):
            v = strip(arg(c, 1)).get('v') or 0
            if v & O_CREAT:
                creates.append(c)
        elif n == 'fopen' and is_tmp(arg(c, 0)):
            creates.append(c)
    for c in creates:
        h = holder(W, c)
        if h is not None:
            (streams if c.get('callee') == 'fopen' else fds).add(h)
    for c in W.calls('fdopen'):
        d = decl_of(arg(c, 0))
        if d is not None and d['id'] in fds:
            h = holder(W, c)
            if h is not None:
                streams.add(h)
    for c in W.calls('fileno'):
        d = decl_of(arg(c, 0))
        if d is not None and d['id'] in streams:
            h = holder(W, c)
            if h is not None:
                fds.add(h)

    def on_stream(e):
        d = decl_of(e) if e is not None else None
        return d is not None and d['id'] in streams

    def on_fd(e):
        if e is None:
            return False
        d = decl_of(e)
        if d is not None and d['id'] in fds:
            return True
        s = strip(e)
        return s.k == 'CallExpr' and s.get('callee') == 'fileno' and on_stream(arg(s, 0))

    def stage_of(e):
        if e.k != 'CallExpr':
            return None
        n = e.get('callee')
        if e in creates:
            return 'create'
        if n in STDIO_WRITE and on_stream(arg(e, STDIO_WRITE[n])):
            return 'write'
        if n in FD_WRITE and on_fd(arg(e, 0)):
            return 'write'
        if n == 'fflush' and on_stream(arg(e, 0)):
            return 'flush'
        if n in ('fsync', 'fdatasync') and on_fd(arg(e, 0)):
            return 'sync'
        if n == 'fclose' and on_stream(arg(e, 0)):
            return 'close'
        if n == 'close' and on_fd(arg(e, 0)):
            return 'close'
        return None

    uses_stdio = bool(streams)
    seq = ['create', 'write'] + (['flush'] if uses_stdio else []) + ['sync', 'close']
    # exclusive creation
    excl = True
    for c in creates:
        n = c.get('callee')
        if n == 'open':
            v = strip(arg(c, 1)).get('v') or 0
            excl = excl and bool(v & O_EXCL) or bool(v & O_TRUNC)
    chk.ob('AT3', 'temp-created', bool(creates) and excl, creates[0].where() if creates else R.where(), W.name,
           'no creation of the temp file (mkstemp / open(O_CREAT|O_EXCL) / fopen) found before the rename',
           how=', '.join(render(c) for c in creates))
    # ---- AT3: ordered stages on every path to R --------------------------------
    idx = {s: i + 1 for i, s in enumerate(seq)}

    def transfer(st, e):
        s = stage_of(e)
        if s is not None and s in idx and idx[s] == st + 1:
            return st + 1
        return st

    instates = C.forward_dataflow(W, 0, transfer, min)
    pos = C.elem_positions(W)
    rb, ri = pos[R.id]
    st = instates.get(rb)
    if st is not None:
        for e in W.blocks[rb].elems[:ri]:
            st = transfer(st, e)
    reached = st if st is not None else 0
    missing = seq[reached:] if reached < len(seq) else []
    chk.ob('AT3', 'stages-before-rename', not missing, R.where(), W.name,
           'a path reaches %s without: %s (sequence required: %s). A crash or power loss right after the rename can '
           'then expose an empty/partial file, or an I/O error at flush time goes unnoticed' % (
               render(R), ' -> '.join(missing), ' -> '.join(seq)),
           how='forward dataflow (meet = min stage) reaches stage %d/%d at the rename: %s' % (
               reached, len(seq), ' -> '.join(seq)))
    # ---- AT4: results tested ------------------------------------------------------
    tested_calls = []
    for b in W.blocks.values():
        for e in b.elems:
            s = stage_of(e)
            if s in ('create', 'write', 'flush', 'sync', 'close') and s in seq:
                # only the calls on the way to the rename matter (cleanup closes on failure
                # paths are not on that way)
                if R.id in reach_ids(W, e):
                    tested_calls.append((s, e))
    tested_calls.append(('rename', R))
    for s, c in tested_calls:
        tests = result_tests(W, c)
        ok = False
        detail = 'the result of %s is not tested: a failure (ENOSPC, EIO, EDQUOT) is treated as success' % render(c)
        how = ''
        for b, fail_idx in tests:
            edges = [s_ for s_, u in b.all_succs]
            if fail_idx is None:
                detail = 'cannot tell the failure outcome of the test on %s' % render(c)
                continue
            if s == 'rename':
                ok = True
                how = 'tested at %s' % b.cond.where()
                break
            fs = edges[fail_idx]
            if fs is None:
                continue
            visited, _ = C.reach(W, (fs, 0), None)
            if R.id in visited:
                detail = 'after %s failed the rename is still reachable (the bad temp file replaces the live file)' % render(c)
            else:
                ok = True
                how = 'failure edge of the test at %s cannot reach the rename' % b.cond.where()
                break
        chk.ob('AT4', 'checked[%s]' % s, ok, c.where(), W.name, detail, how=how)
        if s == 'write' and c.get('callee') in ('write', 'pwrite') and ok:
            # a raw write may transfer fewer bytes than asked for and still "succeed": the test has to compare
            # the result with the byte count (or the write has to be repeated in a loop until all is written)
            cnt = arg(c, 2)
            cnt_txt = render(strip(cnt)) if cnt is not None else ''
            cnt_decl = decl_of(cnt) if cnt is not None else None
            full = C.in_loop(W, c)
            for b, fail_idx in tests:
                cond = strip(b.cond)
                for n in cond.walk():
                    if n.k == 'BinaryOperator' and n.get('op') in ('==', '!=', '<', '>=', '<=', '>'):
                        for x in n.ch:
                            sx = strip(x)
                            if sx is None or sx.get('v') is not None:
                                continue
                            if render(sx) == cnt_txt or (cnt_decl is not None and (decl_of(sx) or {}).get('id') == cnt_decl['id']):
                                full = True
            chk.ob('AT4', 'complete[write]', full, c.where(), W.name,
                   'the result of %s is only tested for an error: a short write (disk nearly full, quota, RLIMIT_FSIZE) '
                   'counts as success and the truncated temporary file replaces the live file' % render(c)[:70],
                   how='the result is compared with the byte count %s' % cnt_txt)
    # ---- AT5: cleanup -----------------------------------------------------------------
    if creates:
        cr = creates[0]
        tests = result_tests(W, cr)
        # start points: success edge(s) of the creation test
        starts = []
        for b, fail_idx in tests:
            if fail_idx is not None:
                s_ok = b.all_succs[1 - fail_idx][0]
                if s_ok is not None:
                    starts.append((s_ok, 0))
        if not starts:
            p = pos[C.cfg_elem_of(W, cr).id]
            starts = [(p[0], p[1] + 1)]
        # success edge of the rename test ends the obligation
        stop_blocks = set()
        for b, fail_idx in result_tests(W, R):
            if fail_idx is not None:
                s_ok = b.all_succs[1 - fail_idx][0]
                if s_ok is not None:
                    stop_blocks.add((b.id, 1 - fail_idx))

        def is_unlink(e):
            if e.k != 'CallExpr':
                return False
            if e.get('callee') in ('unlink', 'remove') and is_tmp(arg(e, 0)):
                return True
            # a file-local helper that is handed the temp path and unlinks it on every way through
            t_ = PROG20[0].func(e.get('callee'), W.tu) if PROG20[0] is not None and e.get('callee') else None
            if t_ is not None and t_.internal and not t_.cfg_error:
                pidx = [i for i, a in enumerate(e.ch[1:]) if a is not None and is_tmp(a)]
                return bool(pidx) and all(_unlinks_param(t_, t_.params[i]['id']) for i in pidx if i < len(t_.params))
            return False

        leaks = []
        for st0 in starts:
            visited, ex = C.reach(W, st0, is_unlink,
                                  edge_filter=lambda b, si: (b.id, si) not in stop_blocks)
            for v in visited:
                n = W.nodes[v]
                if n.k == 'CallExpr' and n.get('calleeNoReturn'):
                    # a file-local "give up" helper that is handed the temp path and unlinks it on every way to its own end
                    t_ = PROG20[0].func(n.get('callee'), W.tu) if PROG20[0] is not None and n.get('callee') else None
                    if t_ is not None and t_.internal and not t_.cfg_error:
                        pidx = [i for i, a in enumerate(n.ch[1:]) if a is not None and is_tmp(a)]
                        if pidx and all(_unlinks_param(t_, t_.params[i]['id']) for i in pidx if i < len(t_.params)):
                            continue
                    leaks.append(n)
            if ex:
                leaks.append(None)
        chk.ob('AT5', 'temp-unlinked-on-failure', not leaks,
               leaks[0].where() if leaks and leaks[0] is not None else W.where(), W.name,
               'the temp file is left behind when the run ends at %s' % (
                   render(leaks[0]) if leaks and leaks[0] is not None else 'the function exit without a rename'),
               how='every path from the successful creation to an exit passes unlink(%s) or the successful rename' % render(src))


def holder(func, call):
    p = call.parent
    while p is not None and p.k in ('ImplicitCastExpr', 'ParenExpr', 'CStyleCastExpr'):
        p = p.parent
    if p is not None and p.k == 'BinaryOperator' and p['op'] == '=':
        r = decl_of(p.ch[0])
        return r['id'] if r is not None else None
    if p is not None and p.k == 'DeclStmt':
        for d in p['decls']:
            if d.get('init', -1) != -1 and strip(func.nodes[d['init']]) is call:
                return d['id']
    return None


def reach_ids(W, e):
    pos = C.elem_positions(W)
    el = e if e.id in pos else C.cfg_elem_of(W, e)
    b, i = pos[el.id]
    visited, _ = C.reach(W, (b, i + 1), None)
    return visited
