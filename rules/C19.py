"""C19 — snoopyctl disable removes only its own entry."""
from engine import cfg as C
from engine import facts
from engine.bounds import BoundsAnalysis
from engine.dataflow import decl_of, def_exprs
from engine.facts import AnalysisBroken, render, strip
from engine.linear import Lin, LinEnv
from rules import common
from rules.common import arg
from rules import C18
from rules.C18 import (WRITER, READER, FIND_ENTRY, FIND_FOREIGN, DISABLE, q1_sole_writer, edges_of_test,
                       path_outcome, follower_test)

LEVEL = 'other'


def run(ctx):
    chk = ctx.chk
    chk.rule('Q1', 'etcLdSoPreload_writeFile is the only writer of the preload path and is called only by enable and disable', floor=2)
    chk.rule('Q4', 'disable: every path to the write passes the duplicate check\'s non-fatal outcome and the "entry found" '
                   'outcome; the "absent" path returns 0 without writing; at most one write', floor=4)
    chk.rule('Q5', 'the new buffer is as large as the old content; the part before the entry is copied whole to its start; '
                   'what is skipped lies within the entry\'s line (plus its newline) and is chosen by what follows the entry on '
                   'that line, so that libraries sharing the line stay; the rest is copied right behind; every copy is bounded', floor=5)
    chk.rule('Q8', 'in the code disable reaches, buffers are written before they are read and every loop changes something '
                   'its exit condition depends on', floor=5)
    chk.rule('Q6', 'own-entry recognition uses exactly the documented follower set and start-of-line test', floor=2)
    chk.explanation = (
        'Control-flow clauses by branch-polarity reachability; the three-part copy (before / skipped / after) is decided '
        'with linear facts over pointers into the old content: first copy = [old, entry), second copy starts at '
        'entry + strlen(entry line) (+1 for its newline) - never later, so no following line, blank or comment can be '
        'swallowed - and lands right behind the first part.')
    chk.assumptions = ['C20 holds', 'snoopy_util_string_copyLineFromContent returns the line starting at its argument']
    chk.not_decided = ['the byte-level result in general (which separators remain on a shared line, CR-LF files)']
    prog = ctx.program(facts.AS_CONFIGURED, 'cli')
    C18.PROG[0] = prog
    cg = ctx.callgraph(facts.AS_CONFIGURED, 'cli')
    q1_sole_writer(ctx, prog, cg)
    F = prog.require_func(DISABLE)
    wcs = F.calls(WRITER)
    if len(wcs) != 1:
        chk.ob('Q4', 'write-at-most-once', False, F.where(), F.name, '%d calls of %s in disable' % (len(wcs), WRITER))
        return
    wc = wcs[0]
    mn, mx = C.count_on_paths(F, lambda e: e.id == wc.id)
    chk.ob('Q4', 'write-at-most-once', mx == 1, wc.where(), F.name, 'the write can execute %s times' % mx)
    fe, ff = F.calls(FIND_ENTRY), F.calls(FIND_FOREIGN)
    if not fe or len(ff) < 2:
        raise AnalysisBroken('disable does not call %s once and %s twice (duplicate check)' % (FIND_ENTRY, FIND_FOREIGN))
    rd = F.calls(READER)
    content = common.holder(F, rd[0]) if rd else None
    # absent -> return 0, no write
    absent = edges_of_test(F, fe[0], null_means=True)
    ok = bool(absent)
    detail = 'the result of the own-entry search is not tested'
    for b, e in absent:
        writes, rets, noret = path_outcome(F, b, e, wc)
        if writes:
            ok, detail = False, 'with the entry absent the write is still reachable'
        elif rets != {0}:
            ok, detail = False, 'the "absent" path returns %s, expected 0' % sorted(map(str, rets))
    chk.ob('Q4', 'absent-leaves-file-untouched', ok, fe[0].where(), F.name, detail,
           how='entry == NULL returns 0 without reaching the write')
    chk.ob('Q4', 'entry-tested-before-write', C.always_preceded(
        F, wc, lambda x: any(b.elems and x.id == b.elems[-1].id for b, _ in absent)) and bool(absent), wc.where(), F.name,
           'a path reaches the write without the own-entry test')
    # duplicate: second foreign search found -> fatal, no write
    dup = None
    for c in ff:
        # the second search starts behind the first hit
        a0 = arg(c, 0)
        if any(n.k == 'DeclRefExpr' and n['ref'].get('id') == common.holder(F, ff[0]) for n in a0.walk()) and c is not ff[0]:
            dup = c
    ok = dup is not None
    detail = 'no second search for another active libsnoopy.so line (duplicate check)'
    if ok:
        found = edges_of_test(F, dup, null_means=False)
        ok = bool(found)
        for b, e in found:
            writes, rets, noret = path_outcome(F, b, e, wc)
            if writes or rets or not noret:
                ok, detail = False, 'with duplicate active entries the command does not stop before writing'
        # and the duplicate check dominates the write
        firsttests = edges_of_test(F, ff[0], null_means=True) + edges_of_test(F, ff[0], null_means=False)
        if not C.always_preceded(F, wc, lambda x: any(b.elems and x.id == b.elems[-1].id for b, _ in firsttests)):
            ok, detail = False, 'a path reaches the write without the duplicate check'
    chk.ob('Q4', 'duplicates-refused-before-write', ok, (dup or ff[0]).where(), F.name, detail,
           how='second active line found -> fatalError before the write')
    follower_test(ctx, prog, 'Q6')
    C18.own_occurrence_rule(ctx, prog, 'Q6')
    from rules.C18 import cli_memory_rules
    cli_memory_rules(ctx, prog, cg, DISABLE, 'Q8')
    from rules.C18 import whole_file_read_rule
    whole_file_read_rule(ctx, prog, cg, 'Q1')
    # ---- Q5 ------------------------------------------------------------------------------------------
    newbuf = decl_of(arg(wc, 0))
    entry = common.holder(F, fe[0])
    if newbuf is None or content is None or entry is None:
        raise AnalysisBroken('cannot identify new buffer / old content / entry pointer in disable')
    names = {d['id']: d['name'] for d in F.local_decls()}
    sym = lambda i: Lin.sym(('var', i, names.get(i, '?')))
    NEW, CUR, ENT = sym(newbuf['id']), sym(content), sym(entry)
    Lcur = Lin.sym(('strlen', ('decl', content), names.get(content)))
    # the entry's line: result of copyLineFromContent(entry)
    linev = None
    for c in F.calls('snoopy_util_string_copyLineFromContent'):
        if (decl_of(arg(c, 0)) or {}).get('id') == entry:
            linev = common.holder(F, c)
    copies = [c for c in F.calls() if c.get('callee') in ('strncpy', 'memcpy', 'memmove')]
    copies.sort(key=lambda c: (c.line, c.get('col', 0)))
    queries = {}
    if len(copies) == 2 and linev is not None:
        Lline = Lin.sym(('strlen', ('decl', linev), names.get(linev)))
        c1, c2 = copies

        def q_first(A, st):
            d, s0, n = A.lin(arg(c1, 0), st), A.lin(arg(c1, 1), st), A.lin(arg(c1, 2), st)
            ok = None not in (d, s0, n) and A.entails(st, d - NEW) and A.entails(st, NEW - d) and \
                A.entails(st, s0 - CUR) and A.entails(st, CUR - s0) and A.entails(st, n - (ENT - CUR)) and A.entails(st, (ENT - CUR) - n)
            return ok, 'the part before the entry is not copied as [old, entry) to the start of the new buffer ' \
                       '(dest %s, src %s, count %s)' % (d, s0, n)

        def q_second(A, st):
            d, s0 = A.lin(arg(c2, 0), st), A.lin(arg(c2, 1), st)
            lo = None not in (d, s0) and A.entails(st, s0 - ENT)
            hi = lo and A.entails(st, ENT + Lline + Lin.const(1) - s0)
            dst = lo and A.entails(st, d - NEW - (ENT - CUR)) and A.entails(st, NEW + (ENT - CUR) - d)
            return (lo and hi and dst), \
                'the copy of the remainder starts at %s: it must start inside the entry\'s line, at the latest one byte ' \
                'behind it (the line\'s newline), and land right behind the first part; otherwise following lines (blank ' \
                'lines, indentation, other entries) are removed as well' % s0
        queries[c1.id] = [('before-part-copied-whole', q_first)]
        queries[c2.id] = [('skips-nothing-beyond-the-entry-line', q_second)]
    ba = BoundsAnalysis(prog, cg)
    obls = ba.analyse(F, queries=queries)
    seen = {}
    nq = 0
    for o in obls:
        i = seen.get((o.kind, o.text), 0)
        seen[(o.kind, o.text)] = i + 1
        nq += 1 if o.kind == 'query' else 0
        chk.ob('Q5', '%s[%s#%d]' % (o.kind, o.text, i), o.ok, o.node.where(), F.name, o.missing, how=o.how)
    if nq < 2:
        chk.ob('Q5', 'three-part-copy-identified', False, F.where(), F.name,
               'disable does not build the new content from two recognisable copies around the entry\'s line '
               '(found %d copy calls)' % len(copies))
    if len(copies) == 2 and linev is not None:
        ok, why = skip_depends_on_rest_of_line(F, copies[1], linev)
        chk.ob('Q5', 'shared-line-keeps-other-entries', ok, copies[1].where(), F.name,
               'how much is skipped does not depend on what follows the entry on its line (%s): a library listed behind the '
               'entry on the same line ("<path> /other.so") is removed together with it' % why,
               how=why)
    size = None
    for d in def_exprs(F, newbuf['id']):
        s = strip(d)
        if s.k == 'CallExpr' and s.get('callee') == 'malloc':
            size = LinEnv(F).lin(arg(s, 0))
    chk.ob('Q5', 'buffer-size', size is not None and size == Lcur + Lin.const(1), wc.where(), F.name,
           'the new buffer holds %s bytes, expected strlen(old content) + 1' % size, how='malloc(%s)' % size)


def skip_depends_on_rest_of_line(F, copy2, linev):
    """the start of the remainder copy is chosen under a condition that reads a character of the entry's line:
    one way through that condition assigns a variable the source pointer is computed from, the other does not"""
    from engine.dataflow import PtrTaint, def_sites
    src = arg(copy2, 1)
    # variables the source pointer is computed from (backward def-use closure)
    slice_ids, work = set(), [n['ref']['id'] for n in src.walk() if n.k == 'DeclRefExpr' and n['ref']['kind'] in ('var', 'parm')]
    while work:
        v = work.pop()
        if v in slice_ids:
            continue
        slice_ids.add(v)
        for e in def_exprs(F, v):
            for n in e.walk():
                if n.k == 'DeclRefExpr' and n['ref']['kind'] in ('var', 'parm'):
                    work.append(n['ref']['id'])
    pt = PtrTaint(F, lambda n: False, {linev})
    pos = C.elem_positions(F)
    target = C.cfg_elem_of(F, copy2)
    for b in F.blocks.values():
        c = strip(b.cond) if b.cond is not None else None
        if c is None or len(b.all_succs) != 2:
            continue
        reads_line = any((n.k == 'ArraySubscriptExpr' or (n.k == 'UnaryOperator' and n.get('op') == '*')) and pt.is_derived(n.ch[0])
                         for n in c.walk())
        if not reads_line:
            continue
        seen_defs = []
        for si in (0, 1):
            visited, _ = common.reach_from_edge(F, b, si, stop=lambda e: e.id == target.id)
            defs = set()
            for v in slice_ids:
                for k, n in def_sites(F, v):
                    if k == 'decl':
                        continue
                    el = C.cfg_elem_of(F, n) if n.id not in pos else n
                    if el is not None and el.id in visited:
                        defs.add(n.id)
            seen_defs.append(defs)
        if seen_defs[0] != seen_defs[1]:
            return True, 'the skip is decided by %s' % render(c)[:60]
    return False, 'no condition on a character of the entry line selects between different skip lengths'
