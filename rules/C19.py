"""C19 — snoopyctl disable removes only its own entry."""
from engine import cfg as C
from engine import facts
from engine.bounds import BoundsAnalysis
from engine.dataflow import decl_of, def_exprs
from engine.facts import AnalysisBroken, render, strip
from engine.linear import Lin, LinEnv
from rules import common
from rules.common import arg
from rules import C18
from rules.C18 import (WRITER, READER, FIND_ENTRY, FIND_FOREIGN, DISABLE, q1_sole_writer, edges_of_test,
                       path_outcome, follower_test)

LEVEL = 'other'


def run(ctx):
    chk = ctx.chk
    chk.rule('Q1', 'etcLdSoPreload_writeFile is the only writer of the preload path and is called only by enable and disable', floor=2)
    chk.rule('Q4', 'disable: every path to the write passes the duplicate check\'s non-fatal outcome and the "entry found" '
                   'outcome; the "absent" path returns 0 without writing; at most one write', floor=4)
    chk.rule('Q5', 'the new buffer is as large as the old content; the part before the entry is copied whole to its start; '
                   'what is skipped lies within the entry\'s line (plus its newline) and is chosen by what follows the entry on '
                   'that line, so that libraries sharing the line stay; the rest is copied right behind; every copy is bounded', floor=5)
    chk.rule('Q9', 'the line helpers mean what disable takes them to mean: the line length is the distance to the first '
                   'newline (or to the end), and the line copy holds exactly that many characters', floor=2)
    chk.rule('Q8', 'in the code disable reaches, buffers are written before they are read and every loop changes something '
                   'its exit condition depends on', floor=5)
    chk.rule('Q6', 'own-entry recognition uses exactly the documented follower set and start-of-line test', floor=2)
    chk.explanation = (
        'Control-flow clauses by branch-polarity reachability; the three-part copy (before / skipped / after) is decided '
        'with linear facts over pointers into the old content: first copy = [old, entry), second copy starts at '
        'entry + strlen(entry line) (+1 for its newline) - never later, so no following line, blank or comment can be '
        'swallowed - and lands right behind the first part.')
    chk.assumptions = ['C20 holds']
    chk.not_decided = ['the byte-level result in general (which separators remain on a shared line, CR-LF files)']
    prog = ctx.program(facts.AS_CONFIGURED, 'cli')
    C18.PROG[0] = prog
    cg = ctx.callgraph(facts.AS_CONFIGURED, 'cli')
    q1_sole_writer(ctx, prog, cg)
    F = prog.require_func(DISABLE)
    wcs = F.calls(WRITER)
    if len(wcs) != 1:
        chk.ob('Q4', 'write-at-most-once', False, F.where(), F.name, '%d calls of %s in disable' % (len(wcs), WRITER))
        return
    wc = wcs[0]
    mn, mx = C.count_on_paths(F, lambda e: e.id == wc.id)
    chk.ob('Q4', 'write-at-most-once', mx == 1, wc.where(), F.name, 'the write can execute %s times' % mx)
    fe, ff = F.calls(FIND_ENTRY), F.calls(FIND_FOREIGN)
    if not fe or len(ff) < 2:
        raise AnalysisBroken('disable does not call %s once and %s twice (duplicate check)' % (FIND_ENTRY, FIND_FOREIGN))
    rd = F.calls(READER)
    content = common.holder(F, rd[0]) if rd else None
    # absent -> return 0, no write
    absent = edges_of_test(F, fe[0], null_means=True)
    ok = bool(absent)
    detail = 'the result of the own-entry search is not tested'
    for b, e in absent:
        writes, rets, noret = path_outcome(F, b, e, wc)
        if writes:
            ok, detail = False, 'with the entry absent the write is still reachable'
        elif rets != {0}:
            ok, detail = False, 'the "absent" path returns %s, expected 0' % sorted(map(str, rets))
    chk.ob('Q4', 'absent-leaves-file-untouched', ok, fe[0].where(), F.name, detail,
           how='entry == NULL returns 0 without reaching the write')
    chk.ob('Q4', 'entry-tested-before-write', C.always_preceded(
        F, wc, lambda x: any(b.elems and x.id == b.elems[-1].id for b, _ in absent)) and bool(absent), wc.where(), F.name,
           'a path reaches the write without the own-entry test')
    # duplicate: second foreign search found -> fatal, no write
    dup = None
    for c in ff:
        # the second search starts behind the first hit
        a0 = arg(c, 0)
        if any(n.k == 'DeclRefExpr' and n['ref'].get('id') == common.holder(F, ff[0]) for n in a0.walk()) and c is not ff[0]:
            dup = c
    ok = dup is not None
    detail = 'no second search for another active libsnoopy.so line (duplicate check)'
    if ok:
        found = edges_of_test(F, dup, null_means=False)
        ok = bool(found)
        for b, e in found:
            writes, rets, noret = path_outcome(F, b, e, wc)
            if writes or rets or not noret:
                ok, detail = False, 'with duplicate active entries the command does not stop before writing'
        # and the duplicate check dominates the write
        firsttests = edges_of_test(F, ff[0], null_means=True) + edges_of_test(F, ff[0], null_means=False)
        if not C.always_preceded(F, wc, lambda x: any(b.elems and x.id == b.elems[-1].id for b, _ in firsttests)):
            ok, detail = False, 'a path reaches the write without the duplicate check'
    chk.ob('Q4', 'duplicates-refused-before-write', ok, (dup or ff[0]).where(), F.name, detail,
           how='second active line found -> fatalError before the write')
    follower_test(ctx, prog, 'Q6')
    C18.own_occurrence_rule(ctx, prog, 'Q6')
    C18.foreign_needle_rule(ctx, prog, 'Q4')
    from rules.C18 import cli_memory_rules
    cli_memory_rules(ctx, prog, cg, DISABLE, 'Q8')
    C18.old_content_intact_rule(ctx, prog, cg, DISABLE, 'Q5')
    from rules.C18 import whole_file_read_rule
    whole_file_read_rule(ctx, prog, cg, 'Q1')
    # ---- Q5 ------------------------------------------------------------------------------------------
    if not [c for c in F.calls() if c.get('callee') in ('strncpy', 'memcpy', 'memmove')]:
        # the copies are made by file-local helpers: Q5 looks at the inlined view, where they stand in disable itself
        from engine import inline
        Fv = inline.inlined(prog, F)
        if Fv is not F:
            F = Fv
            wc = next(c for c in F.calls(WRITER))
            fe = F.calls(FIND_ENTRY)
    newbuf = decl_of(arg(wc, 0))
    entry = common.holder(F, fe[0])
    if newbuf is None or content is None or entry is None:
        raise AnalysisBroken('cannot identify new buffer / old content / entry pointer in disable')
    names = {d['id']: d['name'] for d in F.local_decls()}
    sym = lambda i: Lin.sym(('var', i, names.get(i, '?')))
    NEW, CUR, ENT = sym(newbuf['id']), sym(content), sym(entry)
    Lcur = Lin.sym(('strlen', ('decl', content), names.get(content)))
    # the entry's line: result of copyLineFromContent(entry)
    linev = None
    for c in F.calls('snoopy_util_string_copyLineFromContent'):
        if (decl_of(arg(c, 0)) or {}).get('id') == entry:
            linev = common.holder(F, c)
    copies = [c for c in F.calls() if c.get('callee') in ('strncpy', 'memcpy', 'memmove')]
    copies.sort(key=lambda c: (c.line, c.get('col', 0)))
    queries = {}
    if len(copies) == 2 and linev is not None:
        Lline = Lin.sym(('strlen', ('decl', linev), names.get(linev)))
        c1, c2 = copies

        def q_first(A, st):
            d, s0, n = A.lin(arg(c1, 0), st), A.lin(arg(c1, 1), st), A.lin(arg(c1, 2), st)
            ok = None not in (d, s0, n) and A.entails(st, d - NEW) and A.entails(st, NEW - d) and \
                A.entails(st, s0 - CUR) and A.entails(st, CUR - s0) and A.entails(st, n - (ENT - CUR)) and A.entails(st, (ENT - CUR) - n)
            return ok, 'the part before the entry is not copied as [old, entry) to the start of the new buffer ' \
                       '(dest %s, src %s, count %s)' % (d, s0, n)

        def q_second(A, st):
            d, s0 = A.lin(arg(c2, 0), st), A.lin(arg(c2, 1), st)
            lo = None not in (d, s0) and A.entails(st, s0 - ENT)
            hi = lo and A.entails(st, ENT + Lline + Lin.const(1) - s0)
            dst = lo and A.entails(st, d - NEW - (ENT - CUR)) and A.entails(st, NEW + (ENT - CUR) - d)
            return (lo and hi and dst), \
                'the copy of the remainder starts at %s: it must start inside the entry\'s line, at the latest one byte ' \
                'behind it (the line\'s newline), and land right behind the first part; otherwise following lines (blank ' \
                'lines, indentation, other entries) are removed as well' % s0
        def q_rest(A, st):
            s0, n = A.lin(arg(c2, 1), st), A.lin(arg(c2, 2), st)
            # everything from the source position to the end of the old content: count == strlen(old) - (src - old)
            want = Lcur - (s0 - CUR) if s0 is not None else None
            ok = None not in (s0, n) and A.entails(st, n - want) and A.entails(st, want - n)
            return ok, 'the copy of the remainder takes %s bytes from %s, not everything up to the end of the old content (%s): ' \
                       'the tail of the file is cut off (or bytes behind it are read) when the skipped part is not the whole ' \
                       'line, i.e. when another library shares the line with the entry' % (n, s0, want)
        queries[c1.id] = [('before-part-copied-whole', q_first)]
        queries[c2.id] = [('skips-nothing-beyond-the-entry-line', q_second), ('remainder-copied-to-the-end', q_rest)]
    line_helpers_rule(ctx, prog)
    ba = BoundsAnalysis(prog, cg)
    obls = ba.analyse(F, queries=queries)
    if getattr(F, 'inlined_from', None) and any(not o.ok for o in obls):
        # the copies live in file-local helpers and the linear facts do not carry through them: undecided, not violated
        bad_ = [o for o in obls if not o.ok]
        raise AnalysisBroken('disable builds the new content in file-local helpers (%s); on the inlined view %d of the %d Q5 '
                             'obligations are not proved (first: %s at %s): Q5 is not decided for this shape' % (
                                 ', '.join(sorted(set(F.inlined_from))), len(bad_), len(obls), bad_[0].text[:50], bad_[0].node.where()))
    seen = {}
    nq = 0
    for o in obls:
        i = seen.get((o.kind, o.text), 0)
        seen[(o.kind, o.text)] = i + 1
        nq += 1 if o.kind == 'query' else 0
        chk.ob('Q5', '%s[%s#%d]' % (o.kind, o.text, i), o.ok, o.node.where(), F.name, o.missing, how=o.how)
    if nq < 2:
        chk.ob('Q5', 'three-part-copy-identified', False, F.where(), F.name,
               'disable does not build the new content from two recognisable copies around the entry\'s line '
               '(found %d copy calls)' % len(copies))
    if len(copies) == 2 and linev is not None:
        ok, why = skip_depends_on_rest_of_line(F, copies[1], linev)
        chk.ob('Q5', 'shared-line-keeps-other-entries', ok, copies[1].where(), F.name,
               'how much is skipped does not depend on what follows the entry on its line (%s): a library listed behind the '
               'entry on the same line ("<path> /other.so") is removed together with it' % why,
               how=why)
    size = None
    for d in def_exprs(F, newbuf['id']):
        s = strip(d)
        if s.k == 'CallExpr' and s.get('callee') == 'malloc':
            size = LinEnv(F).lin(arg(s, 0))
    chk.ob('Q5', 'buffer-size', size is not None and size == Lcur + Lin.const(1), wc.where(), F.name,
           'the new buffer holds %s bytes, expected strlen(old content) + 1' % size, how='malloc(%s)' % size)


def line_helpers_rule(ctx, prog):
    chk = ctx.chk
    GL = prog.require_func('snoopy_util_string_getLineLength')
    CL = prog.require_func('snoopy_util_string_copyLineFromContent')
    # ---- length of a line ---------------------------------------------------------------------------------
    p0 = GL.params[0]['id']
    env = LinEnv(GL)
    P = Lin.sym(('var', p0, GL.params[0]['name']))
    SL = Lin.sym(('strlen', ('decl', p0), GL.params[0]['name']))
    ok, detail = False, 'no search for the newline found'
    spans = [c for c in GL.calls('strcspn') if (decl_of(arg(c, 0)) or {}).get('id') == p0 and strip(arg(c, 1)).get('s') == '\\x0a']
    hits = [c for c in GL.calls() if c.get('callee') in ('strchr', 'memchr') and (decl_of(arg(c, 0)) or {}).get('id') == p0 and
            strip(arg(c, 1)).get('v') == 10]
    rets = C.return_nodes(GL)
    if spans and len(rets) == 1:
        hv = common.holder(GL, spans[0])
        r = strip(rets[0].ch[0])
        ok = r is spans[0] or (decl_of(r) or {}).get('id') == hv or any(x is spans[0] for x in r.walk())
        detail = 'the function does not return the strcspn(line, "\\n") result'
    elif hits and rets:
        hv = common.holder(GL, hits[0])
        H = Lin.sym(('var', hv, '')) if hv is not None else None
        # every value the result variable can take: strlen(line) (no newline) or hit - line
        vals = []
        for r in rets:
            d = decl_of(r.ch[0])
            exprs = def_exprs(GL, d['id']) if d is not None else [r.ch[0]]
            for e in exprs:
                if strip(e).get('v') == 0:
                    continue
                vals.append(env.lin(e))
        want = {repr(SL)}
        got = set()
        for v in vals:
            if v is None:
                got.add('?')
            elif v == SL:
                got.add(repr(SL))
            elif hv is not None and len(v.t) == 2 and v.c == 0 and v.t.get(('var', p0, GL.params[0]['name'])) == -1 and \
                    any(k[0] == 'var' and k[1] == hv and c_ == 1 for k, c_ in v.t.items()):
                got.add('hit-line')
            else:
                got.add(repr(v))
        ok = got == {repr(SL), 'hit-line'}
        detail = 'the line length is one of %s, expected strlen(line) when there is no newline and newline - line otherwise' % sorted(got)
    if not spans and not hits:
        # the line end is found by a walk of its own (or in a helper): a shape this clause does not follow
        raise AnalysisBroken('%s finds the end of the line without strchr/memchr/strcspn for the newline: the line-length '
                             'clause is written for those' % GL.name)
    chk.ob('Q9', 'line-length-is-distance-to-newline', ok, GL.where(), GL.name, detail,
           how='strlen(line) without a newline, position of the first newline otherwise')
    # ---- copy of a line ---------------------------------------------------------------------------------------
    q0 = CL.params[0]['id']
    envc = LinEnv(CL)
    lc = [c for c in CL.calls(GL.name) if (decl_of(arg(c, 0)) or {}).get('id') == q0]
    ok, detail = False, 'the copy does not measure the line with %s(line)' % GL.name
    if lc:
        lv = common.holder(CL, lc[0])
        LL = Lin.sym(('var', lv, '')) if lv is not None else None

        def is_len(node):
            v = envc.lin(node)
            d = decl_of(node)
            if d is not None and d['id'] == lv:
                return True
            return v is not None and len(v.t) == 1 and v.c == 0 and any(k[0] == 'var' and k[1] == lv and c_ == 1 for k, c_ in v.t.items()) \
                or (strip(node).k == 'CallExpr' and strip(node).get('callee') == GL.name)
        dup = [c for c in CL.calls() if c.get('callee') in ('strndup', '__strndup')]
        cps = [c for c in CL.calls() if c.get('callee') in ('strncpy', 'memcpy', 'memmove')]
        if dup:
            ok = (decl_of(arg(dup[0], 0)) or {}).get('id') == q0 and is_len(arg(dup[0], 1))
            detail = '%s copies %s characters, not the length of the line: the copy then contains the newline (or more), and ' \
                     'disable, which skips strlen(copy) bytes and then one newline, removes the following line as well when ' \
                     'that line is empty' % (render(dup[0])[:50], render(arg(dup[0], 1)))
        elif cps:
            c = cps[0]
            term = [n for n in CL.body.walk() if n.k == 'BinaryOperator' and n['op'] == '=' and strip(n.ch[1]).get('v') == 0 and
                    strip(n.ch[0]).k == 'ArraySubscriptExpr' and
                    (decl_of(strip(n.ch[0]).ch[0]) or {}).get('id') == (decl_of(arg(c, 0)) or {}).get('id')]
            ok = (decl_of(arg(c, 1)) or {}).get('id') == q0 and is_len(arg(c, 2)) and bool(term) and \
                all(is_len(strip(t.ch[0]).ch[1]) for t in term)
            detail = '%s / the terminator do not cut the copy at the length of the line' % render(c)[:50]
    chk.ob('Q9', 'line-copy-holds-exactly-the-line', ok, CL.where(), CL.name, detail,
           how='copy count and terminator index equal %s(line)' % GL.name)


def skip_depends_on_rest_of_line(F, copy2, linev):
    """the start of the remainder copy is chosen under a condition that reads a character of the entry's line:
    one way through that condition assigns a variable the source pointer is computed from, the other does not"""
    from engine.dataflow import PtrTaint, def_sites
    src = arg(copy2, 1)
    # variables the source pointer is computed from (backward def-use closure)
    slice_ids, work = set(), [n['ref']['id'] for n in src.walk() if n.k == 'DeclRefExpr' and n['ref']['kind'] in ('var', 'parm')]
    while work:
        v = work.pop()
        if v in slice_ids:
            continue
        slice_ids.add(v)
        for e in def_exprs(F, v):
            for n in e.walk():
                if n.k == 'DeclRefExpr' and n['ref']['kind'] in ('var', 'parm'):
                    work.append(n['ref']['id'])
    pt = PtrTaint(F, lambda n: False, {linev})
    pos = C.elem_positions(F)
    target = C.cfg_elem_of(F, copy2)
    for b in F.blocks.values():
        c = strip(b.cond) if b.cond is not None else None
        if c is None or len(b.all_succs) != 2:
            continue
        reads_line = any((n.k == 'ArraySubscriptExpr' or (n.k == 'UnaryOperator' and n.get('op') == '*')) and pt.is_derived(n.ch[0])
                         for n in c.walk())
        if not reads_line:
            continue
        seen_defs = []
        for si in (0, 1):
            visited, _ = common.reach_from_edge(F, b, si, stop=lambda e: e.id == target.id)
            defs = set()
            for v in slice_ids:
                for k, n in def_sites(F, v):
                    if k == 'decl':
                        continue
                    el = C.cfg_elem_of(F, n) if n.id not in pos else n
                    if el is not None and el.id in visited:
                        defs.add(n.id)
            seen_defs.append(defs)
        if seen_defs[0] != seen_defs[1]:
            return True, 'the skip is decided by %s' % render(c)[:60]
    return False, 'no condition on a character of the entry line selects between different skip lengths'
