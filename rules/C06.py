"""C06 — cmdline and filename describe the current call only (no carry-over, per-call
store, no state kept by data sources, NULL-argv guard)."""
from engine import cfg as C
from engine import facts, fmt
from engine.dataflow import Summaries, decl_of, def_exprs
from engine.facts import AnalysisBroken, render, strip
from engine.nullness import NullAnalysis, ent_name
from engine.statics import static_accesses
from rules import common
from rules.common import arg
from rules.C01 import STORE, IDS_RECORD, IDS_FIELDS, INTERPOSERS
from rules.C09 import writes_param_factory

LEVEL = 'other'


def run(ctx):
    chk = ctx.chk
    chk.rule('S1', 'each call stores its own filename/argv/envp before the log action runs', floor=6)
    chk.rule('S2', 'constructor and destructor of the input data reset every field to the empty defaults, and init / '
                   'cleanup run them on every path', floor=6)
    chk.rule('S3', 'data sources read the call\'s data only through the per-call record and keep nothing between calls '
                   '(no static-storage write in any data source or what it reaches)', floor=30)
    chk.rule('S5', 'cmdline and filename leave their result NUL-terminated on every return path (the scratch buffer is '
                   'reused between tags and calls)', floor=2)
    chk.rule('S6', 'the value a data source produced is used whenever its result is not negative: an empty command line or '
                   'file name is recorded as empty, not as an error text', floor=1)
    chk.rule('S4', 'cmdline guards argv == NULL and argv[0] == NULL before using them, and the guarded outcome falls '
                   'back to the path', floor=2)
    chk.explanation = (
        'The "nothing from an earlier call" clause is a shape property: the record is overwritten with the call\'s own '
        'pointers before logging (dominance, parameter-origin tracing), reset to empty defaults in both ctor and dtor '
        '(struct-field/assignment agreement), and no data source has storage that survives a call (static-write '
        'enumeration over everything reachable from each registered data source). The NULL guards are decided by the '
        'A5 may-analysis with argv / argv[0] as nullable sources.')
    chk.assumptions = ['C01-E5 (ordering on the interposers) holds']
    chk.not_decided = ['single-space join and prefix-on-truncation (byte-level result of the join loop)']
    for variant in (facts.AS_CONFIGURED, facts.TS_OFF):
        chk.variant = variant.name
        prog = ctx.program(variant, 'lib')
        cg = ctx.callgraph(variant, 'lib')
        if variant is facts.AS_CONFIGURED:
            from rules import C05 as _c5
            G_ = prog.require_func(_c5.GEN)
            from engine import inline as _inl
            G_ = _inl.inlined(prog, G_)
            _c5.ds_failure_rule(chk, G_, G_.calls(_c5.DS_CALL), 'S6')
        summ = Summaries(cg)
        roots = common.entry_points(prog)
        # ---- S1 ------------------------------------------------------------------------
        ACT = {'snoopy_action_log_syscall_exec'}
        for F in roots:
            roles = INTERPOSERS[F.name]
            for role, fn in STORE.items():
                ok = summ.must_call(F, {fn})
                ok2, w = summ.ordered(F, {fn}, ACT)
                chk.ob('S1', '%s:stores-%s-before-logging' % (F.name, role), ok and ok2, F.where(), F.name,
                       w or 'a path through %s does not call %s' % (F.name, fn))
                if role in roles:
                    origins = summ.arg_origins(F, fn, 0)
                    good = bool(origins) and all(
                        o is not None and (decl_of(o) or {}).get('kind') == 'parm' and
                        decl_of(o)['index'] == roles.index(role) for o, _ in origins)
                    chk.ob('S1', '%s:stored-%s-is-this-calls' % (F.name, role), good, F.where(), F.name,
                           '%s does not receive the %s parameter of %s' % (fn, role, F.name),
                           how=' <- '.join(origins[0][1]) if origins else '')
        # each store function touches its own field only: the wrappers call them one after the other, so a store that
        # also resets the record (directly or through a helper such as setDefaults) wipes what was stored before it
        def ids_writes(fn_obj, seen=None):
            seen = seen if seen is not None else set()
            if fn_obj is None or fn_obj.key in seen:
                return set()
            seen.add(fn_obj.key)
            out = set()
            for n in fn_obj.body.walk():
                if n.k == 'BinaryOperator' and n['op'] == '=':
                    l = strip(n.ch[0])
                    if l.k == 'MemberExpr' and l.get('record') == IDS_RECORD:
                        out.add(l['member'])
            for c in fn_obj.calls():
                t = prog.func(c.get('callee'), fn_obj.tu) if c.get('callee') else None
                if t is not None and any((a.get('ct') or '').find(IDS_RECORD) >= 0 for a in c.ch[1:] if a is not None):
                    out |= ids_writes(t, seen)
            return out
        for role, fn in STORE.items():
            SF = prog.func(fn)
            if SF is None:
                continue
            w = ids_writes(SF) - {'initialized'}
            chk.ob('S1', 'store-touches-only-its-field[%s]' % role, w == {role}, SF.where(), SF.name,
                   '%s writes %s of the per-call record (directly or through a helper it hands the record to): the values '
                   'stored by the other store functions of the same call are lost, e.g. execve(path, argv, NULL) is logged '
                   'without its path and arguments' % (fn, sorted(w)),
                   how='writes exactly {%s}' % role)
        # ---- S2 ------------------------------------------------------------------------
        rec = prog.record(IDS_RECORD)
        if rec is None:
            raise AnalysisBroken('%s not found' % IDS_RECORD)
        fields = [f['name'] for f in rec['fields']]
        SD = prog.require_func('snoopy_inputdatastorage_setDefaults')
        assigned = {}
        for n in SD.body.walk():
            if n.k == 'BinaryOperator' and n['op'] == '=':
                l = strip(n.ch[0])
                if l.k == 'MemberExpr' and l.get('record') == IDS_RECORD:
                    assigned[l['member']] = n
        for fld in fields:
            n = assigned.get(fld)
            ok = n is not None and C.must_pass_through(SD, lambda e, n=n: e.id == n.id)
            detail = 'setDefaults does not assign %s on every path: a pointer from an earlier exec stays in the record' % fld
            how = ''
            if ok and fld in IDS_FIELDS:
                ok, how = is_empty_default(SD, n.ch[1], fld)
                detail = '%s is reset to %s, which is not an empty constant' % (fld, render(n.ch[1]))
            chk.ob('S2', 'default[%s]' % fld, ok, n.where() if n is not None else SD.where(), SD.name, detail, how=how)
        for fn in ('snoopy_inputdatastorage_ctor', 'snoopy_inputdatastorage_dtor'):
            f = prog.require_func(fn)
            ok = summ.must_call(f, {'snoopy_inputdatastorage_setDefaults'})
            # and on the record returned by the getter
            chk.ob('S2', 'resets[%s]' % fn, ok, f.where(), fn, '%s does not reset the input data on every path' % fn)
        I, CL = prog.require_func('snoopy_init'), prog.require_func('snoopy_cleanup')
        chk.ob('S2', 'init-runs-ctor', summ.must_call(I, {'snoopy_inputdatastorage_ctor'}), I.where(), I.name,
               'snoopy_init does not construct the input data on every path')
        chk.ob('S2', 'cleanup-runs-dtor', summ.must_call(CL, {'snoopy_inputdatastorage_dtor'}), CL.where(), CL.name,
               'snoopy_cleanup does not reset the input data on every path')
        # the getter hands out the per-call record only (per thread in the thread-safe build)
        G = prog.require_func('snoopy_inputdatastorage_get')
        # ---- S3 ------------------------------------------------------------------------
        wp = writes_param_factory(prog)
        dss = common.datasource_functions(prog)
        chk.count('datasources[%s]' % variant.name, len(dss))
        for ds in dss:
            reach = cg.reachable([ds])
            w = []
            for key, (g, _, _) in reach.items():
                if g.name.startswith('snoopy_tsrm_') or g.name.startswith('snoopy_util_list_'):
                    continue  # the locked per-thread repository (C09)
                for a in static_accesses(g, writes_param=wp):
                    if a.node.k == 'CallExpr' and (a.node.get('callee') or '').startswith('pthread_'):
                        continue
                    if variant is facts.TS_OFF and a.var in ('snoopy_configuration_data', 'snoopy_inputdatastorage_data'):
                        continue
                    w.append((g, a))
            chk.ob('S3', 'stateless[%s]' % ds.name, not w, w[0][1].node.where() if w else ds.where(), ds.name,
                   '%s keeps state in static storage (%s in %s: %s): text of an earlier exec can appear in a later record' % (
                       ds.name, w[0][1].var if w else '', w[0][0].name if w else '', w[0][1].how if w else ''),
                   how='%d reachable functions write no static object' % len(reach))
        # reads of the stored pointers go through the getter's record
        direct = []
        for f in prog.functions:
            for n in f.body.walk():
                if n.k == 'DeclRefExpr' and n['ref']['kind'] == 'var' and n['ref']['name'] == 'snoopy_inputdatastorage_data' \
                        and f.name not in ('snoopy_inputdatastorage_get',):
                    direct.append((f, n))
        chk.ob('S3', 'record-only-through-getter', not direct, direct[0][1].where() if direct else '', '',
               '%s accesses the global record directly' % (direct[0][0].name if direct else ''), nontrivial=False)
        # ---- S5: the two data sources terminate what they write (nothing of the reused buffer shows) ----
        from engine import terminate
        memo = {}
        for dn in ('snoopy_datasource_cmdline', 'snoopy_datasource_filename'):
            df = prog.func(dn)
            if df is None:
                continue
            okr, node = terminate.result_terminated(prog, df, 0, memo)
            chk.ob('S5', 'result-terminated[%s]' % dn, okr, (node or df.body).where(), dn,
                   '%s can return after filling the result buffer without a terminator: the reused scratch buffer still '
                   'holds text of an earlier, longer exec, which then follows the value in the record' % dn,
                   how='last write to the result buffer on every return path is a terminating one')
        # the only limit on these two values is the size of the result buffer (the data-source limit): a precision in
        # the conversion that prints the path / an argument is a second, fixed limit
        from engine import fmt as _fmt
        for dn in ('snoopy_datasource_cmdline', 'snoopy_datasource_filename'):
            df = prog.func(dn)
            if df is None:
                continue
            bad = []
            nconv = 0
            for c in df.calls():
                if c.get('callee') in _fmt.PRINTF_FAMILY:
                    for a, d, role in (_fmt.variadic_bindings(c) or []):
                        if role == 'value' and d['conv'] == 's':
                            nconv += 1
                            if d.get('prec'):
                                bad.append(c)
                        if role in ('prec', 'precision'):
                            bad.append(c)
            chk.ob('S5', 'no-second-length-limit[%s]' % dn, not bad, (bad[0] if bad else df.body).where(), dn,
                   '%s prints its value with a precision (%s): besides datasource_message_max_length a second, fixed limit cuts '
                   'the value (a path of 4096 bytes or more is logged short although the configured limit allows it)' % (
                       dn, render(bad[0])[:60] if bad else ''),
                   how='%d %%s conversions, none with a precision' % nconv, nontrivial=False)
        # a value longer than the limit is logged as its prefix: the two data sources must not produce it with the
        # all-or-nothing append of the message composer, which refuses a text that does not fit whole
        for dn in ('snoopy_datasource_cmdline', 'snoopy_datasource_filename'):
            df = prog.func(dn)
            if df is None:
                continue
            refusing = [c for g_ in common.with_helpers(prog, df) for c in g_.calls()
                        if c.get('callee') in ('snoopy_util_string_append', 'snoopy_message_append')]
            chk.ob('S5', 'value-is-cut-not-refused[%s]' % dn, not refusing, (refusing[0] if refusing else df.body).where(), dn,
                   '%s produces its value with %s, which appends a text whole or not at all: a path or command line longer '
                   'than the data-source limit is then not logged as a prefix but as nothing (or as an error text)' % (
                       dn, render(refusing[0])[:60] if refusing else ''),
                   how='the value is written by truncating writers only', nontrivial=False)
        # ---- S4 ------------------------------------------------------------------------
        CM = prog.func('snoopy_datasource_cmdline')
        if CM is not None:
            na = NullAnalysis(prog, cg)
            vs = [v for v in na.analyse(CM) if v.ent[0] in ('f', 'e')]
            chk.ob('S4', 'argv-guarded', not vs, vs[0].node.where() if vs else CM.where(), CM.name,
                   vs[0].detail if vs else '', how='argv and argv[0] are tested for NULL before every use (A5)')
            # fallback: from the NULL outcome of the guards every return yields the path (or a constant)
            null_edges = []
            for b in CM.blocks.values():
                if b.cond is None or len(b.all_succs) != 2:
                    continue
                c = strip(b.cond)
                if c.k == 'BinaryOperator' and c['op'] in ('==', '!='):
                    l, r = strip(c.ch[0]), strip(c.ch[1])
                    for x, y in ((l, r), (r, l)):
                        isargv = (x.k == 'MemberExpr' and x.get('member') == 'argv') or \
                                 (x.k == 'ArraySubscriptExpr' and strip(x.ch[0]).k == 'MemberExpr' and
                                  strip(x.ch[0]).get('member') == 'argv' and strip(x.ch[1]).get('v') == 0)
                        if isargv and (y.get('null') or y.get('v') == 0 or c.ch[1].get('null') or c.ch[0].get('null')):
                            null_edges.append((b, 0 if c['op'] == '==' else 1))
            ok = bool(null_edges)
            detail = 'no NULL test of argv / argv[0] found'
            for b, e in null_edges:
                visited, _ = common.reach_from_edge(CM, b, e, stop=lambda x: x.k == 'ReturnStmt')
                rets = [CM.nodes[i] for i in visited if CM.nodes[i].k == 'ReturnStmt']
                # only the returns reached before any further argv use: those directly on the guarded branch
                for r in rets:
                    v = strip(r.ch[0]) if r.ch else None
                    if v is not None and v.k == 'CallExpr' and v.get('callee') in fmt.PRINTF_FAMILY:
                        binds = fmt.variadic_bindings(v) or []
                        for a, d, role in binds:
                            s = strip(a)
                            if role == 'value' and not (s.k == 'MemberExpr' and s.get('member') == 'filename'):
                                if s.k == 'ArraySubscriptExpr' or (s.k == 'MemberExpr' and s.get('member') == 'argv'):
                                    ok = False
                                    detail = 'the missing-argv outcome still formats %s' % render(a)
            # at least one fallback return formats the path
            fb = False
            for b, e in null_edges:
                visited, _ = common.reach_from_edge(CM, b, e, stop=lambda x: x.k == 'ReturnStmt')
                for i in visited:
                    n = CM.nodes[i]
                    if n.k == 'MemberExpr' and n.get('member') == 'filename':
                        fb = True
            chk.ob('S4', 'falls-back-to-path', ok and fb, CM.where(), CM.name,
                   detail if not ok else 'the missing-argv outcome does not use the stored path',
                   how='the NULL outcome of the argv tests returns the stored filename')
    chk.variant = 'as-configured'


def is_empty_default(func, rhs, fld):
    s = strip(rhs)
    if s.k == 'StringLiteral':
        return s.get('s') == '', 'reset to ""'
    d = decl_of(s)
    if d is not None and d.get('staticStorage'):
        dd = None
        for x in func.local_decls():
            if x['id'] == d['id']:
                dd = x
        if dd is not None and dd.get('init', -1) != -1:
            i = strip(func.nodes[dd['init']])
            if i.k == 'StringLiteral':
                return i.get('s') == '', 'reset to a static ""'
            if i.k == 'InitListExpr':
                ok = all(strip(c).get('v') == 0 or strip(c).get('null') or c.get('null') for c in i.ch)
                # the static default vector must never be written
                return ok, 'reset to a static {NULL} vector'
    return False, ''
