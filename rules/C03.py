"""C03 — logging failures never block, signal or abort the exec."""
import json
import os

from engine import cfg as C
from engine import facts
from engine.dataflow import Summaries, decl_of
from engine.facts import AnalysisBroken, render, strip, VERIF
from engine.nullness import NullAnalysis, ent_name
from rules import common
from rules.common import arg

LEVEL = 'other'

SOCK_NONBLOCK, SOCK_CLOEXEC = 0o4000, 0o2000000
MSG_DONTWAIT, MSG_NOSIGNAL = 0x40, 0x4000
O_NONBLOCK = 0o4000
BLOCKING = {'syslog', 'vsyslog', 'openlog', 'closelog', 'sleep', 'usleep', 'nanosleep', 'pause', 'wait', 'waitpid',
            'waitid', 'system', 'popen', 'pclose', 'pthread_cond_wait', 'pthread_cond_timedwait', 'pthread_join',
            'flock', 'lockf', 'select', 'pselect', 'poll', 'ppoll', 'epoll_wait', 'accept', 'recv', 'recvfrom',
            'recvmsg', 'raise', 'kill', 'alarm', 'sigwait', 'sigsuspend', 'sem_wait', 'mq_receive', 'mq_send',
            'getaddrinfo', 'gethostbyname', 'gethostbyaddr', 'getnameinfo', 'tcdrain', 'fsync', 'fdatasync', 'sync',
            'syncfs', 'msync', 'sigtimedwait', 'sigwaitinfo', 'clock_nanosleep', 'pthread_barrier_wait',
            'pthread_rwlock_rdlock', 'pthread_rwlock_wrlock', 'sendfile', 'splice', 'connect_blocking'}
TRANSMIT = {'write', 'sendto', 'sendmsg', 'dprintf', 'writev', 'pwrite'}
IO_ORIGINS = {'fopen', 'fdopen', 'freopen', 'fgets', 'getcwd', 'localtime_r', 'opendir', 'readdir', 'ttyname_r',
              'getlogin_r', 'gethostname', 'strftime', 'stat', 'fstat', 'lstat', 'gettimeofday', 'getpwuid_r',
              'getgrgid_r', 'readlink', 'getline', 'inet_ntop', 'getdomainname', 'getutline_r', 'clock_gettime',
              'getenv', 'popen', 'tmpfile'}
RETRY_SENSITIVE = {'send', 'sendto', 'sendmsg', 'connect', 'write', 'open', 'socket', 'fopen', 'fprintf', 'fputs',
                   'fwrite', 'fflush', 'fclose', 'close', 'dprintf'}


def load_exceptions(rule):
    p = os.path.join(VERIF, 'tables', 'exceptions.json')
    rows = json.load(open(p))['rows'] if os.path.exists(p) else []
    return [r for r in rows if r['rule'] == rule]


def run(ctx):
    chk = ctx.chk
    chk.rule('B1', 'sockets are created non-blocking and close-on-exec; send() never waits and never raises SIGPIPE; no '
                   'other transmit API is applied to a socket', floor=2)
    chk.rule('B2', 'no indefinitely blocking or signalling API is reachable from the interposers', floor=1)
    chk.rule('B3', 'every I/O result is tested before the dependent handle or buffer is used (no NULL FILE*/pointer '
                   'dereference, no read of a buffer that is only valid on success)', floor=15)
    chk.rule('B4', 'failures cannot propagate: the action returns void and does not branch on the output status', floor=1)
    chk.rule('B5', 'no transmit/open/connect call is retried in a loop inside an output (a sink that never becomes '
                   'ready would stall the exec)', floor=1)
    chk.rule('B6', 'no unbounded recursion: every call-graph cycle reachable from the interposers is a listed recursion '
                   'whose argument changes on every call, or is cut by a re-entrancy guard', floor=1)
    chk.rule('B9', 'no heap block is released twice, returned or used after free(): glibc answers a double free with abort(), '
                   'i.e. SIGABRT inside the caller\'s exec', floor=15)
    chk.rule('B10', 'a read/write-class call in a loop is not repeated after it failed, errno-tested interruptions aside (a '
                    'persistent failure would be retried for ever)', floor=1)
    chk.rule('B7', 'stack use does not depend on configuration or input: no alloca, no variable-length array sized by a '
                   'run-time value, fixed automatic arrays below 64 KiB per frame', floor=10)
    chk.explanation = (
        'Per-call-site discipline over everything reachable from execv/execve (registries expanded): flags of the '
        'socket/send calls are constant-folded; the blocking/signalling deny-list is checked on the resolved call '
        'graph; a forward may-analysis (A5) proves each fallible I/O result is tested before dependent use; outputs '
        'contain no retry loops. Each site is handled independently of history, so every single fault and every '
        'sequence of faults is covered.')
    chk.assumptions = ['memory exhaustion is outside the domain', 'fopen/open of a regular log file does not block '
                       '(FIFOs without reader and flow-controlled terminals are exotic sinks: not decided)']
    chk.not_decided = ['latency ("promptly")', 'kernel-level blocking of open/write on exotic sinks']
    prog = ctx.program(facts.AS_CONFIGURED, 'lib')
    cg = ctx.callgraph(facts.AS_CONFIGURED, 'lib')
    summ = Summaries(cg)
    roots = common.entry_points(prog)
    reach = common.checked_reach(cg, prog) if roots else {}
    cg.require_resolved(within=set(reach))
    chk.count('functions_reachable', len(reach))
    # ---- B1 ------------------------------------------------------------------------
    nsock = 0
    sockfds = {}
    for key, (f, _, _) in reach.items():
        for c in f.calls('socket'):
            nsock += 1
            ty = strip(arg(c, 1)).get('v')
            ok = ty is not None and (ty & SOCK_NONBLOCK) and (ty & SOCK_CLOEXEC)
            chk.ob('B1', 'socket-flags[%s]' % f.name, ok, c.where(), f.name,
                   '%s lacks %s: %s' % (render(c),
                                        ' and '.join(n for n, b in (('SOCK_NONBLOCK', SOCK_NONBLOCK), ('SOCK_CLOEXEC', SOCK_CLOEXEC))
                                                     if ty is None or not (ty & b)),
                                        'connect/send to a sink that is not being read (journald down) blocks the exec'
                                        if ty is None or not (ty & SOCK_NONBLOCK) else 'the descriptor leaks into the exec\'d program'),
                   how='type = %s' % render(arg(c, 1)))
            h = common.holder(f, c)
            if h is not None:
                sockfds.setdefault(f.key, set()).add(h)
        for c in f.calls('send'):
            fl = strip(arg(c, 3)).get('v')
            ok = fl is not None and (fl & MSG_DONTWAIT) and (fl & MSG_NOSIGNAL)
            chk.ob('B1', 'send-flags[%s]' % f.name, ok, c.where(), f.name,
                   '%s lacks %s' % (render(c), ' and '.join(
                       n for n, b in (('MSG_DONTWAIT', MSG_DONTWAIT), ('MSG_NOSIGNAL (SIGPIPE reaches the caller)', MSG_NOSIGNAL))
                       if fl is None or not (fl & b))),
                   how='flags = %s' % render(arg(c, 3)))
        for c in f.calls():
            if c.get('callee') in TRANSMIT:
                d = decl_of(arg(c, 0))
                if d is not None and d['id'] in sockfds.get(f.key, set()):
                    chk.ob('B1', 'socket-transmit[%s:%s]' % (f.name, c['callee']), False, c.where(), f.name,
                           '%s writes to a socket without MSG_NOSIGNAL/MSG_DONTWAIT semantics' % render(c))
    if nsock == 0:
        raise AnalysisBroken('no socket() call found on the exec path')
    # ---- B2 ------------------------------------------------------------------------
    bad = [(e, cs) for e, cs in cg.external_calls(reach) if e in BLOCKING]
    for e, cs in bad:
        chk.ob('B2', 'blocking[%s@%s]' % (e, cs.caller.name), False, cs.node.where(), cs.caller.name,
               '%s() can block or signal indefinitely and is reachable: %s' % (e, cg.describe_path(reach, cs.caller.key)))
    for key, (f, _, _) in reach.items():
        for c in f.calls('fcntl'):
            cmdv = strip(arg(c, 1)).get('v')
            if cmdv in (7, 14, 38):  # F_SETLKW, F_SETLKW64, F_OFD_SETLKW
                chk.ob('B2', 'blocking[fcntl-SETLKW@%s]' % f.name, False, c.where(), f.name,
                       '%s waits for a file lock' % render(c))
        for c in f.calls('read'):
            fdv = strip(arg(c, 0))
            if fdv.get('v') == 0:
                chk.ob('B2', 'blocking[read-stdin@%s]' % f.name, False, c.where(), f.name,
                       'read from stdin blocks on a terminal')
    chk.ob('B2', 'deny-list-clear', not bad, '', '', '%d blocking API call(s) reachable' % len(bad),
           how='%d external call sites in %d reachable functions checked against %d deny-listed APIs' % (
               len(cg.external_calls(reach)), len(reach), len(BLOCKING)))
    # ---- B3 ------------------------------------------------------------------------
    exc = load_exceptions('A5')
    na = NullAnalysis(prog, cg)
    nv = 0
    nsites = 0
    for key, (f, _, _) in reach.items():
        vio_by_origin = {}
        for v in na.analyse(f):
            origin = v.origin.get('callee') if v.origin is not None and v.origin.k == 'CallExpr' else None
            if origin not in IO_ORIGINS:
                continue  # string-parsing results are C02's subject
            en = ent_name(f, v.ent)
            row = [r for r in exc if r['function'] == f.name and r['entity'] == en]
            if row:
                if row[0] not in chk.exceptions_used:
                    chk.exceptions_used.append(row[0])
                continue
            vio_by_origin.setdefault(v.origin.id, []).append(v)
        seen_keys = {}
        for c in f.calls():
            if c.get('callee') in IO_ORIGINS:
                nsites += 1
                vs = vio_by_origin.get(c.id, [])
                n = seen_keys.get(c['callee'], 0)
                seen_keys[c['callee']] = n + 1
                key_ = 'io-result[%s:%s#%d]' % (f.name, c['callee'], n)
                if vs:
                    nv += 1
                    v = vs[0]
                    chk.ob('B3', key_, False, v.node.where(), f.name, v.detail)
                else:
                    chk.ob('B3', key_, True, c.where(), f.name,
                           how='result of %s is tested before every dependent use (A5 may-analysis)' % render(c)[:80])
    chk.count('fallible_io_sites', nsites)
    chk.count('pointer_uses_checked', na.uses)
    # ---- B4 ------------------------------------------------------------------------
    A = prog.require_func('snoopy_action_log_syscall_exec')
    ok = A.d['retCanon'] == 'void'
    chk.ob('B4', 'action-returns-void', ok, A.where(), A.name,
           'the logging action returns %s: its outcome can influence the pass-through' % A.d['retCanon'], nontrivial=False)
    disp = A.calls('snoopy_action_log_message_dispatch')
    branched = []
    for d in disp:
        isx = common.is_result_of(A, d)
        branched += common.blocks_testing(A, isx)
    chk.ob('B4', 'output-status-not-branched-on', not branched, disp[0].where() if disp else A.where(), A.name,
           'the action branches on the dispatch status at %s' % (branched[0].cond.where() if branched else ''),
           how='the status of %d dispatch call(s) is ignored' % len(disp))
    # ---- B5 ------------------------------------------------------------------------
    outs = common.output_functions(prog)
    looped = []
    nio = 0
    for o in outs:
        oreach = cg.reachable([o])
        for key, (f, _, _) in oreach.items():
            if f.name.startswith('snoopy_message_') or f.name.startswith('snoopy_datasource'):
                continue
            for c in f.calls():
                if c.get('callee') in RETRY_SENSITIVE:
                    nio += 1
                    inl = C.in_loop(f, c)
                    if inl:
                        looped.append((f, c))
                    else:
                        chk.ob('B5', 'once[%s:%s:%s#%d]' % (o.name, f.name, c['callee'], nio), True, c.where(), f.name,
                               how='%s is not on a CFG cycle' % render(c)[:60])
    for f, c in looped:
        chk.ob('B5', 'retry-loop[%s:%s]' % (f.name, c.get('callee')), False, c.where(), f.name,
               '%s is executed inside a loop: when the sink never becomes ready (EAGAIN on a full, unread datagram '
               'queue; EINTR storms) the wrapper spins and the real exec is never reached' % render(c))
    chk.ob('B5', 'no-retry-loops-in-outputs', not looped, '', '', '%d I/O call(s) in loops' % len(looped),
           how='%d I/O calls in %d outputs are all outside CFG cycles' % (nio, len(outs)))
    # errno-driven retry anywhere on the exec path: a loop that goes round again because errno says "transient"
    # (EINTR, EAGAIN) has no bound - the condition can persist (unread queue, signal storm) or stick (the error flag
    # of a stdio stream is not cleared by a later successful read, errno keeps its value)
    nloops = 0
    for key, (f, _, _) in sorted(reach.items(), key=lambda kv: str(kv[0])):
        live = C.reachable_blocks(f)
        for comp in C._sccs(f, live):
            if not (len(comp) > 1 or comp[0] in f.blocks[comp[0]].succs):
                continue
            nloops += 1
            cs = set(comp)
            for bid in comp:
                b = f.blocks[bid]
                if b.cond is None or not any(s_ in cs for s_, u in b.all_succs if s_ is not None and not u):
                    continue
                uses_errno = any((n.k == 'CallExpr' and n.get('callee') == '__errno_location') or
                                 (n.k == 'DeclRefExpr' and n['ref'].get('name') == 'errno') for n in b.cond.walk())
                if uses_errno:
                    # accepted: a raw system call repeated while errno == EINTR and nothing else (each retry needs a
                    # signal to arrive; the kernel call itself makes progress or fails differently next time).  Not
                    # accepted: EAGAIN/EWOULDBLOCK (busy wait on the peer), or a stdio call in the loop (its error
                    # flag and errno are sticky).
                    consts = {strip(x).get('v') for n in b.cond.walk() if n.k == 'BinaryOperator' and n.get('op') in ('==', '!=')
                              for x in n.ch if strip(x) is not None and strip(x).get('v') is not None}
                    STDIO = {'fgets', 'fread', 'fwrite', 'fprintf', 'fputs', 'fflush', 'getline', 'fscanf', 'fgetc', 'getc', 'fclose'}
                    stdio_in_loop = [c for bid2 in comp for c in f.blocks[bid2].elems
                                     if c.k == 'CallExpr' and c.get('callee') in STDIO]
                    if consts and consts <= {4} and not stdio_in_loop:
                        chk.ob('B5', 'eintr-retry[%s]' % f.name, True, b.cond.where(), f.name, nontrivial=False,
                               how='raw system call repeated on EINTR only')
                        continue
                    chk.ob('B5', 'errno-retry-loop[%s]' % f.name, False, b.cond.where(), f.name,
                           'the loop goes round again depending on errno (%s): nothing bounds the retries, so a persistent '
                           'or sticky condition (EAGAIN on an unread queue, EINTR with a stdio error flag that is never '
                           'cleared) keeps the caller inside the wrapper forever' % render(b.cond)[:70])
    chk.ob('B5', 'no-errno-driven-retry-loops', True, '', '', how='%d loops on the exec path inspected' % nloops, nontrivial=False)
    # ---- B6 ------------------------------------------------------------------------
    from rules.recursion import recursion_rule
    recursion_rule(ctx, prog, cg, reach, 'B6')
    # ---- B9 ------------------------------------------------------------------------
    common.release_rule(ctx, reach, 'B9', 'glibc detects the double free ("double free detected in tcache") and aborts: the '
                        'process that called exec is killed by SIGABRT inside the wrapper')
    # ---- B10 -----------------------------------------------------------------------
    if common.failed_io_ends_loop_rule(ctx, reach, 'B10') == 0:
        raise AnalysisBroken('no read/write-class call inside a loop found (the utmp reader has one)')
    # ---- B7 ------------------------------------------------------------------------
    stack_rule(ctx, prog, reach, 'B7')


def stack_rule(ctx, prog, reach, rule):
    """stack use of the interposed call does not grow with the configuration or the input: no alloca, no
    variable-length array sized by a run-time value; fixed frames stay below a generous constant"""
    import re
    from engine.dataflow import def_exprs
    chk = ctx.chk
    FRAME_LIMIT = 65536
    nfun = 0
    for key, (f, _, _) in sorted(reach.items(), key=lambda kv: str(kv[0])):
        nfun += 1
        fixed = 0
        for d in f.local_decls():
            if d.get('vla'):
                m = re.search(r'\[(.*)\]\s*$', (d.get('t') or d.get('ct') or '').strip())
                inner = m.group(1).strip() if m else '?'
                bound = None
                if re.fullmatch(r'\w+', inner):
                    for x in f.local_decls():
                        if x['name'] == inner:
                            defs = def_exprs(f, x['id'])
                            vals = [strip(e).get('v') for e in defs]
                            if defs and all(v is not None for v in vals):
                                bound = max(vals)
                ok = bound is not None and 0 < bound <= FRAME_LIMIT
                chk.ob(rule, 'vla[%s:%s]' % (f.name, d['name']), ok, f.where(), f.name,
                       'variable-length array %s[%s] on the stack of the interposed call: its size is a run-time value '
                       '(a configured limit can be 1 MiB), so a caller with a small thread stack is killed by SIGSEGV '
                       'before its exec' % (d['name'], inner),
                       how='length %s only ever holds the constant %s' % (inner, bound))
            elif 'arrayLen' in d and not d.get('staticStorage'):
                fixed += d.get('size', 0)
        for c in f.calls():
            if c.get('callee') in ('alloca', '__builtin_alloca', '__builtin_alloca_with_align'):
                chk.ob(rule, 'alloca[%s]' % f.name, False, c.where(), f.name,
                       '%s allocates on the stack of the interposed call' % render(c)[:60])
        if fixed > 0:
            chk.ob(rule, 'frame[%s]' % f.name, fixed <= FRAME_LIMIT, f.where(), f.name,
                   'automatic arrays of %s total %d bytes (limit %d)' % (f.name, fixed, FRAME_LIMIT),
                   how='%d bytes of automatic arrays' % fixed, nontrivial=False)
    chk.count('frames_checked', nfun)
