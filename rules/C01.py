"""C01 — exec calls pass through unchanged, exactly once, after logging."""
from engine import cfg as C
from engine import facts, fmt
from engine.callgraph import CallGraph
from engine.dataflow import Summaries, PtrTaint, decl_of, def_exprs, def_sites, local_decl
from engine.facts import AnalysisBroken, render, strip, relpath
from rules import common

LEVEL = 'other'

ENTRY_TU = 'src/entrypoint/execve-wrapper.c'
INTERPOSERS = {
    # name -> libc parameter roles in order
    'execv': ['filename', 'argv'],
    'execve': ['filename', 'argv', 'envp'],
}
LIBC_PROTO = {
    'execv': ('int', ['const char *', 'char *const *']),
    'execve': ('int', ['const char *', 'char *const *', 'char *const *']),
}
NONLOCAL_EXIT = {'exit', '_exit', '_Exit', 'abort', 'longjmp', 'siglongjmp', '_longjmp',
                 'pthread_exit', 'pthread_cancel', 'raise', 'kill', 'tgkill', '__assert_fail',
                 'quick_exit', 'err', 'errx', 'verr', 'verrx', 'error', 'assert',
                 'execv', 'execve', 'execvp', 'execl', 'execlp', 'execle', 'execvpe', 'fexecve',
                 'fork', 'vfork', 'pthread_kill', 'killpg', 'sigqueue'}
ENV_MUTATORS = {'setenv', 'putenv', 'unsetenv', 'clearenv'}
STORE = {'filename': 'snoopy_inputdatastorage_store_filename',
         'argv': 'snoopy_inputdatastorage_store_argv',
         'envp': 'snoopy_inputdatastorage_store_envp'}
IDS_RECORD = 'snoopy_inputdatastorage_t'
IDS_FIELDS = ('filename', 'argv', 'envp')


def run(ctx, entry_tu=ENTRY_TU, scope_label='production'):
    chk = ctx.chk
    chk.rule('E1', 'each interposer is defined once in the library with default visibility and the libc prototype', floor=2)
    chk.rule('E2', 'exactly one indirect call; its callee is only ever dlsym(RTLD_NEXT, "<own name>") and that definition dominates the call', floor=2)
    chk.rule('E3', "the real call's arguments are the interposer's own parameters, in order, never modified", floor=2)
    chk.rule('E4', 'the real call is the operand of the only return, executed exactly once on every path, nothing executes after it', floor=1)
    chk.rule('E5', 'on every path: init < store filename/argv/envp < log action < cleanup < real call; each stored value is the call\'s own parameter', floor=5)
    chk.rule('E6', 'no non-returning, process-replacing or signalling API is reachable from the interposer', floor=1)
    chk.rule('E8', 'no unbounded recursion between the interposer and the real call: every call-graph cycle is a listed '
                   'bounded recursion or cut by a re-entrancy guard', floor=1)
    chk.rule('E9', 'the stack needed between the interposer and the real call does not depend on configuration or input '
                   '(no alloca, no run-time sized array)', floor=10)
    chk.rule('E7', "the caller's path/argv/envp are only read: no store through them, never passed as non-const, environment never mutated", floor=3)
    chk.explanation = (
        'All paths of the two interposers and everything reachable from them through the resolved call graph '
        '(registries expanded to every member) are inspected: pass-through structure by CFG dominance and '
        'path counting (E2-E5), whole-library reachability for E6, def-use/derivation of the stored pointers '
        'for E7. No bound: the functions are loop-free and the call graph is finite.')
    chk.assumptions = ['dlsym(RTLD_NEXT, name) resolves to the next definition (libc) and is non-NULL at run time',
                       'indirect calls are only those resolved by A1 (tables, parameters, dlsym results)']
    chk.not_decided = ['run-time symbol resolution order', 'behaviour of libc\'s execv/execve themselves']
    prog = ctx.program(facts.AS_CONFIGURED, 'lib')
    cg = ctx.callgraph(facts.AS_CONFIGURED, 'lib')
    summ = Summaries(cg)
    tu = prog.tu(entry_tu)
    if tu is None:
        raise AnalysisBroken('entry-point translation unit %s is not part of libsnoopy' % entry_tu)
    for name, roles in INTERPOSERS.items():
        defs = [f for f in prog.functions if f.name == name]
        ok = len(defs) == 1 and defs[0].tu is tu
        chk.ob('E1', '%s:defined-once' % name, ok, defs[0].where() if defs else entry_tu, name,
               '%d definitions of %s in libsnoopy (%s)' % (len(defs), name, ', '.join(d.where() for d in defs)),
               nontrivial=False)
        if not defs:
            raise AnalysisBroken('interposer %s not found' % name)
        F = [d for d in defs if d.tu is tu]
        if not F:
            raise AnalysisBroken('interposer %s not defined in %s' % (name, entry_tu))
        F = F[0]
        check_interposer(ctx, prog, cg, summ, F, name, roles)
    check_readonly(ctx, prog, cg, [prog.func(n) for n in INTERPOSERS])
    cg.require_resolved(within=set(cg.reachable([prog.func(n) for n in INTERPOSERS])))
    from rules.recursion import recursion_rule
    recursion_rule(ctx, prog, cg, common.checked_reach(cg, prog), 'E8')
    from rules.C03 import stack_rule
    stack_rule(ctx, prog, common.checked_reach(cg, prog), 'E9')


def check_interposer(ctx, prog, cg, summ, F, name, roles):
    chk = ctx.chk
    d = F.d
    # ---- E1 ------------------------------------------------------------------
    ret, ptypes = LIBC_PROTO[name]
    got = [p['ct'] for p in d['params']]
    chk.ob('E1', '%s:visibility-default' % name,
           d['visibilityAttr'] == 'default' and not d['internal'], F.where(), name,
           'visibility attribute is %s, internal linkage=%s: with -fvisibility=hidden the symbol would not '
           'interpose' % (d['visibilityAttr'], d['internal']), nontrivial=False)
    chk.ob('E1', '%s:prototype' % name, d['retCanon'] == ret and got == ptypes and not d['variadic'],
           F.where(), name, 'signature is %s(%s), libc declares %s(%s)' % (d['retCanon'], ', '.join(got), ret, ', '.join(ptypes)),
           nontrivial=False)
    # ---- E2 ------------------------------------------------------------------
    ind = [c for c in F.calls() if c.get('callee') is None]
    if not chk.ob('E2', '%s:one-indirect-call' % name, len(ind) == 1, F.where(), name,
                  'found %d calls through a function pointer (%s): the interposer must end in exactly one call of the '
                  'next definition obtained with dlsym(RTLD_NEXT); calling an exec function by name re-enters the '
                  'wrapper or skips libc' % (len(ind), '; '.join(render(c) for c in ind))):
        if not ind:
            # still decide what can be decided without the real call: the log action must run once
            for label, ev in (('init', {'snoopy_init'}), ('log-action', {'snoopy_action_log_syscall_exec'}),
                              ('cleanup', {'snoopy_cleanup'})):
                mn, mx = summ.count_range(F, ev)
                chk.ob('E5', '%s:%s-exactly-once' % (name, label), mn == 1 and mx == 1, F.where(), name,
                       '%s runs between %s and %s times per call' % ('/'.join(ev), mn, mx))
            return
    real = ind[0]
    ce = strip(real.ch[0])
    while ce.k == 'UnaryOperator' and ce['op'] == '*':
        ce = strip(ce.ch[0])
    r = decl_of(ce)
    ok = r is not None and r['kind'] == 'var'
    detail = 'callee expression is %s' % render(ce)
    dom_ok = False
    if ok:
        sites = def_sites(F, r['id'])
        vals = def_exprs(F, r['id'])
        ok = len(vals) >= 1
        for v in vals:
            s = strip(v)
            if not (s.k == 'CallExpr' and s.get('callee') == 'dlsym'):
                ok = False
                detail = 'pointer %s is assigned %s' % (r['name'], render(s))
                break
            h, sym = strip(s.ch[1]), strip(s.ch[2])
            if h.get('v') != -1:
                ok = False
                detail = 'dlsym handle is %s, not RTLD_NEXT' % render(s.ch[1])
                break
            if not (sym.k == 'StringLiteral' and sym.get('s') == name):
                ok = False
                detail = '%s looks up %s instead of "%s"' % (name, render(sym), name)
                break
        bad = [k for k, n in sites if k in ('incdec', 'addr')] + \
              [k for k, n in sites if k == 'assign' and n.k == 'CompoundAssignOperator']
        if ok and bad:
            ok = False
            detail = 'pointer %s is modified other than by the dlsym assignment' % r['name']
        assigns = [n for k, n in sites if k == 'assign']
        dom_ok = bool(assigns) and C.always_preceded(F, real, lambda e: any(e.id == a.id for a in assigns))
    chk.ob('E2', '%s:callee-is-own-dlsym' % name, ok, real.where(), name, detail,
           how='only definition: dlsym(RTLD_NEXT, "%s")' % name)
    chk.ob('E2', '%s:lookup-dominates-call' % name, dom_ok, real.where(), name,
           'a path reaches the real call without the dlsym assignment (NULL/stale pointer call)',
           how='element-level dominance in the CFG')
    # ---- E3 ------------------------------------------------------------------
    args = real.ch[1:]
    ok = len(args) == len(roles)
    detail = 'real call has %d arguments, expected %d' % (len(args), len(roles))
    if ok:
        for i, a in enumerate(args):
            ra = decl_of(a)
            if not (ra is not None and ra['kind'] == 'parm' and ra['index'] == i):
                ok = False
                detail = 'argument %d of the real call is %s, expected parameter #%d (%s)' % (
                    i, render(a), i, d['params'][i]['name'])
                break
    chk.ob('E3', '%s:args-are-own-params-in-order' % name, ok, real.where(), name, detail,
           how='; '.join(render(a) for a in args))
    for i, p in enumerate(d['params']):
        sites = [(k, n) for k, n in def_sites(F, p['id']) if k != 'decl']
        chk.ob('E3', '%s:param-unmodified[%d]' % (name, i), not sites, F.where(), name,
               'parameter %s is %s at %s' % (p['name'], sites[0][0] if sites else '', sites[0][1].where() if sites else ''),
               nontrivial=False)
    # ---- E4 ------------------------------------------------------------------
    rets = C.return_nodes(F)
    ok = len(rets) >= 1
    detail = ''
    for rn in rets:
        v = strip(rn.ch[0]) if rn.ch else None
        if v is real:
            continue
        rv = decl_of(v) if v is not None else None
        good = False
        if rv is not None and rv['kind'] == 'var' and not rv.get('staticStorage'):
            defs = def_exprs(F, rv['id'])
            other = [k for k, n in def_sites(F, rv['id']) if k in ('incdec', 'addr')] + \
                    [k for k, n in def_sites(F, rv['id']) if k == 'assign' and n.k == 'CompoundAssignOperator']
            good = len(defs) >= 1 and all(strip(x) is real for x in defs) and not other
        if not good:
            ok = False
            detail = 'returns %s, which is not (only) the result of the real call' % render(v)
    chk.ob('E4', '%s:return-is-real-call' % name, ok, rets[0].where() if rets else F.where(), name,
           detail or 'no return statement',
           how='every return yields the unmodified result of the real call')
    mn, mx = C.count_on_paths(F, lambda e: e.id == real.id)
    chk.ob('E4', '%s:exactly-once' % name, mn == 1 and mx == 1, real.where(), name,
           'the real call executes between %s and %s times on a path' % (mn, mx),
           how='min/max path count over the CFG = 1/1')
    # after the real call returned (exec failed) nothing may run that could change errno
    # or have any effect: no call, no store to non-local memory
    def effect(e):
        if e.k == 'CallExpr':
            return True
        if e.k in ('BinaryOperator', 'CompoundAssignOperator') and (e['op'] == '=' or e.k == 'CompoundAssignOperator') \
                or (e.k == 'UnaryOperator' and e['op'] in ('++', '--')):
            t = decl_of(e.ch[0])
            return not (t is not None and t['kind'] == 'var' and not t.get('staticStorage'))
        return False
    after = C.can_reach_after(F, real, effect)
    chk.ob('E4', '%s:nothing-after' % name, not after, after[0].where() if after else real.where(), name,
           'executed after the real exec returned (may clobber errno / act after a failed exec): %s' %
           '; '.join(render(x) for x in after[:3]),
           how='no call and no non-local store is reachable after the real call')
    # ---- E5 ------------------------------------------------------------------
    INIT, ACT, CLEAN = {'snoopy_init'}, {'snoopy_action_log_syscall_exec'}, {'snoopy_cleanup'}
    for label, ev in (('init', INIT), ('log-action', ACT), ('cleanup', CLEAN)):
        mn, mx = summ.count_range(F, ev)
        chk.ob('E5', '%s:%s-exactly-once' % (name, label), mn == 1 and mx == 1, F.where(), name,
               '%s runs between %s and %s times per call' % ('/'.join(ev), mn, mx),
               how='interprocedural must-call/may-call path count = 1/1')
    chain = [('init', INIT)]
    stores = set(STORE.values())
    for a, b, la, lb in ((INIT, stores, 'init', 'store'), (stores, ACT, 'store', 'log-action'),
                         (INIT, ACT, 'init', 'log-action'), (ACT, CLEAN, 'log-action', 'cleanup')):
        ok, w = summ.ordered(F, a, b)
        chk.ob('E5', '%s:%s-before-%s' % (name, la, lb), ok, F.where(), name, w,
               how='every %s is preceded on all paths by %s (callees inlined)' % (lb, la))
    for role, fn in STORE.items():
        ok = summ.must_call(F, {fn})
        chk.ob('E5', '%s:stores-%s' % (name, role), ok, F.where(), name,
               'a path through %s does not call %s' % (name, fn))
        ok2, w = summ.ordered(F, {fn}, ACT)
        chk.ob('E5', '%s:%s-stored-before-logging' % (name, role), ok2, F.where(), name, w)
    # cleanup and logging precede the real call
    for label, ev in (('log-action', ACT), ('cleanup', CLEAN)):
        ok = C.always_preceded(F, real, lambda e: summ.elem_must(F, e, ev))
        chk.ob('E5', '%s:%s-before-real-call' % (name, label), ok, real.where(), name,
               'a path reaches the real exec before %s has run' % '/'.join(ev),
               how='dominance of the real call by a must-call of %s' % '/'.join(ev))
    # stored values are the call's own parameters
    for role, fn in STORE.items():
        origins = summ.arg_origins(F, fn, 0)
        if not origins:
            chk.ob('E5', '%s:stored-%s-is-own' % (name, role), False, F.where(), name,
                   '%s is never called' % fn)
            continue
        for o, chainx in origins:
            ok = False
            detail = ' <- '.join(chainx)
            if o is not None:
                ro = decl_of(o)
                if role in roles:
                    ok = ro is not None and ro['kind'] == 'parm' and ro['index'] == roles.index(role)
                    if not ok:
                        detail = '%s receives %s, expected parameter %s (%s)' % (fn, render(o), role, detail)
                else:
                    # execv has no envp: an empty local vector that is never written
                    ok = empty_local_vector(F, ro)
                    if not ok:
                        detail = '%s receives %s, expected an empty NULL-terminated local vector (%s)' % (
                            fn, render(o), detail)
            chk.ob('E5', '%s:stored-%s-is-own' % (name, role), ok, F.where(), name, detail,
                   how=' <- '.join(chainx))
    # ---- E6 ------------------------------------------------------------------
    reach = cg.reachable([F])
    ctx.chk.count('functions_reachable_from_%s' % name, len(reach))
    bad = []
    for ext, cs in cg.external_calls(reach):
        base = ext[6:] if ext.startswith('dlsym:') else ext
        if base in NONLOCAL_EXIT and not (cs.caller.key == F.key and cs.node.id == real.id):
            bad.append((base, cs))
        elif cs.node.get('calleeNoReturn'):
            bad.append((base, cs))
    if bad:
        for base, cs in bad:
            chk.ob('E6', '%s:no-nonlocal-exit[%s@%s]' % (name, base, cs.caller.name), False,
                   cs.node.where(), cs.caller.name,
                   '%s() can be reached from %s: %s -> %s' % (
                       base, name, cg.describe_path(reach, cs.caller.key), base))
    chk.ob('E6', '%s:deny-list-clear' % name, not bad, F.where(), name,
           '%d deny-listed call(s) reachable' % len(bad),
           how='%d functions, %d external call sites inspected' % (len(reach), len(cg.external_calls(reach))))


def empty_local_vector(F, ref):
    if ref is None or ref['kind'] != 'var' or ref.get('staticStorage'):
        return False
    d = local_decl(F, ref['id'])
    if d is None or d.get('init', -1) == -1:
        return False
    init = strip(F.nodes[d['init']])
    if init.k != 'InitListExpr':
        return False
    for c in init.ch:
        s = strip(c)
        if not (s.get('v') == 0 or s.get('null') or c.get('null')):
            return False
    # never written afterwards
    for n in F.body.walk():
        if n.k in ('BinaryOperator', 'CompoundAssignOperator') and (n['op'] == '=' or n.k == 'CompoundAssignOperator'):
            l = strip(n.ch[0])
            while l is not None and l.k in ('ArraySubscriptExpr', 'UnaryOperator'):
                l = strip(l.ch[0])
            r = decl_of(l) if l is not None else None
            if r is not None and r['id'] == ref['id']:
                return False
    return True


def is_ids_field(n):
    return n.k == 'MemberExpr' and n.get('record') == IDS_RECORD and n.get('member') in IDS_FIELDS


_WT = {}


def writes_through_param(prog, callee, i, depth=0):
    """does the function store through memory derived from its parameter i (whatever its qualifiers)?"""
    key = (callee.key, i)
    if key in _WT:
        return _WT[key]
    _WT[key] = False
    if i >= len(callee.params) or depth > 4:
        return False
    pt = PtrTaint(callee, lambda n: False, {callee.params[i]['id']})
    res = bool(pt.stores())
    if not res:
        for call, j, a in pt.pointer_args():
            t = prog.func(call.get('callee'), callee.tu) if call.get('callee') else None
            if t is not None and writes_through_param(prog, t, j, depth + 1):
                res = True
            elif t is None:
                ptypes = call.get('calleeParamTypes') or []
                if j < len(ptypes) and not pointee_const(ptypes[j]):
                    res = True
    _WT[key] = res
    return res


def caller_data(n):
    """expressions that ARE the caller's data: the stored path/argv/envp, and the environment as libc hands it
    out (getenv results point into the strings of environ, which execv passes on)"""
    if is_ids_field(n):
        return True
    if n.k == 'CallExpr' and n.get('callee') in ('getenv', 'secure_getenv', '__secure_getenv'):
        return True
    if n.k == 'DeclRefExpr' and n['ref'].get('name') in ('environ', '__environ') and n['ref'].get('kind') == 'var':
        return True
    return False


def check_readonly(ctx, prog, cg, roots):
    """E7: every use of the stored pointers is a read."""
    chk = ctx.chk
    reach = common.checked_reach(cg, prog) if roots else {}
    nuses = 0
    viol = []
    for key, (f, _, _) in reach.items():
        # parameters of the interposers, of the wrapper helper and of the store_*
        # functions are the caller's pointers as well
        param_ids = set()
        if f.name in INTERPOSERS or f.name in STORE.values() or \
                f.name == 'snoopy_entrypoint_execve_wrapper_init':
            param_ids = {p['id'] for p in f.params}
        pt = PtrTaint(f, caller_data, param_ids)
        for n in pt.stores():
            nuses += 1
            viol.append((f, n, 'store through the caller\'s data: %s' % render(n)))
        for call, i, a in pt.pointer_args():
            nuses += 1
            np = call.get('calleeNumParams')
            if np is not None and i >= np and call.get('calleeVariadic'):
                # variadic argument: what the callee does with it is given by the format
                binds = fmt.variadic_bindings(call)
                conv = None
                if binds is not None:
                    for an, d, role in binds:
                        if an is a:
                            conv = d['conv'] if role == 'value' else role
                if conv == 's':
                    continue  # read as a string
                viol.append((f, call, 'caller data passed as variadic argument to %s with conversion %s' % (
                    render(call.ch[0]), conv)))
                continue
            ptypes = call.get('calleeParamTypes') or []
            pty = ptypes[i] if i < len(ptypes) else a.get('ct', '')
            if not pointee_const(pty):
                viol.append((f, call, 'caller data passed as writable pointer (%s %s) to %s' % (
                    a.get('ct'), render(a), render(call.ch[0]))))
            else:
                # a const-qualified parameter is no guarantee: the callee may store through a pointer it derived
                # from it (strchr and friends return a plain char *)
                callee = prog.func(call.get('callee'), f.tu) if call.get('callee') else None
                if callee is not None and writes_through_param(prog, callee, i):
                    viol.append((f, call, 'caller data passed to %s, which stores through its parameter %d although it is '
                                          'declared const (the pointer is laundered through strchr/strstr)' % (
                                              callee.name, i)))
        for n in f.body.walk():
            if is_ids_field(n):
                nuses += 1
    for f, n, msg in viol:
        chk.ob('E7', 'readonly[%s:%s]' % (f.name, render(n)[:60]), False, n.where(), f.name, msg)
    chk.ob('E7', 'stored-pointers-only-read', not viol, '', '',
           '%d writes / writable escapes of the stored pointers' % len(viol),
           how='%d uses of filename/argv/envp (and values derived from them) inspected in %d functions' % (
               nuses, len(reach)))
    # environment mutators
    bad = [(ext, cs) for ext, cs in cg.external_calls(reach) if ext in ENV_MUTATORS]
    for ext, cs in bad:
        chk.ob('E7', 'env-mutator[%s@%s]' % (ext, cs.caller.name), False, cs.node.where(), cs.caller.name,
               '%s() changes the environment execv hands to the new program: %s' % (
                   ext, cg.describe_path(reach, cs.caller.key)))
    writes_environ = []
    for key, (f, _, _) in reach.items():
        for n in f.body.walk():
            if n.k in ('BinaryOperator', 'CompoundAssignOperator') and (n['op'] == '=' or n.k == 'CompoundAssignOperator'):
                l = strip(n.ch[0])
                base = l
                while base is not None and base.k in ('ArraySubscriptExpr', 'UnaryOperator', 'MemberExpr'):
                    base = strip(base.ch[0])
                if base is not None and base.k == 'DeclRefExpr' and base['ref']['name'] in ('environ', '__environ'):
                    writes_environ.append((f, n))
    for f, n in writes_environ:
        chk.ob('E7', 'environ-write[%s]' % f.name, False, n.where(), f.name, 'assignment to environ: %s' % render(n))
    chk.ob('E7', 'environment-untouched', not bad and not writes_environ, '', '',
           'environment mutated on the logging path',
           how='no setenv/putenv/unsetenv/clearenv and no store to environ among %d reachable functions' % len(reach))
    # field writers are only the store_* / setDefaults functions
    writers = set()
    for f in prog.functions:
        for n in f.body.walk():
            if n.k == 'BinaryOperator' and n['op'] == '=' and is_ids_field(strip(n.ch[0])):
                writers.add(f.name)
    allowed = set(STORE.values()) | {'snoopy_inputdatastorage_setDefaults'}
    extra = writers - allowed
    chk.ob('E7', 'field-writers', not extra, '', '',
           'the stored pointers are also assigned in %s' % ', '.join(sorted(extra)),
           how='writers of %s.{filename,argv,envp}: %s' % (IDS_RECORD, ', '.join(sorted(writers))))


def pointee_const(ct):
    from engine.statics import _pointee_const
    return _pointee_const(ct)


def environment_strings_untouched(ctx, prog, cg, rule):
    """(shared with C16) no store through a pointer into the environment strings: results of getenv() and
    the vector environ are only read, also by callees that take them as const"""
    chk = ctx.chk
    reach = common.checked_reach(cg, prog)
    env_only = lambda n: (n.k == 'CallExpr' and n.get('callee') in ('getenv', 'secure_getenv', '__secure_getenv')) or \
        (n.k == 'DeclRefExpr' and n['ref'].get('name') in ('environ', '__environ') and n['ref'].get('kind') == 'var')
    bad = []
    nuse = 0
    for key, (f, _, _) in sorted(reach.items(), key=lambda kv: str(kv[0])):
        if not any(env_only(n) for n in f.body.walk()):
            continue
        pt = PtrTaint(f, env_only, set())
        for n in pt.stores():
            bad.append((f, n, 'store into an environment string: %s' % render(n)[:60]))
        for call, i, a in pt.pointer_args():
            nuse += 1
            np = call.get('calleeNumParams')
            if np is not None and i >= np and call.get('calleeVariadic'):
                continue
            ptypes = call.get('calleeParamTypes') or []
            pty = ptypes[i] if i < len(ptypes) else a.get('ct', '')
            callee = prog.func(call.get('callee'), f.tu) if call.get('callee') else None
            if not pointee_const(pty):
                bad.append((f, call, 'an environment string is passed as writable pointer to %s' % render(call.ch[0])))
            elif callee is not None and writes_through_param(prog, callee, i):
                bad.append((f, call, '%s stores through the environment string it is given (declared const, laundered '
                                     'through strchr/strstr)' % callee.name))
    for f, n, msg in bad:
        chk.ob(rule, 'environment-string-modified[%s:%s]' % (f.name, render(n)[:50]), False, n.where(), f.name,
               msg + ': the variable stays changed in the calling process after the call and is what the new program receives')
    chk.ob(rule, 'environment-strings-only-read', not bad, '', '', '%d stores into environment strings' % len(bad),
           how='%d uses of getenv()/environ values inspected' % nuse)
