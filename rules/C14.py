"""C14 — UID filters decide by exact membership of the real uid."""
from engine import cfg as C
from engine import facts
from engine.dataflow import decl_of, def_exprs
from engine.facts import AnalysisBroken, render, strip
from rules import common
from rules.common import arg
from rules.C12 import ID_FAMILY, own_reach, Slice

LEVEL = 'other'
CONVERT = {'atol', 'atoi', 'atoll', 'strtol', 'strtoul', 'strtoll', 'strtoull'}


def returned_by_match(func, match_edges, ret_consts):
    """{(matched?, returned constant)} over all paths: matched = the path went through one of
    match_edges (block id, successor index)."""
    # variables assigned constants that are later returned
    def value_of(expr, env):
        s = strip(expr)
        if s is None:
            return None
        if 'v' in s.d and s.k != 'DeclRefExpr':
            return s['v']
        d = decl_of(s)
        if d is not None:
            return env.get(d['id'], 'top')
        if s.k == 'ConditionalOperator':
            return 'cond'
        return 'top'
    results = set()

    def transfer(st, e):
        out = set()
        for matched, env in st:
            envd = dict(env)
            if e.k == 'BinaryOperator' and e['op'] == '=':
                d = decl_of(e.ch[0])
                if d is not None and strip(e.ch[0]).k == 'DeclRefExpr':
                    v = strip(e.ch[1])
                    envd[d['id']] = v['v'] if v is not None and 'v' in v.d and v.k != 'DeclRefExpr' else 'top'
            elif e.k == 'DeclStmt':
                for d in e['decls']:
                    if d.get('init', -1) != -1:
                        v = strip(func.nodes[d['init']])
                        envd[d['id']] = v['v'] if v is not None and 'v' in v.d and v.k != 'DeclRefExpr' else 'top'
            elif e.k == 'ReturnStmt' and e.ch:
                v = value_of(e.ch[0], envd)
                if isinstance(v, int) and func.d.get('retCanon') in ('_Bool', 'bool'):
                    v = int(bool(v))        # `return -1` from a bool function is `true`
                results.add((matched, v))
            out.add((matched, tuple(sorted(envd.items()))))
        return frozenset(out)

    def edge(st, block, si):
        if (block.id, si) in match_edges:
            return frozenset((True, env) for m, env in st)
        return st
    C.forward_dataflow(func, frozenset({(False, ())}), transfer, lambda a, b: a | b, edge_transfer=edge)
    return results


def is_ptr_arg(a):
    ct = (strip(a).get('ct') or a.get('ct') or '') if strip(a) is not None else ''
    return ct.rstrip().endswith('*')


def _countdown_walk(F, cnt, conv):
    """`for (p = list; left > 0; p++, left--) ... convert(*p)`: the count is used up one per item while a cursor
    moves one item on, both in the same step, and the loop runs while items are left"""
    a0 = strip(arg(conv, 0))
    cur = None
    if a0 is not None and a0.k == 'UnaryOperator' and a0.get('op') == '*':
        cur = decl_of(a0.ch[0])
    elif a0 is not None and a0.k == 'ArraySubscriptExpr' and strip(a0.ch[1]).get('v') == 0:
        cur = decl_of(a0.ch[0])
    if cur is None or cur.get('kind') != 'var':
        return False
    cond_ok = False
    for bb in F.blocks.values():
        cc = strip(bb.cond) if bb.cond is not None else None
        if cc is None:
            continue
        if cc.k == 'BinaryOperator' and cc['op'] in ('>', '!=') and (decl_of(cc.ch[0]) or {}).get('id') == cnt and \
                strip(cc.ch[1]).get('v') == 0:
            cond_ok = True
        if cc.k == 'BinaryOperator' and cc['op'] == '<' and (decl_of(cc.ch[1]) or {}).get('id') == cnt and \
                strip(cc.ch[0]).get('v') == 0:
            cond_ok = True
    if not cond_ok:
        return False
    pos = C.elem_positions(F)
    steps = {cnt: [], cur['id']: []}
    for n in F.body.walk():
        t = None
        if n.k == 'CompoundAssignOperator' or (n.k == 'UnaryOperator' and n.get('op') in ('++', '--', '&')) or \
                (n.k == 'BinaryOperator' and n.get('op') == '='):
            t = (decl_of(n.ch[0]) or {}).get('id') if strip(n.ch[0]).k == 'DeclRefExpr' else None
        if t in steps:
            steps[t].append(n)
    down = [n for n in steps[cnt] if not (n.k == 'BinaryOperator' and strip(n.ch[1]).k == 'CallExpr')]
    up = [n for n in steps[cur['id']] if n.k != 'BinaryOperator']
    starts = [n for n in steps[cur['id']] if n.k == 'BinaryOperator']
    if len(down) != 1 or len(up) != 1 or len(starts) > 1:
        return False
    d, u = down[0], up[0]
    if not (d.k == 'UnaryOperator' and d.get('op') == '--') or not (u.k == 'UnaryOperator' and u.get('op') == '++'):
        return False
    pd, pu = pos.get(d.id), pos.get(u.id)
    return pd is not None and pu is not None and pd[0] == pu[0]


def run(ctx):
    chk = ctx.chk
    chk.rule('U1', 'the identity compared is the real uid: getuid() and no other identity query', floor=3)
    chk.rule('U2', 'polarity: only_uid returns PASS exactly on paths where a list item equalled the uid and DROP when none '
                   'did, exclude_uid the opposite, only_root PASS iff getuid() == 0; every return is one of the two constants', floor=6)
    chk.rule('U3', 'a list item is converted from decimal text and compared with the uid only (no other bound or filter on '
                   'the item); both list filters walk the list produced by the same helper with its count as bound', floor=4)
    chk.explanation = (
        'Path-sensitive polarity analysis: the set of constants returned on paths through the "item == uid" edge and on '
        'paths that never take it is computed over the CFG; with identical list handling in both filters this gives '
        'complementarity for every uid and every list.')
    chk.assumptions = ['decimal conversion of a well-formed item by atol/strtol yields the number (libc)']
    chk.not_decided = ['decimal parsing of the list text as a string algorithm (near misses, 2^32-2 on 32-bit long)',
                       'splitting of the argument at commas (C02 covers its memory safety)']
    prog = ctx.program(facts.AS_CONFIGURED, 'lib')
    cg = ctx.callgraph(facts.AS_CONFIGURED, 'lib')
    PASS = common.macro_value(ctx.repo, 'SNOOPY_FILTER_PASS')
    DROP = common.macro_value(ctx.repo, 'SNOOPY_FILTER_DROP')
    spec = {'snoopy_filter_only_uid': (PASS, DROP), 'snoopy_filter_exclude_uid': (DROP, PASS),
            'snoopy_filter_only_root': (PASS, DROP)}
    helpers = {}
    for fname, (on_match, otherwise) in spec.items():
        F = prog.func(fname)
        if F is None:
            raise AnalysisBroken('%s is not part of this build' % fname)
        # ---- U1 ---------------------------------------------------------------------------
        calls = [c for g in own_reach(cg, F) for c in g.calls() if c.get('callee')]
        ids = {c['callee'] for c in calls if c['callee'] in ID_FAMILY}
        chk.ob('U1', 'identity[%s]' % fname, ids == {'getuid'}, F.where(), fname,
               'the filter consults %s instead of exactly getuid() (the real uid)' % sorted(ids),
               how='only getuid() is called')
        # ---- the match test -----------------------------------------------------------------
        uid_vars = set()
        for c in F.calls('getuid'):
            h = common.holder(F, c)
            if h is not None:
                uid_vars.add(h)

        def is_uid(n):
            n = strip(n)
            if n is None:
                return False
            if n.k == 'CallExpr' and n.get('callee') == 'getuid':
                return True
            d = decl_of(n)
            return d is not None and d['id'] in uid_vars
        match_edges = set()
        tests = []
        for b in F.blocks.values():
            c = strip(b.cond) if b.cond is not None else None
            if c is None or len(b.all_succs) != 2 or c.k != 'BinaryOperator' or c['op'] not in ('==', '!='):
                continue
            l, r = c.ch[0], c.ch[1]
            if is_uid(l) or is_uid(r):
                other = r if is_uid(l) else l
                tests.append((b, c, other))
                match_edges.add((b.id, 0 if c['op'] == '==' else 1))
        chk.ob('U2', 'uid-compared-for-equality[%s]' % fname, bool(tests), F.where(), fname,
               'no equality comparison between a value and the real uid found')
        if not tests:
            continue
        res = returned_by_match(F, match_edges, (PASS, DROP))
        m = {v for matched, v in res if matched}
        o = {v for matched, v in res if not matched}
        chk.ob('U2', 'returns-on-match[%s]' % fname, m == {on_match}, F.where(), fname,
               'on paths where an item equals the uid %s returns %s, expected only %s' % (fname, sorted(map(str, m)), on_match),
               how='every path through the "== uid" edge returns %s' % on_match)
        if o != {otherwise} or m != {on_match}:
            # another way of accepting an item (a range, a name looked up): whether it can be taken for a well-formed
            # decimal item is a question about the helper's string algorithm, which no rule here decides
            for cc in F.calls():
                t_ = prog.func(cc.get('callee'), F.tu) if cc.get('callee') else None
                if t_ is None or cc.get('callee') in CONVERT or t_.name.startswith('snoopy_util_parser_csv'):
                    continue
                takes_item = any(a is not None and any(z.k == 'ArraySubscriptExpr' or (z.k == 'UnaryOperator' and z.get('op') == '*')
                                                        for z in a.walk()) and is_ptr_arg(a) for a in cc.ch[1:])
                if takes_item and common.blocks_testing(F, common.is_result_of(F, cc)):
                    raise AnalysisBroken('%s also judges a list item through %s: whether that can accept or reject a '
                                         'well-formed decimal item is not decided by U2' % (fname, render(cc)[:60]))
        chk.ob('U2', 'returns-without-match[%s]' % fname, o == {otherwise}, F.where(), fname,
               'on paths where no item equals the uid %s returns %s, expected only %s' % (fname, sorted(map(str, o)), otherwise),
               how='every path that never takes the "== uid" edge returns %s' % otherwise)
        if fname == 'snoopy_filter_only_root':
            b, c, other = tests[0]
            chk.ob('U2', 'root-is-uid-0', strip(other).get('v') == 0, c.where(), fname,
                   'only_root compares the uid with %s' % render(other))
            continue
        # ---- U3 ---------------------------------------------------------------------------
        b, c, other = tests[0]
        od = decl_of(other)
        conv = None
        item_expr = other
        if od is not None:
            for d in def_exprs(F, od['id']):
                item_expr = d
        s = strip(item_expr)
        if s is not None and s.k == 'CallExpr' and s.get('callee') in CONVERT:
            conv = s
        chk.ob('U3', 'item-is-decimal-conversion[%s]' % fname, conv is not None, c.where(), fname,
               'the value compared with the uid is %s, not the decimal conversion of a list item' % render(item_expr),
               how=render(conv)[:50] if conv is not None else '')
        # the item and the uid are compared as numbers of the same kind: a conversion narrowed through a signed 32-bit
        # type ((pid_t) atol(..)) is only harmless when both sides are then 32-bit unsigned again (uid_t); kept in a wider
        # type it is sign-extended, the uid is not, and uids from 2^31 up never match
        narrowed = [n for n in (item_expr.walk() if item_expr is not None else []) if n.k == 'CStyleCastExpr' and
                    (n.get('ct') or '').strip() in ('int', 'short', 'signed char')]
        if narrowed:
            decls14 = {x['id']: x for x in F.local_decls()}
            sides = []
            for x in c.ch:
                dx = decl_of(x)
                sides.append((decls14.get(dx['id'], {}).get('ct') or '').strip() if dx is not None else (strip(x).get('ct') or '').strip())
            okt = all(t == 'unsigned int' for t in sides)
            chk.ob('U3', 'same-width-comparison[%s]' % fname, okt, c.where(), fname,
                   'the list item is narrowed through %s and then compared as %s with a uid held as %s: the item is '
                   'sign-extended, the uid is not, so a listed uid of 2^31 or more is not recognised' % (
                       render(narrowed[0])[:40], sides[0] if decl_of(c.ch[0]) is not None and decl_of(c.ch[0]).get('id') == (od or {}).get('id') else sides[-1],
                       sides[-1] if sides else '?'),
                   how='both sides are 32-bit unsigned (uid_t)', nontrivial=False)
        # no other comparison on the converted item
        extra = []
        item_ids = {od['id']} if od is not None else set()
        if conv is not None:
            h = common.holder(F, conv)
            if h is not None:
                item_ids.add(h)
        for bb in F.blocks.values():
            cc = strip(bb.cond) if bb.cond is not None else None
            if cc is None or bb is b:
                continue
            if any(n.k == 'DeclRefExpr' and n['ref'].get('id') in item_ids for n in cc.walk()):
                extra.append(cc)
        chk.ob('U3', 'item-only-compared-with-uid[%s]' % fname, not extra, extra[0].where() if extra else c.where(), fname,
               'a list item is additionally tested by %s: items failing that test are silently ignored, so membership is '
               'not exact for every uid (e.g. uids >= 2^31)' % (render(extra[0]) if extra else ''),
               how='the converted item occurs in no other condition')
        # list source: helper + count as loop bound
        hc = [cc for cc in F.calls() if cc.get('callee') and prog.func(cc['callee']) is not None and
              any(strip(a) is not None and strip(a).k == 'UnaryOperator' and strip(a)['op'] == '&' for a in cc.ch[1:])]
        helpers[fname] = (hc[0]['callee'] if hc else None, conv.get('callee') if conv is not None else None)
        if hc:
            cnt = common.holder(F, hc[0])
            bound_ok = False
            for bb in F.blocks.values():
                cc = strip(bb.cond) if bb.cond is not None else None
                if cc is not None and cc.k == 'BinaryOperator' and cc['op'] in ('<', '!=') and \
                        (decl_of(cc.ch[1]) or {}).get('id') == cnt:
                    bound_ok = True
            if not bound_ok and conv is not None:
                bound_ok = _countdown_walk(F, cnt, conv)
            chk.ob('U3', 'loop-bounded-by-item-count[%s]' % fname, bound_ok, hc[0].where(), fname,
                   'the loop over the items is not bounded by the count returned by %s' % hc[0]['callee'])
            # the text handed to the list parser is a COMPLETE private copy of the filter argument: strdup(arg) (or
            # an allocation of strlen(arg)+1).  A copy into a fixed-size buffer cuts long lists: uids behind the cut
            # are not seen and the item straddling it becomes a different number.
            src = decl_of(arg(hc[0], 0))
            whole, why = False, 'the list parser is not given a variable'
            if src is not None:
                decls = {x['id']: x for x in F.local_decls()}
                x = decls.get(src['id'])
                if x is not None and ('arrayLen' in x or x.get('vla')):
                    why = 'the list is copied into the fixed buffer %s[%s]' % (x['name'], x.get('arrayLen', '?'))
                else:
                    defs = [strip(d) for d in def_exprs(F, src['id']) if not (strip(d).get('null') or strip(d).get('v') == 0)]
                    pid0 = F.params[0]['id'] if F.params else None
                    whole = bool(defs) and all(
                        d.k == 'CallExpr' and d.get('callee') in ('strdup', '__strdup') and (decl_of(arg(d, 0)) or {}).get('id') == pid0
                        for d in defs)
                    why = 'the parsed text is %s' % ', '.join(render(d)[:40] for d in defs) if defs else 'the parsed text has no definition'
                    if src.get('kind') == 'parm':
                        whole, why = True, 'the argument itself'
            chk.ob('U3', 'whole-list-parsed[%s]' % fname, whole, hc[0].where(), fname,
                   '%s: a uid list longer than the buffer is cut, so uids behind the cut are treated as unlisted and the '
                   'item at the cut as a different number' % why,
                   how='the parser works on strdup(<filter argument>)')
    # the list parser's count and its array agree: it returns "separators + 1" and the filters convert that many
    # entries, so every one of them must have been stored - a tokeniser that skips empty items (strtok, strtok_r,
    # strsep) stores fewer for ",,", a leading or a trailing "," and leaves the rest NULL (atol(NULL) in the filter)
    hname = None
    for v in helpers.values():
        hname = hname or v[0]
    H = prog.func(hname) if hname else None
    if H is not None:
        toks = [c for c in H.calls() if c.get('callee') in ('strtok', 'strtok_r', 'strsep')]
        chk.ob('U3', 'list-count-matches-entries[%s]' % H.name, not toks, (toks[0] if toks else H.body).where(), H.name,
               '%s cuts the list with %s, which skips empty items, but reports a count derived from the number of separators: '
               'for "1,2," or "1,,2" the filters read entries that were never stored (NULL), and atol(NULL) kills the '
               'process inside its exec' % (H.name, toks[0]['callee'] if toks else ''),
               how='entries are the texts behind each separator found by the same scan that is counted')
    if len(helpers) == 2:
        a, b = helpers['snoopy_filter_only_uid'], helpers['snoopy_filter_exclude_uid']
        chk.ob('U3', 'siblings-share-list-handling', a == b and a[0] is not None, '', '',
               'only_uid uses %s, exclude_uid uses %s: the two filters do not see the same list' % (a, b),
               how='both: %s + %s' % a)
