"""Recursion rule shared by C01 and C03: every cycle of the call graph reachable from the interposers is
either (a) a listed recursion whose argument provably changes on every recursive call, or (b) cut by a
re-entrancy guard: a function on the cycle returns at once unless a flag is set and clears that flag
before every call that continues the cycle.  Anything else can recurse until the stack is exhausted --
inside the caller's execv/execve."""
import sys

from engine import cfg as C
from engine.dataflow import decl_of
from engine.facts import AnalysisBroken, render, strip
from rules import common
from rules.common import arg

# listed recursions: function -> (index of the argument that must differ from the function's own
# parameter on every recursive call, reason)
LISTED = {
    'get_rpname': (0, 'walks one level up the process tree per call: the pid passed on is the parent pid read from '
                      '/proc, never the pid it was called with; the depth is the depth of the process tree'),
}
GUARD_FIELD = 'error_logging_enabled'


def call_cycles(cg, reach):
    adj = {}
    sites = {}
    for key, (f, _, _) in reach.items():
        adj[key] = set()
        for cs in cg.callees(f):
            for t in list(cs.targets) + list(getattr(cs, 'callbacks', [])):
                if hasattr(t, 'key') and t.key in reach:
                    adj[key].add(t.key)
                    sites.setdefault((key, t.key), []).append(cs.node)
    sys.setrecursionlimit(20000)
    idx, low, st, on, out, c = {}, {}, [], set(), [], [0]

    def sc(v):
        idx[v] = low[v] = c[0]
        c[0] += 1
        st.append(v)
        on.add(v)
        for w in sorted(adj[v], key=str):
            if w not in idx:
                sc(w)
                low[v] = min(low[v], low[w])
            elif w in on:
                low[v] = min(low[v], idx[w])
        if low[v] == idx[v]:
            comp = []
            while True:
                x = st.pop()
                on.discard(x)
                comp.append(x)
                if x == v:
                    break
            out.append(comp)
    for v in sorted(adj, key=str):
        if v not in idx:
            sc(v)
    cycles = [comp for comp in out if len(comp) > 1 or comp[0] in adj[comp[0]]]
    return cycles, adj, sites


def _field_of(n):
    n = strip(n)
    return n.get('member') if n is not None and n.k == 'MemberExpr' else None


def guard_cuts_cycle(H, comp_names, true_value):
    """H returns unless CFG-><flag> == TRUE, and the flag holds another constant at every call of H that
    stays on the cycle.  Returns (ok, detail)."""
    cyc_calls = [c for c in H.calls() if c.get('callee') in comp_names]
    if not cyc_calls:
        return False, '%s does not call into the cycle directly' % H.name
    isf = lambda n: n.k == 'MemberExpr' and n.get('member') == GUARD_FIELD
    tests = common.blocks_testing(H, isf)
    gate = None
    for b in tests:
        ce = common.compare_edges(b, isf)
        if ce is not None and ce[0] == true_value:
            gate = (b, ce[1], ce[2])
    if gate is None:
        return False, '%s does not test CFG->%s against SNOOPY_TRUE' % (H.name, GUARD_FIELD)
    b, eq_edge, ne_edge = gate
    visited, _ = common.reach_from_edge(H, b, ne_edge)
    if any(c.id in visited for c in cyc_calls):
        return False, 'with the flag off %s still reaches %s' % (H.name, render(cyc_calls[0])[:50])

    # flag state at the cycle calls: 'off' only after a store of a constant other than TRUE
    def transfer(st, e):
        if e.k == 'BinaryOperator' and e.get('op') == '=' and _field_of(e.ch[0]) == GUARD_FIELD:
            v = strip(e.ch[1]).get('v')
            return 'off' if (v is not None and v != true_value) else 'on'
        if e.k == 'CallExpr' and e.get('callee') and e not in cyc_calls and e.get('callee') not in (
                'snprintf', 'snoopy_configuration_get', 'strlen'):
            return st     # other callees do not write the flag (C08 T5: configuration writers are listed)
        return st
    ins = C.forward_dataflow(H, 'on', transfer, lambda a, b_: 'off' if a == b_ == 'off' else 'on')
    for bid, st in ins.items():
        if st is None:
            continue
        for e in H.blocks[bid].elems:
            if e in cyc_calls and st != 'off':
                return False, 'CFG->%s is not switched off on every path to %s' % (GUARD_FIELD, render(e)[:50])
            st = transfer(st, e)
    return True, '%s returns unless CFG->%s is on and switches it off before %s' % (
        H.name, GUARD_FIELD, ', '.join(sorted({c['callee'] for c in cyc_calls})))


def recursion_rule(ctx, prog, cg, reach, rule):
    chk = ctx.chk
    cycles, adj, sites = call_cycles(cg, reach)
    true_value = common.macro_value(ctx.repo, 'SNOOPY_TRUE')
    n = 0
    for comp in sorted(cycles, key=lambda c: sorted(map(str, c))):
        n += 1
        funcs = [reach[k][0] for k in comp]
        names = sorted(f.name for f in funcs)
        label = '+'.join(names) if len(names) <= 2 else '%s+%d more' % (names[0], len(names) - 1)
        where = funcs[0].where()
        if len(comp) == 1 and names[0] in LISTED:
            f = funcs[0]
            ai, reason = LISTED[names[0]]
            bad = []
            for c in f.calls(f.name):
                d = decl_of(arg(c, ai))
                if d is not None and d.get('kind') == 'parm' and ai < len(f.params) and d['id'] == f.params[ai]['id']:
                    bad.append(c)
            chk.ob(rule, 'recursion[%s]' % label, not bad, (bad[0] if bad else f.body).where(), f.name,
                   '%s calls itself with the argument it was called with (%s): the recursion never ends' % (
                       f.name, render(bad[0])[:60] if bad else ''),
                   how='listed recursion: %s' % reason)
            continue
        H = next((f for f in funcs if f.name == 'snoopy_error_handler'), None)
        if H is not None:
            label = 'through-' + H.name
            ok, detail = guard_cuts_cycle(H, set(names), true_value)
            path = ' -> '.join(names[:6])
            chk.ob(rule, 'recursion[%s]' % label, ok, H.where(), H.name,
                   'reporting an error emits a record through the configured output, and emitting a record can report an '
                   'error (%s); nothing stops the two from calling each other until the stack is exhausted, which kills '
                   'the calling process inside its exec: %s' % (path, detail),
                   how=detail)
            continue
        chk.ob(rule, 'recursion[%s]' % label, False, where, funcs[0].name,
               'call-graph cycle %s is neither a listed bounded recursion nor cut by a re-entrancy guard' % ' -> '.join(names[:8]))
    chk.count('call_graph_cycles', n)
    return n
