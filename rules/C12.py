"""C12 — identity and environment data sources report the process's true state: each data
source derives what it emits from its documented system query, and from no other query of the same
confusable family."""
from engine import cfg as C
from engine import facts, fmt
from engine.dataflow import PtrTaint, decl_of, def_exprs
from engine.facts import AnalysisBroken, render, strip
from rules import common
from rules.common import arg

LEVEL = 'other'

ID_FAMILY = {'getuid', 'geteuid', 'getgid', 'getegid', 'getresuid', 'getresgid'}
PROC_FAMILY = {'getpid', 'getppid', 'getsid', 'getpgid', 'getpgrp', 'gettid', 'pthread_self', 'syscall'}
NAME_FAMILY = {'getpwuid_r', 'getgrgid_r', 'getpwuid', 'getgrgid', 'getpwnam', 'getgrnam', 'getlogin_r', 'getlogin'}
TIME_MEMBERS = {'tv_sec', 'tv_usec', 'tv_nsec'}
SYS_gettid = 186

# transcribed from etc/snoopy.ini.in and the property
# name -> dict(calls=[(api, {arg index: spec})], family=set to exclude, members=required struct members,
#              forbid_members=set)
SPEC = {
    'uid': dict(calls=[('getuid', {})], family=ID_FAMILY),
    'euid': dict(calls=[('geteuid', {})], family=ID_FAMILY),
    'gid': dict(calls=[('getgid', {})], family=ID_FAMILY),
    'egid': dict(calls=[('getegid', {})], family=ID_FAMILY),
    'username': dict(calls=[('getuid', {}), ('getpwuid_r', {})], family=ID_FAMILY, members={'pw_name'},
                     lookup=('getpwuid_r', 'getuid')),
    'eusername': dict(calls=[('geteuid', {}), ('getpwuid_r', {})], family=ID_FAMILY, members={'pw_name'},
                      lookup=('getpwuid_r', 'geteuid')),
    'group': dict(calls=[('getgid', {}), ('getgrgid_r', {})], family=ID_FAMILY, members={'gr_name'},
                  lookup=('getgrgid_r', 'getgid')),
    'egroup': dict(calls=[('getegid', {}), ('getgrgid_r', {})], family=ID_FAMILY, members={'gr_name'},
                   lookup=('getgrgid_r', 'getegid')),
    'pid': dict(calls=[('getpid', {})], family=PROC_FAMILY),
    'ppid': dict(calls=[('getppid', {})], family=PROC_FAMILY),
    'sid': dict(calls=[('getsid', {0: 0})], family=PROC_FAMILY),
    'tid': dict(calls=[('pthread_self', {})], family=PROC_FAMILY),
    'tid_kernel': dict(calls=[('syscall', {0: SYS_gettid})], family=PROC_FAMILY),
    'cwd': dict(calls=[('getcwd', {})], family=set()),
    'hostname': dict(calls=[('gethostname', {})], family=set()),
    'tty': dict(calls=[('ttyname_r', {0: 0})], family=set()),
    'tty_uid': dict(calls=[('ttyname_r', {0: 0}), ('stat', {})], family=ID_FAMILY, members={'st_uid'}),
    'tty_username': dict(calls=[('ttyname_r', {0: 0}), ('stat', {}), ('getpwuid_r', {})], family=ID_FAMILY,
                         members={'st_uid', 'pw_name'}),
    'login': dict(calls=[('getlogin_r', {}), ('getenv', {0: 'SUDO_USER'}), ('getenv', {0: 'LOGNAME'})], family=ID_FAMILY),
    'env': dict(calls=[('getenv', {0: ('param', 2)})], family=set()),
    'env_all': dict(calls=[], family=set(), globals={'environ'}),
    'datetime': dict(calls=[('time', {}), ('localtime_r', {}), ('strftime', {})], family=set()),
    'timestamp': dict(calls=[('gettimeofday', {})], family=set(), members={'tv_sec'}, forbid_members={'tv_usec'}),
    'timestamp_ms': dict(calls=[('gettimeofday', {})], family=set(), members={'tv_usec'}, forbid_members={'tv_sec'}, scale=1000),
    'timestamp_us': dict(calls=[('gettimeofday', {})], family=set(), members={'tv_usec'}, forbid_members={'tv_sec'}),
    # procfs / utmp parsers: only the starting query is decided (the parsers are not)
    'rpname': dict(calls=[('getpid', {})], family=set(), value=False),
    'cgroup': dict(calls=[('getpid', {})], family=set(), value=False),
    'ipaddr': dict(calls=[('ttyname_r', {0: 0})], family=set(), value=False),
    'snoopy_literal': dict(calls=[], family=set(), params={2}),
}
INTERNAL_PREFIX = ('snoopy_tsrm_', 'snoopy_configuration_', 'snoopy_inputdatastorage_', 'snoopy_util_list_',
                   'snoopy_error_handler', 'snoopy_action_', 'snoopy_outputregistry_', 'snoopy_output_')


def own_reach(cg, f):
    seen = {f.key: f}
    todo = [f]
    while todo:
        g = todo.pop()
        for cs in cg.callees(g):
            for t in cs.targets:
                if isinstance(t, str) or t.key in seen or t.name.startswith(INTERNAL_PREFIX):
                    continue
                seen[t.key] = t
                todo.append(t)
    return list(seen.values())


class Slice:
    """backward def-use slice from an expression: calls, struct members, parameters, globals."""

    def __init__(self, prog):
        self.prog = prog
        self.calls = []
        self.members = set()
        self.params = set()
        self.globals = set()
        self.literals = set()
        self.ops = []
        self._seen = set()

    def expr(self, func, e, depth=0):
        if e is None or depth > 8:
            return
        for n in e.walk():
            if n.k == 'CallExpr':
                if (func.key, n.id) not in self._seen:
                    self._seen.add((func.key, n.id))
                    self.calls.append((func, n))
                    t = self.prog.func(n.get('callee'), func.tu) if n.get('callee') else None
                    if t is not None and depth < 6:
                        for r in C.return_nodes(t):
                            if r.ch:
                                self.expr(t, r.ch[0], depth + 1)
            elif n.k == 'MemberExpr':
                self.members.add(n.get('member'))
            elif n.k == 'BinaryOperator' and n['op'] in ('/', '%', '*'):
                self.ops.append(n)
            elif n.k == 'DeclRefExpr':
                r = n['ref']
                if r['kind'] == 'parm':
                    self.params.add((func.key, r['index']))
                    self.var(func, r, depth)
                elif r['kind'] == 'var':
                    if r.get('fileScope') or r.get('staticStorage') and not r.get('staticLocal'):
                        self.globals.add(r['name'])
                    else:
                        self.var(func, r, depth)

    def var(self, func, r, depth):
        key = (func.key, 'v', r['id'])
        if key in self._seen:
            return
        self._seen.add(key)
        for d in def_exprs(func, r['id']):
            self.expr(func, d, depth + 1)
        # filled element by element:  v[i] = e  /  *v = e
        for n in func.body.walk():
            if n.k == 'BinaryOperator' and n.get('op') == '=':
                l = strip(n.ch[0])
                if l is not None and ((l.k == 'ArraySubscriptExpr' and (decl_of(l.ch[0]) or {}).get('id') == r['id']) or
                                      (l.k == 'UnaryOperator' and l.get('op') == '*' and (decl_of(l.ch[0]) or {}).get('id') == r['id'])):
                    self.expr(func, n.ch[1], depth + 1)
        # written through its address by a call:  f(&v)  /  f(v) for arrays
        for c in func.calls():
            for i, a in enumerate(c.ch[1:]):
                s = strip(a) if a is not None else None
                if s is None:
                    continue
                byaddr = s.k == 'UnaryOperator' and s['op'] == '&' and (decl_of(s.ch[0]) or {}).get('id') == r['id']
                isarr = s.k == 'DeclRefExpr' and s['ref'].get('id') == r['id'] and (s.get('ct') or '').rstrip().endswith(']')
                if byaddr or isarr:
                    if (func.key, c.id) not in self._seen:
                        self._seen.add((func.key, c.id))
                        self.calls.append((func, c))
                    for o in c.ch[1:]:
                        if o is not None and o is not a:
                            self.expr(func, o, depth + 1)
                    t = self.prog.func(c.get('callee'), func.tu) if c.get('callee') else None
                    if t is not None and i < len(t.params) and depth < 6:
                        pid = t.params[i]['id']
                        for n in t.body.walk():
                            if n.k == 'BinaryOperator' and n['op'] == '=':
                                l = strip(n.ch[0])
                                if l.k == 'UnaryOperator' and l['op'] == '*' and (decl_of(l.ch[0]) or {}).get('id') == pid:
                                    self.expr(t, n.ch[1], depth + 1)
                        # the callee may fill a buffer parameter with snprintf(param, ...)
                        for cc in t.calls():
                            if cc.get('callee') in fmt.PRINTF_FAMILY and (decl_of(arg(cc, 0)) or {}).get('id') == pid:
                                for b, dd, role in (fmt.variadic_bindings(cc) or []):
                                    self.expr(t, b, depth + 1)


def run(ctx):
    chk = ctx.chk
    chk.rule('Q1', 'the data source calls its documented system query (with the documented argument)', floor=18)
    chk.rule('Q2', 'no other query of the same confusable family (real/effective uid/gid, pid/ppid/sid/tid) is used', floor=10)
    chk.rule('Q3', 'the emitted value is data-dependent on that query (for struct results: on the documented member) and on '
                   'no forbidden member; name lookups are fed by the documented id', floor=18)
    chk.rule('Q4', 'numeric ids are printed with an integer conversion of matching signedness', floor=8)
    chk.rule('W1', 'root process name: for each class of parent pid (1 = init, 0 = top of a pid namespace / init itself, '
                   'failure, any other) the walk takes the documented step: name of the current process, "(unknown)", or '
                   'one level up', floor=4)
    chk.explanation = (
        'For every registered data source the backward def-use slice of each value it prints into its result buffer is '
        'computed (through local variables, out-parameters and helper functions) and compared with a table transcribed '
        'from the documentation: exactly the class of mistake a suite run as root with all ids 0 cannot see '
        '(uid vs euid vs gid, tv_sec vs tv_usec, pid vs ppid).')
    chk.assumptions = ['libc returns what the kernel reports for these queries']
    chk.not_decided = ['correctness of the procfs/utmp/hosts parsers, name-service lookups, values in exotic process '
                       'states other than the parent-pid classes of W1']
    prog = ctx.program(facts.AS_CONFIGURED, 'lib')
    PROG12[0] = prog
    cg = ctx.callgraph(facts.AS_CONFIGURED, 'lib')
    names = common.table_names(prog, 'snoopy_datasourceregistry_names')
    n_checked = 0
    for name in names:
        if name not in SPEC:
            continue
        ds = prog.func('snoopy_datasource_' + name)
        if ds is None:
            raise AnalysisBroken('data source %s is registered but snoopy_datasource_%s is not defined' % (name, name))
        spec = SPEC[name]
        n_checked += 1
        fs = own_reach(cg, ds)
        calls = []
        for f in fs:
            for c in f.calls():
                if c.get('callee'):
                    calls.append((f, c))
        # ---- Q1 ----------------------------------------------------------------------------
        for api, argspec in spec['calls']:
            hit = [(f, c) for f, c in calls if c['callee'] == api and args_match(f, c, argspec, ds)]
            any_api = [(f, c) for f, c in calls if c['callee'] == api]
            chk.ob('Q1', '%s:%s%s' % (name, api, fmt_argspec(argspec)), bool(hit),
                   (any_api[0][1] if any_api else ds.body).where(), ds.name,
                   '%%{%s} must be derived from %s%s; found %s' % (
                       name, api, fmt_argspec(argspec),
                       ', '.join(render(c)[:40] for f, c in any_api) or 'no call of it'),
                   how='%s' % (render(hit[0][1])[:60] if hit else ''))
        for gname in spec.get('globals', ()):
            used = any(n.k == 'DeclRefExpr' and n['ref']['name'] == gname for f in fs for n in f.body.walk())
            chk.ob('Q1', '%s:global %s' % (name, gname), used, ds.where(), ds.name, '%s is not read' % gname)
        # ---- Q2 ----------------------------------------------------------------------------
        fam = spec.get('family') or set()
        if fam:
            allowed = {api for api, _ in spec['calls']}
            other = [(f, c) for f, c in calls if c['callee'] in fam and c['callee'] not in allowed]
            # syscall with another number / getsid of another process
            chk.ob('Q2', '%s:no-confusable-query' % name, not other, other[0][1].where() if other else ds.where(), ds.name,
                   '%%{%s} also calls %s: it can report another identity than documented (indistinguishable when all '
                   'ids are 0)' % (name, render(other[0][1]) if other else ''),
                   how='of %s only %s is called' % (sorted(fam), sorted(allowed & fam)))
        # ---- Q3 ----------------------------------------------------------------------------
        sl = Slice(prog)
        emits = []
        for f in fs:
            for c in f.calls():
                if c.get('callee') in ('snprintf', 'sprintf', 'strftime', 'gethostname', 'strncpy', 'memcpy', 'getcwd'):
                    emits.append((f, c))
        result_pt = {f.key: PtrTaint(f, lambda n: False, {f.params[0]['id']} if f is ds else set()) for f in fs}
        nvals = 0
        for f, c in emits:
            if c['callee'] in fmt.PRINTF_FAMILY:
                for a, d, role in (fmt.variadic_bindings(c) or []):
                    if role == 'value':
                        cf = fmt.call_format(c)
                        # error texts ("(error: %d)", errno) are not the value
                        if cf and cf[0] and ('error' in cf[0].lower() or 'ERROR' in cf[0]):
                            continue
                        nvals += 1
                        sl.expr(f, a)
        slice_calls = {c.get('callee') for f, c in sl.calls}
        req = {api for api, _ in spec['calls']}
        direct_writers = {c['callee'] for f, c in emits if c['callee'] in ('strftime', 'gethostname', 'getcwd')}
        dep = req <= (slice_calls | direct_writers | {c['callee'] for f, c in calls if c['callee'] in ('time', 'localtime_r')})
        if spec.get('params'):
            dep = dep and any(k == ds.key and i in spec['params'] for k, i in sl.params)
        if spec.get('globals'):
            dep = dep and True
        if spec.get('value', True):
          chk.ob('Q3', '%s:value-depends-on-query' % name, dep, ds.where(), ds.name,
               'the value printed by %%{%s} does not derive from %s (its slice reaches: %s)' % (
                   name, sorted(req - slice_calls - direct_writers), sorted(x for x in slice_calls if x)),
               how='%d printed value(s); slice reaches %s' % (nvals, sorted(x for x in (slice_calls & req))))
        if fam:
            allowed = {api for api, _ in spec['calls']}
            bad = [(f, c) for f, c in sl.calls if c.get('callee') in fam and c.get('callee') not in allowed]
            chk.ob('Q3', '%s:value-free-of-confusable-query' % name, not bad, bad[0][1].where() if bad else ds.where(), ds.name,
                   'the printed value depends on %s' % (render(bad[0][1]) if bad else ''))
        if spec.get('members'):
            chk.ob('Q3', '%s:members' % name, spec['members'] <= sl.members, ds.where(), ds.name,
                   'the printed value must come from member(s) %s; the slice uses %s' % (
                       sorted(spec['members']), sorted(m for m in sl.members if m)),
                   how='uses %s' % sorted(spec['members']))
        if spec.get('forbid_members'):
            badm = spec['forbid_members'] & sl.members
            chk.ob('Q3', '%s:forbidden-members' % name, not badm, ds.where(), ds.name,
                   '%%{%s} prints %s' % (name, sorted(badm)))
        if spec.get('scale'):
            ok = any(strip(o.ch[1]).get('v') == spec['scale'] and o['op'] == '/' for o in sl.ops)
            chk.ob('Q3', '%s:scale' % name, ok, ds.where(), ds.name,
                   'microseconds must be divided by %d to give milliseconds' % spec['scale'])
        if spec.get('lookup'):
            api, idq = spec['lookup']
            good = False
            for f, c in calls:
                if c['callee'] == api:
                    s2 = Slice(prog)
                    s2.expr(f, arg(c, 0))
                    ids = {x.get('callee') for _, x in s2.calls} & ID_FAMILY
                    # through a helper: the id is the helper's parameter, bound at the helper's call site
                    if not ids and s2.params:
                        for (fk, pi) in s2.params:
                            for cs in cg.sites:
                                for t in cs.targets:
                                    if not isinstance(t, str) and t.key == fk and cs.caller.key in {x.key for x in fs}:
                                        s3 = Slice(prog)
                                        s3.expr(cs.caller, arg(cs.node, pi))
                                        ids |= {x.get('callee') for _, x in s3.calls} & ID_FAMILY
                    if ids == {idq}:
                        good = True
            chk.ob('Q3', '%s:lookup-key' % name, good, ds.where(), ds.name,
                   '%s must be asked about %s()' % (api, idq), how='%s(%s(), ...)' % (api, idq))
        # queries that FAIL when their buffer is too small (getcwd -> ERANGE, ttyname_r, getlogin_r, gethostname): the
        # buffer they are given is a local array of the system's limit, never the result buffer, whose size is the
        # configurable data-source limit (a long working directory must be cut, not lost)
        for f, c in calls:
            if c['callee'] == 'getcwd' and name == 'cwd':
                b0 = decl_of(arg(c, 0))
                cap = next((x.get('size') for x in f.local_decls() if b0 is not None and x['id'] == b0['id'] and 'arrayLen' in x), None)
                okb = cap is not None and cap >= 4096
                chk.ob('Q3', 'cwd:query-buffer-holds-any-path', okb, c.where(), f.name,
                       'getcwd() is given %s (%s bytes): a working directory longer than that makes the call fail with ERANGE '
                       'and the directory is reported as an error instead of being cut to the limit' % (
                           render(arg(c, 0)), cap if cap is not None else 'the result buffer, i.e. datasource_message_max_length + 1'),
                       how='local array of %s bytes (PATH_MAX + 1)' % cap)
            if c['callee'] == 'strftime' and name == 'datetime':
                # strftime(buf, max, ..) counts the terminator in max: given less than the buffer, an expansion that
                # fills the buffer exactly is refused (returns 0) although it fits
                b0 = decl_of(arg(c, 0))
                cap = next((x.get('size') for x in f.local_decls() if b0 is not None and x['id'] == b0['id'] and 'arrayLen' in x), None)
                from engine.dataflow import def_exprs as _dx
                mx = strip(arg(c, 1))
                mv = mx.get('v') if mx is not None else None
                if mv is None and mx is not None and decl_of(mx) is not None:
                    vals = {strip(x).get('v') for x in _dx(f, decl_of(mx)['id'])}
                    mv = vals.pop() if len(vals) == 1 else None
                if cap is not None:
                    chk.ob('Q3', 'datetime:strftime-is-given-the-whole-buffer', mv is not None and mv == cap, c.where(), f.name,
                           'strftime() is told its buffer has %s bytes, the buffer has %s: a time text of exactly %s characters, '
                           'which fits, is reported as an error' % (mv if mv is not None else render(mx)[:30], cap, cap - 1),
                           how='max = sizeof buffer = %s' % cap, nontrivial=False)
            if c['callee'] == 'gethostname' and name == 'hostname':
                # gethostname(buf, len) fails (ENAMETOOLONG) unless len > strlen(name): the length it is given has to
                # hold every name the kernel allows, 64 bytes and the terminator - the data source's own size
                # parameter (the configured limit + 1), or a constant of at least 65
                ln = strip(arg(c, 1))
                lv = ln.get('v') if ln is not None else None
                lp = decl_of(ln) if ln is not None else None
                okh = (lv is not None and lv >= 65) or (lv is None and lp is not None and lp.get('kind') == 'parm')
                chk.ob('Q3', 'hostname:query-length-holds-any-name', okh, c.where(), f.name,
                       'gethostname() is told its buffer has %s bytes: a host name of that many bytes or more (Linux allows 64) '
                       'makes the call fail, and the record carries an error text instead of the name' % (
                           lv if lv is not None else render(ln)[:40]),
                       how='length = %s' % (lv if lv is not None else render(ln)[:30]))
        # ---- Q4 ----------------------------------------------------------------------------
        if name in ('uid', 'euid', 'gid', 'egid', 'pid', 'ppid', 'sid', 'tty_uid', 'tid_kernel', 'timestamp', 'timestamp_us'):
            convs = []
            for f, c in emits:
                if c['callee'] in fmt.PRINTF_FAMILY:
                    cf = fmt.call_format(c)
                    if cf and cf[0] and 'error' in cf[0].lower():
                        continue
                    for a, d, role in (fmt.variadic_bindings(c) or []):
                        if role == 'value':
                            if d['conv'] == 's':
                                # a fixed text chosen from constants (an error message picked from a table) is not the id
                                s4 = Slice(prog)
                                s4.expr(f, a)
                                if not s4.calls and not s4.params and not (s4.members & set(spec.get('members') or ())):
                                    continue
                            convs.append((d['conv'], a, c))
            ok = bool(convs) and all(cv in ('u', 'd', 'i') for cv, a, c in convs)
            chk.ob('Q4', '%s:integer-conversion' % name, ok, convs[0][2].where() if convs else ds.where(), ds.name,
                   'numeric id printed with %s' % ', '.join('%%%s' % cv for cv, a, c in convs),
                   how=', '.join('%%%s' % cv for cv, a, c in convs))
    if 'rpname' in names:
        w1_rpname_walk(ctx, prog, cg)
    chk.count('datasources_checked', n_checked)
    if n_checked < 25:
        raise AnalysisBroken('only %d data sources matched the specification table' % n_checked)


def fmt_argspec(argspec):
    if not argspec:
        return '()'
    return '(' + ', '.join('#%d=%s' % (i, v) for i, v in sorted(argspec.items())) + ')'


PROG12 = [None]


def args_match(f, c, argspec, ds):
    for i, want in argspec.items():
        a = arg(c, i)
        if a is None:
            return False
        s = strip(a)
        if isinstance(want, int):
            if s.get('v') != want:
                return False
        elif isinstance(want, str):
            if s.k == 'ArraySubscriptExpr':
                # names[i] with names a local/file-scope array initialised with string literals: one of its rows
                b = decl_of(s.ch[0])
                rows = []
                if b is not None:
                    for d in f.local_decls():
                        if d['id'] == b['id'] and d.get('init', -1) != -1:
                            rows = [strip(x).get('s') for x in strip(f.nodes[d['init']]).walk() if strip(x) is not None and strip(x).k == 'StringLiteral']
                    if not rows and (b.get('fileScope') or b.get('staticStorage')):
                        g_ = PROG12[0].global_var(b['name']) if PROG12[0] is not None else None
                        if g_ is not None and g_.init is not None:
                            rows = [x.get('s') for x in g_.init.walk() if x.k == 'StringLiteral']
                if want not in rows:
                    return False
            elif not (s.k == 'StringLiteral' and s.get('s') == want):
                return False
        elif isinstance(want, tuple) and want[0] == 'param':
            d = decl_of(s)
            if not (f is ds and d is not None and d['kind'] == 'parm' and d['index'] == want[1]):
                return False
    return True


# ---- W1 ---------------------------------------------------------------------------------------------
def _eval(n, env):
    """value of an integer expression under env {decl id: int}; None when unknown"""
    n = strip(n)
    if n is None:
        return None
    if 'v' in n.d:
        return n['v']
    if n.k == 'DeclRefExpr':
        return env.get(n['ref'].get('id'))
    if n.k == 'UnaryOperator':
        v = _eval(n.ch[0], env)
        if v is None:
            return None
        return {'!': int(not v), '-': -v, '+': v, '~': ~v}.get(n['op'])
    if n.k == 'BinaryOperator':
        op = n['op']
        a, b = _eval(n.ch[0], env), _eval(n.ch[1], env)
        if op == '&&':
            if a == 0 or b == 0:
                return 0
            return None if a is None or b is None else 1
        if op == '||':
            if (a is not None and a != 0) or (b is not None and b != 0):
                return 1
            return None if a is None or b is None else 0
        if a is None or b is None:
            return None
        import operator as o
        f = {'==': o.eq, '!=': o.ne, '<': o.lt, '>': o.gt, '<=': o.le, '>=': o.ge, '+': o.add, '-': o.sub}.get(op)
        return int(f(a, b)) if f else None
    return None


def explore_with_value(func, start, var_id, value):
    """elements reachable from CFG position `start` when variable var_id holds `value`, pruning branches
    the value decides.  Exploration of a path stops where the variable is assigned again (that element
    is still reported)."""
    env = {var_id: value}
    seen_blocks = set()
    out = []
    work = [start]
    while work:
        b, i = work.pop()
        if (b, i) in seen_blocks:
            continue
        seen_blocks.add((b, i))
        blk = func.blocks[b]
        stopped = False
        for e in blk.elems[i:]:
            out.append(e)
            if e.k in ('BinaryOperator', 'CompoundAssignOperator') and (e.get('op') == '=' or e.k == 'CompoundAssignOperator') and \
                    (decl_of(e.ch[0]) or {}).get('id') == var_id and strip(e.ch[0]).k == 'DeclRefExpr':
                stopped = True
                break
            if e.k == 'ReturnStmt':
                break
        if stopped:
            continue
        succs = [(k, s) for k, (s, u) in enumerate(blk.all_succs) if s is not None and not u]
        if blk.cond is not None and len(blk.all_succs) == 2:
            v = _eval(blk.cond, env)
            if v is not None:
                succs = [(k, s) for k, s in succs if k == (0 if v else 1)]
        for k, s in succs:
            work.append((s, 0))
    return out


def w1_rpname_walk(ctx, prog, cg):
    chk = ctx.chk
    ds = prog.require_func('snoopy_datasource_rpname')
    fs = own_reach(cg, ds)
    # the parent lookup: the helper reading the "PPid" key; the walker: the function testing its result
    def lit_args(c):
        return [strip(a).get('s') for a in c.ch[1:] if a is not None and strip(a).k == 'StringLiteral']
    P = None
    for g in fs:
        if any('PPid' in (l or '') for c in g.calls() for l in lit_args(c)):
            P = g
    if P is None:
        raise AnalysisBroken('no helper reading the "PPid" key of /proc/<pid>/status reachable from rpname')
    W = None
    for g in fs:
        if g is not P and g.calls(P.name):
            W = g
            break
    if W is None:
        raise AnalysisBroken('%s is never called' % P.name)
    sites = [c for c in W.calls(P.name) if common.holder(W, c) is not None]
    if not sites:
        raise AnalysisBroken('the result of %s is not kept in a variable in %s' % (P.name, W.name))
    for si, pc in enumerate(sorted(sites, key=lambda c: (c.line, c.get('col', 0)))):
        _w1_site(ctx, prog, W, P, pc, si, lit_args)


def _w1_site(ctx, prog, W, P, pc, site_index, lit_args):
    chk = ctx.chk
    hv = common.holder(W, pc)
    pos = C.position_of(W, pc) if hasattr(C, 'position_of') else None
    if pos is None:
        for b, blk in W.blocks.items():
            for i, e in enumerate(blk.elems):
                if e is pc or any(x is pc for x in e.walk()):
                    pos = (b, i)
    # start right after the assignment that stores the result
    b0, i0 = pos
    blk = W.blocks[b0]
    j = i0
    for k in range(i0, len(blk.elems)):
        e = blk.elems[k]
        if any(x is pc for x in e.walk()):
            j = k
    start = (b0, j + 1)
    root = common.macro_value(ctx.repo, 'PID_ROOT', 'src/datasource/rpname.c')
    unknown = common.macro_value(ctx.repo, 'PID_UNKNOWN', 'src/datasource/rpname.c')
    # variables that take the parent pid's value (pid = parentPid in a loop form)
    carriers = {hv}
    for n in W.body.walk():
        if n.k == 'BinaryOperator' and n['op'] == '=' and (decl_of(n.ch[1]) or {}).get('id') == hv and strip(n.ch[1]).k == 'DeclRefExpr':
            d = decl_of(n.ch[0])
            if d is not None:
                carriers.add(d['id'])

    def classify(value):
        els = explore_with_value(W, start, hv, value)
        name_read, up, unk = [], [], []
        assigned = set()     # carriers assigned from the parent pid on this exploration
        for e in els:
            if e.k == 'BinaryOperator' and e['op'] == '=' and (decl_of(e.ch[1]) or {}).get('id') == hv:
                d = decl_of(e.ch[0])
                if d is not None:
                    assigned.add(d['id'])
            if e.k != 'CallExpr':
                continue
            a0 = decl_of(arg(e, 0)) if len(e.ch) > 1 else None
            if any((l or '') == 'Name' for l in lit_args(e)):
                if a0 is not None and a0['id'] not in assigned and a0['id'] != hv:
                    name_read.append(e)
                else:
                    up.append(e)   # reads the name of the parent, not of the current process
            elif e.get('callee') in (P.name, W.name):    # (reaching the same lookup again round a loop counts as well)
                if a0 is not None and (a0['id'] == hv or a0['id'] in assigned):
                    up.append(e)
            elif e.get('callee') in fmt.PRINTF_FAMILY and any('unknown' in (l or '') for l in lit_args(e)):
                unk.append(e)
        return name_read, up, unk, els

    cases = [('init', root, 'name'), ('zero', 0, 'name'), ('lookup-failed', unknown, 'unknown'), ('other', 4242, 'up')]
    for label, value, want in cases:
        if value is None:
            raise AnalysisBroken('PID_ROOT / PID_UNKNOWN are no longer integer macros of rpname.c')
        nr, up, unk, els = classify(value)
        if want == 'name':
            ok = bool(nr) and not up
            detail = ('with parent pid %d (%s) the walk %s instead of reporting the name of the current process: a process '
                      'at the top of its tree gets a wrong or "(unknown)" root process name' % (
                          value, label, 'goes one level further up' if up else 'does not read the process name'))
        elif want == 'unknown':
            ok = not nr and not up and bool(unk)
            detail = 'when the parent lookup fails the walk must stop with "(unknown)", not %s' % (
                'continue upward' if up else 'report a name' if nr else 'return nothing')
        else:
            ok = bool(up) and not any(True for e in nr if els.index(e) < els.index(up[0]))
            detail = 'with an ordinary parent (pid %d) the walk must continue at that parent' % value
        at = (up or nr or unk or [pc])[0]
        chk.ob('W1', 'rpname-walk[parent=%s%s]' % (label, '' if site_index == 0 else '@lookup%d' % (site_index + 1)), ok, at.where(), W.name, detail,
               how='parent pid %d: %s' % (value, {'name': 'reads "Name" of the current pid', 'unknown': 'emits (unknown)',
                                                   'up': 'calls %s / %s with the parent pid' % (P.name, W.name)}[want]))
