"""C17 — file records are appended whole: per record exactly one write on a
descriptor opened for appending."""
from engine import cfg as C
from engine import facts
from engine.callgraph import func_refs
from engine.dataflow import decl_of, PtrTaint
from engine.facts import AnalysisBroken, render, strip
from engine.polarity import result_tests
from rules import common
from engine.linear import Lin
from rules.xeval import XEval, MSGLEN

LEVEL = 'other'
O_WRONLY, O_RDWR, O_CREAT, O_EXCL, O_TRUNC, O_APPEND = 0o1, 0o2, 0o100, 0o200, 0o1000, 0o2000
STDIO_EMIT = {'fprintf': 0, 'fputs': 1, 'fwrite': 3, 'fputc': 1, 'putc': 1, 'vfprintf': 0}
FD_EMIT = {'write': 0, 'dprintf': 0, 'pwrite': 0, 'writev': 0, 'send': 0}
OUTPUT_TABLE = 'snoopy_outputregistry_ptrs'


def arg(call, i):
    a = call.ch[1:]
    return a[i] if i < len(a) else None


def holder(func, call):
    p = call.parent
    while p is not None and p.k in ('ImplicitCastExpr', 'ParenExpr', 'CStyleCastExpr'):
        p = p.parent
    if p is not None and p.k == 'BinaryOperator' and p['op'] == '=':
        r = decl_of(p.ch[0])
        return r['id'] if r is not None else None
    if p is not None and p.k == 'DeclStmt':
        for d in p['decls']:
            if d.get('init', -1) != -1 and strip(func.nodes[d['init']]) is call:
                return d['id']
    return None


def output_functions(prog):
    g = prog.global_var(OUTPUT_TABLE)
    if g is None or g.init is None:
        raise AnalysisBroken('%s not found' % OUTPUT_TABLE)
    out = []
    for n in func_refs(g.init):
        f = prog.func(n)
        if f is None:
            raise AnalysisBroken('output %s has no definition in libsnoopy' % n)
        out.append(f)
    return out


def run(ctx):
    chk = ctx.chk
    chk.rule('W1', 'the destination is opened with append semantics and without truncation', floor=1)
    chk.rule('W2', 'between open and close there is exactly one write-class effect per record on every path, not in a '
                   'loop, covering the whole record (its length depends on the message length); a stdio emission '
                   'counts as one write only on a stream whose buffer is provably record-sized', floor=2)
    chk.rule('W3', 'every file-type output funnels into the same single writer', floor=3)
    chk.explanation = (
        'Decides exactly what the property\'s quantifier names as the deciding fact: the system calls used per record. '
        'The kernel appends one write() on an O_APPEND descriptor indivisibly; two writes (or a libc-split stdio '
        'emission for records larger than the stream buffer) leave a gap for another writer. All paths of the writer '
        'are counted, for every record size.')
    chk.assumptions = ['one write(2) of a regular-file O_APPEND descriptor is appended indivisibly by the kernel '
                       '(as the property states)']
    chk.not_decided = ['actual concurrent runs; short writes forced by ENOSPC/signals (the record is then truncated, '
                       'never interleaved)']
    prog = ctx.program(facts.AS_CONFIGURED, 'lib')
    cg = ctx.callgraph(facts.AS_CONFIGURED, 'lib')
    outs = output_functions(prog)
    writers = {}
    filetype = []
    for o in outs:
        reach = cg.reachable([o])
        opens = []
        for key, (f, _, _) in reach.items():
            # the path template expansion (message generation) is not part of the output's I/O
            if f.name.startswith('snoopy_message_') or f.name.startswith('snoopy_datasource'):
                continue
            for c in f.calls():
                if c.get('callee') in ('fopen', 'open', 'openat', 'creat', 'freopen'):
                    opens.append((f, c))
        # only opens made by the output's own code path (not by data sources expanded in the path template)
        own = [(f, c) for f, c in opens if own_code(cg, o, f)]
        if own:
            filetype.append(o)
            for f, c in own:
                writers.setdefault(f.key, (f, []))[1].append(c)
    chk.count('outputs_in_registry', len(outs))
    chk.count('file_type_outputs', len(filetype))
    if not filetype:
        raise AnalysisBroken('no file-type output found in the registry')
    for o in filetype:
        reach = cg.reachable([o])
        w = [k for k in writers if k in reach and own_code(cg, o, writers[k][0])]
        chk.ob('W3', 'funnel[%s]' % o.name, len(w) == 1, o.where(), o.name,
               '%s reaches %d file-opening functions (%s)' % (o.name, len(w), ', '.join(str(x) for x in w)),
               how='delegates to %s' % (writers[w[0]][0].name if w else '?'))
        # no emission outside the writer on this output's path
        stray = []
        for key, (f, _, _) in reach.items():
            if key in writers or f.name.startswith('snoopy_message_') or f.name.startswith('snoopy_datasource') \
                    or not own_code(cg, o, f):
                continue
            for c in f.calls():
                if c.get('callee') in STDIO_EMIT or c.get('callee') in FD_EMIT:
                    stray.append((f, c))
        chk.ob('W3', 'no-stray-emission[%s]' % o.name, not stray,
               stray[0][1].where() if stray else o.where(), o.name,
               'additional emission outside the single writer: %s' % (render(stray[0][1]) if stray else ''))
    # the outputs the property names (file, and its delegates devtty / devnull) share ONE writer; an output the
    # property does not name (a later addition) may bring its own, which is then held to W1/W2 like the other
    named = [o for o in filetype if o.name in PROPERTY_FILE_OUTPUTS]
    named_writers = {k for o in named for k in writers if k in cg.reachable([o]) and own_code(cg, o, writers[k][0])}
    chk.ob('W3', 'single-writer', len(named_writers) == 1, '', ', '.join(writers[k][0].name for k in sorted(named_writers, key=str)),
           '%d functions open log files for the file/devtty/devnull outputs' % len(named_writers),
           how='%d writer(s) in all: %s' % (len(writers), ', '.join(f.name for f, _ in writers.values())))
    for key, (W, opens) in writers.items():
        if W not in outs:
            XROOTS[W.key] = [XEval(prog, o) for o in outs if W in common.with_helpers(prog, o)]
        check_writer(ctx, W, opens, named=(key in named_writers))


PROPERTY_FILE_OUTPUTS = {'snoopy_output_fileoutput', 'snoopy_output_devttyoutput', 'snoopy_output_devnulloutput'}


def own_code(cg, out_func, f):
    """f belongs to the output's own I/O path: reachable from the output function
    without going through the message/data-source machinery."""
    seen = {out_func.key}
    todo = [out_func]
    while todo:
        g = todo.pop()
        if g.key == f.key:
            return True
        for cs in cg.callees(g):
            for t in cs.targets:
                if isinstance(t, str) or t.key in seen:
                    continue
                if t.name.startswith('snoopy_message_') or t.name.startswith('snoopy_datasource'):
                    continue
                seen.add(t.key)
                todo.append(t)
    return False


XROOTS = {}


def _flag_range(W, fl):
    """(bits set on every path, bits set on some path) of a local flags variable that is given constants and has
    constants or-ed in; None when it is modified in any other way"""
    from engine.dataflow import def_exprs
    d = decl_of(fl)
    if d is None or d.get('kind') != 'var' or d.get('staticStorage'):
        return None
    bases = []
    for x in def_exprs(W, d['id']):
        sx = strip(x)
        if sx is None or sx.get('v') is None:
            # flags = flags | CONST
            if sx is not None and sx.k == 'BinaryOperator' and sx.get('op') == '|':
                a_, b_ = strip(sx.ch[0]), strip(sx.ch[1])
                if (decl_of(a_) or {}).get('id') == d['id'] and b_.get('v') is not None:
                    bases.append(('or', b_['v']))
                    continue
                if (decl_of(b_) or {}).get('id') == d['id'] and a_.get('v') is not None:
                    bases.append(('or', a_['v']))
                    continue
            return None
        bases.append(('set', sx['v']))
    for n in W.body.walk():
        if n.k == 'CompoundAssignOperator' and (decl_of(n.ch[0]) or {}).get('id') == d['id'] and strip(n.ch[0]).k == 'DeclRefExpr':
            if n.get('op') == '|=' and strip(n.ch[1]).get('v') is not None:
                bases.append(('or', strip(n.ch[1])['v']))
            else:
                return None
        if n.k == 'UnaryOperator' and n.get('op') in ('&', '++', '--') and (decl_of(n.ch[0]) or {}).get('id') == d['id'] and \
                strip(n.ch[0]).k == 'DeclRefExpr':
            return None
    sets = [v for k_, v in bases if k_ == 'set']
    ors = [v for k_, v in bases if k_ == 'or']
    if not sets:
        return None
    vmin = sets[0]
    vmax = 0
    for v in sets:
        vmin &= v
        vmax |= v
    for v in ors:
        vmax |= v
    return vmin, vmax


def check_writer(ctx, W, opens, named=True):
    chk = ctx.chk
    msg_ids = {p['id'] for p in W.params[:1]}  # first parameter is the log message
    xs = XROOTS.get(W.key, [])
    if xs:
        # W is a file-local helper of an output: its parameters are what the output hands in
        msg_ids = set()
    for o in opens:
        n = o.get('callee')
        fds, streams = set(), set()
        h = holder(W, o)
        if n in ('fopen', 'freopen'):
            mode = strip(arg(o, 1))
            m = mode.get('s') if mode is not None and mode.k == 'StringLiteral' else None
            ok = m is not None and m.startswith('a')
            chk.ob('W1', 'append-mode[%s]' % W.name, ok, o.where(), W.name,
                   '%s: mode %s does not append (w truncates existing content, r+ overwrites it)' % (
                       render(o), render(mode) if mode is not None else '?'),
                   how='fopen mode "%s" => O_APPEND, no truncation' % m)
            if h is not None:
                streams.add(h)
        else:
            fl = strip(arg(o, 1 if n == 'open' else 2)) if n != 'creat' else None
            v = fl.get('v') if fl is not None else None
            O_EXCL, O_NONBLOCK = 0o200, 0o4000
            vmin = vmax = v
            if v is None and fl is not None:
                # a flags variable: a constant, with further constants or-ed in on some paths (O_NOFOLLOW when asked for).
                # What must be set has to be in the start value, what must not be set in none of the pieces.
                rng = _flag_range(W, fl)
                if rng is not None:
                    vmin, vmax = rng
            ok = vmin is not None and bool(vmin & O_APPEND) and not (vmax & O_TRUNC) and bool(vmin & (O_WRONLY | O_RDWR)) and \
                (not named or (not (vmax & O_EXCL) and not (vmax & O_NONBLOCK)))
            chk.ob('W1', 'append-mode[%s]' % W.name, ok, o.where(), W.name,
                   '%s: flags %s lack O_APPEND or include O_TRUNC (concurrent writers overwrite each other / existing '
                   'content is lost), O_EXCL (the open fails when the file exists: of two first writers one loses its '
                   'record) or O_NONBLOCK (a slow reader of a FIFO/tty destination turns the write into EAGAIN or a short '
                   'write and the record is lost)' % (render(o), render(fl) if fl is not None else n),
                   how='flags = %s (O_APPEND set, O_TRUNC clear)' % (oct(v) if v is not None else '?'))
            if h is not None:
                fds.add(h)
        for c in W.calls('fdopen'):
            d = decl_of(arg(c, 0))
            if d is not None and d['id'] in fds:
                hh = holder(W, c)
                if hh is not None:
                    streams.add(hh)

        def on(e, ids):
            d = decl_of(e) if e is not None else None
            return d is not None and d['id'] in ids

        emits = []
        for c in W.calls():
            cn = c.get('callee')
            if cn in STDIO_EMIT and on(arg(c, STDIO_EMIT[cn]), streams):
                emits.append(('stdio', c))
            elif cn in FD_EMIT and on(arg(c, FD_EMIT[cn]), fds):
                emits.append(('fd', c))
        ids = {c.id for _, c in emits}
        # count on paths from the open's success edge to exit
        starts = []
        for b, fail_idx in result_tests(W, o):
            if fail_idx is not None and b.all_succs[1 - fail_idx][0] is not None:
                starts.append(b.all_succs[1 - fail_idx][0])
        if not starts:
            chk.ob('W2', 'open-result-tested[%s]' % W.name, False, o.where(), W.name,
                   'the result of %s is not tested before use' % render(o))
            continue
        mn, mx = count_from(W, starts, lambda e: e.id in ids)
        if mn == 0 and mx == 1:
            # ways from the successful open to a return that write nothing are acceptable when they report failure
            # (the record is then lost as a whole, never split): a validation of the opened object, a failed malloc
            FAIL = common.macro_value(ctx.repo, 'SNOOPY_OUTPUT_FAILURE')
            okz = True
            for sb in starts:
                visited, _ = C.reach(W, (sb, 0), lambda e: e.id in ids)
                for r in C.return_nodes(W):
                    if r.id in visited and not (r.ch and strip(r.ch[0]).get('v') == FAIL):
                        okz = False
            if okz:
                mn = 1
        chk.ob('W2', 'one-write-per-record[%s]' % W.name, mn == 1 and mx == 1,
               emits[0][1].where() if emits else o.where(), W.name,
               'between open and close a record causes between %s and %s write-class calls (%s): anything but exactly '
               'one lets another writer land in between or loses the record' % (
                   mn, mx, '; '.join(render(c) for _, c in emits)),
               how='min/max count over all CFG paths from the successful open = 1/1')
        for kind, c in emits:
            if kind == 'stdio':
                sized = stream_buffer_sized(W, c, streams, msg_ids)
                chk.ob('W2', 'stdio-emission-is-one-write[%s]' % W.name, sized, c.where(), W.name,
                       '%s goes through a default-sized stdio buffer: libc splits a record larger than the buffer '
                       '(e.g. 10011 bytes -> write(8192) + write(1819)), and another process can append in between' % render(c))
            else:
                ln = arg(c, 2)
                dep = ln is not None and (depends_on_strlen(W, ln, msg_ids) or any(
                    MSGLEN in (X.lin(W, ln) or Lin.const(0)).t for X in xs))
                chk.ob('W2', 'write-covers-record[%s]' % W.name, dep, c.where(), W.name,
                       'the length argument %s of %s does not derive from the message length: the record is not '
                       'written as a whole' % (render(ln) if ln is not None else '?', render(c)),
                       how='length %s derives from strlen(message)' % (render(ln) if ln is not None else '?'))
                # the written buffer must contain the message and the newline: it is a buffer the
                # function assembled (not the message pointer itself, which lacks the newline)
                buf = arg(c, 1)
                pt = PtrTaint(W, lambda n: False, msg_ids)
                chk.ob('W2', 'write-buffer-assembled[%s]' % W.name, buf is not None and not pt.is_derived(buf) and
                       not any(X.is_msg(W, buf) for X in xs),
                       c.where(), W.name,
                       '%s writes the message pointer itself: the newline needs a second write' % render(c),
                       how='%s is a buffer assembled by the writer (message + newline)' % render(buf))


def count_from(func, start_blocks, pred):
    """min/max count of pred elements from the given blocks to exit."""
    # build a view: temporarily compute on subgraph reachable from starts with virtual entry
    w = {b: sum(1 for e in blk.elems if pred(e)) for b, blk in func.blocks.items()}
    INF = C.INF
    # min
    mn = {b: INF for b in func.blocks}
    for s in start_blocks:
        mn[s] = min(mn[s], w[s])
    changed = True
    while changed:
        changed = False
        for b in func.blocks:
            if mn[b] == INF:
                continue
            for s in func.blocks[b].succs:
                v = mn[b] + w[s]
                if v < mn[s]:
                    mn[s] = v
                    changed = True
    # max via DFS with cycle detection on blocks carrying weight
    live = set()
    todo = list(start_blocks)
    while todo:
        b = todo.pop()
        if b in live:
            continue
        live.add(b)
        todo += func.blocks[b].succs
    sccs = C._sccs(func, live)
    comp = {}
    for i, c in enumerate(sccs):
        for b in c:
            comp[b] = i
    cw = []
    for i, c in enumerate(sccs):
        s = sum(w[b] for b in c)
        cyc = len(c) > 1 or any(b in func.blocks[b].succs for b in c)
        cw.append(INF if (cyc and s > 0) else s)
    mx = [None] * len(sccs)
    for i, c in enumerate(sccs):
        best = None
        for b in c:
            for s in func.blocks[b].succs:
                j = comp.get(s)
                if j is not None and j != i and mx[j] is not None:
                    best = mx[j] if best is None else max(best, mx[j])
        if func.exit in c:
            best = 0 if best is None else max(best, 0)
        mx[i] = None if best is None else cw[i] + best
    m = None
    for s in start_blocks:
        v = mx[comp[s]]
        if v is not None:
            m = v if m is None else max(m, v)
    return mn.get(func.exit, INF), (m if m is not None else 0)


def depends_on_strlen(func, expr, msg_ids, depth=0):
    """expr (an integer expression) derives from strlen(<message parameter>)."""
    if depth > 6:
        return False
    for n in expr.walk():
        if n.k == 'CallExpr' and n.get('callee') in ('strlen', '__builtin_strlen'):
            d = decl_of(arg(n, 0))
            if d is not None and d['id'] in msg_ids:
                return True
        if n.k == 'DeclRefExpr' and n['ref']['kind'] == 'var':
            from engine.dataflow import def_exprs
            for d in def_exprs(func, n['ref']['id']):
                if d is not expr and depends_on_strlen(func, d, msg_ids, depth + 1):
                    return True
    return False


def stream_buffer_sized(func, emit, streams, msg_ids):
    """a setvbuf(stream, buf, _IOFBF, size) with caller buffer and size derived from the message
    length dominates the emission."""
    for c in func.calls('setvbuf'):
        d = decl_of(arg(c, 0))
        if d is None or d['id'] not in streams:
            continue
        buf, mode, size = arg(c, 1), strip(arg(c, 2)), arg(c, 3)
        if buf is None or strip(buf).get('null') or mode.get('v') != 0:
            continue
        if depends_on_strlen(func, size, msg_ids) and \
                C.always_preceded(func, emit, lambda e: e.id == c.id):
            return True
    return False
