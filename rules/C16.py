"""C16 — the wrapper leaves no residue in the calling process."""
from engine import cfg as C
from engine import facts
from engine.dataflow import Summaries, decl_of
from engine.facts import AnalysisBroken, render, strip
from engine.nullness import ent_name
from engine.pairing import Pairing
from rules import common, ownfields
from rules.common import arg

LEVEL = 'other'

SOCK_CLOEXEC = 0o2000000
STATE_MUTATORS = {'setenv', 'putenv', 'unsetenv', 'clearenv', 'chdir', 'fchdir', 'chroot', 'umask', 'sigprocmask',
                  'pthread_sigmask', 'signal', 'sigaction', 'sigaltstack', 'sigset', 'sighold', 'sigrelse', 'sigignore',
                  'setuid', 'seteuid', 'setreuid', 'setresuid', 'setgid', 'setegid', 'setregid', 'setresgid',
                  'setgroups', 'setsid', 'setpgid', 'setpgrp', 'dup2', 'dup3', 'openlog', 'closelog', 'setlogmask',
                  'setrlimit', 'prlimit', 'nice', 'setpriority', 'prctl', 'alarm', 'setitimer', 'timer_create',
                  'atexit', 'on_exit', 'setlocale', 'tzset', 'srand', 'srandom', 'setvbuf', 'setbuf', 'freopen',
                  'fcloseall', 'daemon', 'ioctl', 'tcsetattr', 'fcntl', 'mlockall', 'pthread_create',
                  'pthread_key_create', 'pthread_setspecific'}


def run(ctx):
    chk = ctx.chk
    chk.rule('O1', 'every acquisition (heap, FILE*, descriptor, getline buffer, lock) is released on every path of the '
                   'acquiring function or handed over by a recognised ownership transfer; callers of owning functions '
                   'discharge the obligation', floor=40)
    chk.rule('O2', 'an owning configuration field is never overwritten while it may still hold a heap value; the '
                   'companion flag matches the stored value; free() only under the flag', floor=15)
    chk.rule('O3', 'cleanup mirrors init on every path of the interposers and frees exactly what the per-thread record '
                   'allocated', floor=4)
    chk.rule('O4', 'descriptors that can outlive the creating function carry close-on-exec', floor=1)
    chk.rule('O6', 'the strings of the environment (getenv results, environ) are only read, also inside callees that take them '
                   'as const', floor=1)
    chk.rule('O5', 'nothing reachable from the interposers changes environment, working directory, umask, signal '
                   'state, ids, descriptors of the host or registers process-lifetime callbacks', floor=1)
    chk.explanation = (
        'Pairing/typestate on all CFG paths of every function of the library (error paths included), ownership '
        'summaries across calls (returns-owned, allocates-into-out-parameter, captures, releases), an interprocedural '
        'typestate for the pointer/"_malloced" pairs of the configuration record, and a deny-list over the resolved '
        'call graph. Both the thread-safe and the non-thread-safe build are analysed.')
    chk.assumptions = ['memory retained inside libc (stdio, NSS) is not the library\'s residue',
                       'a record that was never initialised owns nothing']
    chk.not_decided = ['measured growth over N calls', 'heap retained by libc']
    for variant in (facts.AS_CONFIGURED, facts.TS_OFF):
        chk.variant = variant.name
        prog = ctx.program(variant, 'lib')
        cg = ctx.callgraph(variant, 'lib')
        summ = Summaries(cg)
        roots = common.entry_points(prog)
        reach = common.checked_reach(cg, prog) if roots else {}
        cg.require_resolved(within=set(reach))
        # functions registered as fork "prepare" handlers return with the lock held by design (C10)
        prepare_handlers = set()
        for f in prog.functions:
            for c in f.calls('pthread_atfork'):
                a = strip(arg(c, 0))
                if a is not None and a.k == 'UnaryOperator':
                    a = strip(a.ch[0])
                if a is not None and a.k == 'DeclRefExpr':
                    prepare_handlers.add(a['ref']['name'])
        # ---- O1 -----------------------------------------------------------------------
        pa = Pairing(prog, cg)
        per_acq = {}
        for key, (f, _, _) in sorted(reach.items(), key=lambda kv: str(kv[0])):
            info = pa.analyse(f)
            bad = {}
            for fd in info['findings']:
                if fd.kind == 'lock-not-released' and f.name in prepare_handlers:
                    continue
                bad.setdefault(fd.acq.id if fd.acq is not None else 0, []).append(fd)
            # one obligation per acquisition site
            seen = {}
            for n in f.body.walk():
                if n.k != 'CallExpr':
                    continue
                cal = n.get('callee')
                from engine.pairing import ACQ_RESULT, ACQ_OUTARG, LOCK
                t = prog.func(cal, f.tu) if cal else None
                owning = cal in ACQ_RESULT or cal in ACQ_OUTARG or cal in LOCK or \
                    (t is not None and t is not f and (pa.returns_owned(t) or
                                                       any(pa.out_owned(t, i) for i in range(len(t.params)))))
                if not owning:
                    continue
                i = seen.get(cal, 0)
                seen[cal] = i + 1
                k = 'release[%s:%s#%d]' % (f.name, cal, i)
                fds = bad.pop(n.id, [])
                if f.name in prepare_handlers and cal in LOCK:
                    chk.ob('O1', k, True, n.where(), f.name,
                           how='fork prepare handler: released by the parent/child handlers (C10)', nontrivial=False)
                    continue
                if fds:
                    fd = fds[0]
                    chk.ob('O1', k, False, n.where(), f.name,
                           '%s [%s, variable %s]' % (fd.detail, fd.kind, ent_name(f, fd.ent) if fd.ent else '?'))
                else:
                    chk.ob('O1', k, True, n.where(), f.name,
                           how='released, returned, stored into an owner or handed to a capturing callee on every path')
            for rest in bad.values():
                for fd in rest:
                    chk.ob('O1', 'pairing[%s]' % fd.key(), False, fd.node.where() if fd.node else f.where(), f.name, fd.detail)
        chk.count('acquisition_sites[%s]' % variant.name, pa.acquisitions)
        # ---- O2 -----------------------------------------------------------------------
        tv = common.macro_value(ctx.repo, 'SNOOPY_TRUE')
        res = ownfields.analyse(prog, cg, tv)
        fields = ownfields.owning_fields(prog)
        if not fields:
            raise AnalysisBroken('no owning configuration fields found')
        vio_by = {}
        for rule, f, n, fld, d in res.violations:
            vio_by.setdefault((f.name, fld, rule), []).append((n, d))
        # one obligation per (function, field) that stores or frees the field
        for f in prog.functions:
            touched = {}
            for n in f.body.walk():
                if n.k == 'BinaryOperator' and n['op'] == '=':
                    fld = ownfields.field_of(n.ch[0], fields)
                    if fld in fields:
                        touched.setdefault(fld, n)
                if n.k == 'CallExpr' and n.get('callee') == 'free' and len(n.ch) > 1:
                    fld = ownfields.field_of(n.ch[1], fields)
                    if fld in fields:
                        touched.setdefault(fld, n)
            for fld, n in touched.items():
                for rule in ('OW1', 'OW2', 'OW3'):
                    v = vio_by.get((f.name, fld, rule))
                    if v:
                        chk.ob('O2', '%s[%s:%s]' % (rule, f.name, fld), False, v[0][0].where(), f.name, v[0][1])
                    else:
                        chk.ob('O2', '%s[%s:%s]' % (rule, f.name, fld), True, n.where(), f.name,
                               how={'OW1': 'old value released (or provably not owned) before every store',
                                    'OW2': 'flag agrees with the stored value on every path',
                                    'OW3': 'free() only under flag == TRUE'}[rule])
        chk.count('owning_field_stores[%s]' % variant.name, res.stores)
        # ---- O3 -----------------------------------------------------------------------
        for r in roots:
            for a, b in (({'snoopy_init'}, {'snoopy_cleanup'}),):
                mn, mx = summ.count_range(r, b)
                chk.ob('O3', 'cleanup-once[%s]' % r.name, mn == 1 and mx == 1, r.where(), r.name,
                       'snoopy_cleanup runs between %s and %s times per call' % (mn, mx))
        I, CL = prog.require_func('snoopy_init'), prog.require_func('snoopy_cleanup')
        pairs = [('snoopy_configuration_ctor', 'snoopy_configuration_dtor'),
                 ('snoopy_inputdatastorage_ctor', 'snoopy_inputdatastorage_dtor')]
        if 'SNOOPY_CONF_THREAD_SAFETY_ENABLED' in prog.macros:
            pairs.append(('snoopy_tsrm_ctor', 'snoopy_tsrm_dtor'))
        for c, d in pairs:
            okc = summ.must_call(I, {c})
            okd = summ.must_call(CL, {d})
            chk.ob('O3', 'mirror[%s/%s]' % (c, d), okc and okd, CL.where(), CL.name,
                   'init calls %s on every path: %s; cleanup calls %s on every path: %s' % (c, okc, d, okd))
        if 'SNOOPY_CONF_THREAD_SAFETY_ENABLED' in prog.macros:
            N = common.thread_data_maker(prog)
            D = prog.require_func('snoopy_tsrm_dtor')
            allocated = set()
            for n in [x for g in common.with_helpers(prog, N) for x in g.body.walk()]:
                if n.k == 'BinaryOperator' and n['op'] == '=':
                    r = strip(n.ch[1])
                    if r.k == 'CallExpr' and r.get('callee') in ('malloc', 'calloc'):
                        l = strip(n.ch[0])
                        allocated.add(l['member'] if l.k == 'MemberExpr' else '<record>')
            freed = set()
            for c in D.calls('free'):
                a = strip(arg(c, 0))
                freed.add(a['member'] if a.k == 'MemberExpr' else '<record>')
            chk.ob('O3', 'thread-record-freed', allocated == freed and C.must_pass_through(
                D, lambda e: e.k == 'CallExpr' and e.get('callee') == 'snoopy_util_list_remove') or
                   allocated == freed and _dtor_guard_only(D),
                   D.where(), D.name,
                   'createNewThreadData allocates %s, dtor frees %s' % (sorted(allocated), sorted(freed)),
                   how='allocated %s == freed %s; node removed from the repository' % (sorted(allocated), sorted(freed)))
            R = prog.require_func('snoopy_util_list_remove')
            fr = [c for c in R.calls('free')]
            chk.ob('O3', 'list-node-freed', bool(fr), R.where(), R.name, 'list_remove does not free the node')
        # ---- O4 -----------------------------------------------------------------------
        for key, (f, _, _) in reach.items():
            for c in f.calls('socket'):
                ty = strip(arg(c, 1)).get('v')
                chk.ob('O4', 'cloexec[%s:socket]' % f.name, ty is not None and bool(ty & SOCK_CLOEXEC), c.where(), f.name,
                       '%s lacks SOCK_CLOEXEC: if another thread execs between socket() and close() the descriptor '
                       'leaks into the new program' % render(c))
        # ---- O5 -----------------------------------------------------------------------
        bad = [(e, cs) for e, cs in cg.external_calls(reach) if e in STATE_MUTATORS]
        allowed = []
        real_bad = []
        for e, cs in bad:
            # pthread_atfork / pthread_once style registrations are not in the list; fcntl/ioctl on own
            # descriptors would need an exception row
            real_bad.append((e, cs))
        for e, cs in real_bad:
            chk.ob('O5', 'mutator[%s@%s]' % (e, cs.caller.name), False, cs.node.where(), cs.caller.name,
                   '%s() changes process state visible to the host program: %s' % (
                       e, cg.describe_path(reach, cs.caller.key)))
        chk.ob('O5', 'deny-list-clear', not real_bad, '', '', '%d state-changing call(s) reachable' % len(real_bad),
               how='%d external call sites in %d reachable functions' % (len(cg.external_calls(reach)), len(reach)))
    chk.variant = 'as-configured'
    # ---- O6: the environment strings themselves -------------------------------------------------------
    from rules.C01 import environment_strings_untouched
    environment_strings_untouched(ctx, ctx.program(facts.AS_CONFIGURED, 'lib'), ctx.callgraph(facts.AS_CONFIGURED, 'lib'), 'O6')


def _dtor_guard_only(D):
    """the only early return of the destructor is the `entry not found` guard"""
    rets = C.return_nodes(D)
    return len(rets) <= 2
