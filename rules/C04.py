"""C04 — exactly one faithful record per logged exec, none when filtered."""
from engine import cfg as C
from engine import facts, fmt
from engine.dataflow import Summaries, PtrTaint, decl_of, def_exprs
from engine.facts import AnalysisBroken, render, strip
from engine.linear import Lin, LinEnv, strkey
from engine.polarity import result_tests
from rules import common
from rules.common import arg, holder

LEVEL = 'other'

ACTION = 'snoopy_action_log_syscall_exec'
DISPATCH = 'snoopy_action_log_message_dispatch'
OUT_DISPATCH = 'snoopy_outputregistry_dispatch'
OUT_CALLBYNAME = 'snoopy_outputregistry_callByName'
FILTER_CHECK = 'snoopy_filtering_check_chain'
ERROR_HANDLER = 'snoopy_error_handler'
STDIO_EMIT = {'fprintf': 0, 'fputs': 1, 'fwrite': 3, 'fputc': 1, 'putc': 1, 'vfprintf': 0}
STDOUT_EMIT = {'printf', 'puts', 'putchar', 'vprintf'}
SOCK_DGRAM = 2
SOCK_TYPE_MASK = 0xf

# transcribed from the property statement
CONTRACT = {
    'snoopy_output_fileoutput': ('file', None),
    'snoopy_output_devttyoutput': ('delegate-file', '/dev/tty'),
    'snoopy_output_devnulloutput': ('delegate-file', '/dev/null'),
    'snoopy_output_stdoutoutput': ('stream', 'stdout'),
    'snoopy_output_stderroutput': ('stream', 'stderr'),
    'snoopy_output_socketoutput': ('socket', None),
    'snoopy_output_devlogoutput': ('devlog', '/dev/log'),
    'snoopy_output_noopoutput': ('noop', None),
    'snoopy_output_syslogoutput': ('syslog', None),
}


def run(ctx):
    chk = ctx.chk
    chk.rule('R1', 'action: the DROP outcome of the filter chain returns without reaching any emission; every other '
                   'path dispatches the message exactly once', floor=3)
    chk.rule('R2', 'dispatch: an empty message returns before the output registry; otherwise exactly one call through '
                   'the output table with the message and the configured output argument', floor=4)
    chk.rule('R3', 'emission APIs are called only behind the output table; the dispatch functions are called only by '
                   'the action and the error handler', floor=3)
    chk.rule('R4', 'each output frames the record as the property states (message + newline / one datagram equal to '
                   'the message / <facility|level>ident[pid]: message)', floor=8)
    chk.rule('R5', 'a record emitted through stdio is handed to the operating system (fflush/fclose of that stream) '
                   'before the output returns, hence before the real exec', floor=2)
    chk.rule('R7', 'the destination named by the output argument is used whole: a copy of the argument into a fixed '
                   'address/path field is offered the whole field (at most the terminator byte less)', floor=1)
    chk.rule('R6', 'error records are dispatched only when error logging is enabled', floor=1)
    chk.explanation = (
        'Structure of the single path action -> dispatch -> output table -> output, decided on all CFG paths; the '
        'output set is read from the registry initialiser; framing is compared semantically (printf format tokens and '
        'linear length arithmetic over strlen(message)), not textually.')
    chk.assumptions = ['message content itself is C05/C06\'s subject', 'C01-E5 places the action before the real exec']
    chk.not_decided = ['byte-level content of the message', 'expansion of the syslog ident template (C05)',
                       'delivery by the kernel after the hand-over']
    prog = ctx.program(facts.AS_CONFIGURED, 'lib')
    PROG[0] = prog
    cg = ctx.callgraph(facts.AS_CONFIGURED, 'lib')
    summ = Summaries(cg)
    drop = common.macro_value(ctx.repo, 'SNOOPY_FILTER_DROP')
    r1_action(ctx, prog, cg, summ, drop)
    r2_dispatch(ctx, prog, cg, summ)
    r3_nowhere_else(ctx, prog, cg, summ)
    outs = common.output_functions(prog)
    chk.count('outputs', len(outs))
    for o in outs:
        r4_framing(ctx, prog, cg, summ, o)
        r7_destination(ctx, prog, o)
    r6_error(ctx, prog, cg, summ)
    # exactly one record per exec call: the action runs once per interposer call
    for F in common.entry_points(prog):
        mn, mx = summ.count_range(F, {ACTION})
        chk.ob('R1', 'action-once-per-call[%s]' % F.name, mn == 1 and mx == 1, F.where(), F.name,
               'one %s() call runs the log action between %s and %s times (e.g. by calling another wrapped exec '
               'function by name): the exec is recorded %s' % (F.name, mn, mx, 'more than once' if mx != 1 else 'not at all'),
               how='must-call/may-call path count of %s from %s = 1/1' % (ACTION, F.name))
    cg.require_resolved(within=set(cg.reachable(common.entry_points(prog))))


# ---------------------------------------------------------------------------------
def r1_action(ctx, prog, cg, summ, drop, rule='R1', silence_only=False):
    chk = ctx.chk
    R1 = rule
    A = prog.require_func(ACTION)
    from engine import inline as _inlA
    A = _inlA.inlined(prog, A)      # the action may hand the filter test and the composing/sending to file-local helpers
    emit_names = common.EMIT_APIS | {DISPATCH, OUT_DISPATCH, ERROR_HANDLER}
    calls = A.calls(FILTER_CHECK)
    filtering = 'SNOOPY_CONF_FILTERING_ENABLED' in prog.macros
    if filtering:
        ok = len(calls) == 1
        chk.ob(R1, 'filter-consulted-once', ok, A.where(), A.name,
               '%d calls of %s in the action' % (len(calls), FILTER_CHECK), nontrivial=False)
        if not calls:
            raise AnalysisBroken('%s is not called from %s although filtering is enabled' % (FILTER_CHECK, ACTION))
        fc = calls[0]
        isx = common.is_result_of(A, fc)
        tests = common.blocks_testing(A, isx)
        drop_edges = []
        for b in tests:
            ce = common.compare_edges(b, lambda n: isx(n))
            if ce is None:
                continue
            c, eq, ne = ce
            if c == drop:
                drop_edges.append((b, eq))
            else:
                # compared with PASS: the != edge is the drop edge
                drop_edges.append((b, ne))
        chk.ob(R1, 'drop-outcome-tested', len(drop_edges) >= 1, fc.where(), A.name,
               'the result of %s is not compared with SNOOPY_FILTER_DROP/PASS in a branch' % FILTER_CHECK,
               how='%d branch(es) test the chain result' % len(drop_edges))
        bad = []
        for b, e in drop_edges:
            visited, _ = common.reach_from_edge(A, b, e)
            hits = [A.nodes[v] for v in visited if summ.elem_may(A, A.nodes[v], emit_names)]
            if hits:
                # reachable in the flow graph; feasible too?  (a "do log" flag cleared on DROP and tested before the
                # logging block keeps the emission out of reach: follow constants along the paths through this edge)
                paths = common.explore_paths(A, (A.entry, 0), {}, lambda x: summ.elem_may(A, x, emit_names),
                                             after_edge=(b.id, e))
                if paths is not None:
                    hits = [ev[0] for ev in paths if ev]
            bad += hits
        chk.ob(R1, 'drop-is-silent', bool(drop_edges) and not bad, bad[0].where() if bad else fc.where(), A.name,
               'after the chain said DROP the action still reaches %s' % (render(bad[0]) if bad else ''),
               how='no element reachable from the DROP edge may-calls an emission API, the dispatcher or the error handler')
        # nothing that can emit (message formatting can emit error records) runs before the decision
        early = []
        pos = C.elem_positions(A)
        visited, _ = C.reach(A, (A.entry, 0), lambda e: e.id == fc.id)
        for v in visited:
            n = A.nodes[v]
            if n.id != fc.id and summ.elem_may(A, n, emit_names):
                early.append(n)
        # elements only reachable when filtering is configured off at run time are fine: they are on
        # paths that never consult the chain; restrict to elements from which fc is still reachable
        early = [n for n in early if fc.id in C.reach(A, (pos[C.cfg_elem_of(A, n).id][0], pos[C.cfg_elem_of(A, n).id][1] + 1), None)[0]]
        chk.ob(R1, 'nothing-emits-before-filter-decision', not early, early[0].where() if early else fc.where(), A.name,
               '%s runs before the filter chain is consulted and can emit (e.g. error records while formatting), so a '
               'dropped call is not silent' % (render(early[0]) if early else ''),
               how='no may-emit element precedes the chain check on a path that reaches it')
    # the configuration is read anew for every call, before the chain is consulted: nothing on that way may emit
    # either (a complaint about the configuration, raised while loading it, would accompany every dropped call)
    CT = prog.func('snoopy_configuration_ctor')
    if CT is not None and filtering:
        loud = []
        reach_ct = cg.reachable([CT])
        for key, (g, _, _) in sorted(reach_ct.items(), key=lambda kv: str(kv[0])):
            for c_ in g.calls():
                if c_.get('callee') in emit_names:
                    loud.append((g, c_))
        chk.ob(R1, 'configuration-is-loaded-silently', not loud, loud[0][1].where() if loud else CT.where(),
               loud[0][0].name if loud else CT.name,
               'while the configuration is being loaded %s calls %s: that happens for every call before the filter chain is '
               'consulted, so a call the chain drops is not silent' % (
                   loud[0][0].name if loud else '', render(loud[0][1])[:60] if loud else ''),
               how='none of the %d functions reachable from %s calls an emission API, the dispatcher or the error handler' % (
                   len(reach_ct), CT.name))
    if silence_only:
        return
    # exactly one dispatch on every non-drop path
    # (error records raised while formatting go through the error handler and are "additional,
    # separate" records by the property: they are not counted here, R6 governs them)
    memo = {}

    def may_dispatch_fn(f):
        if f.key in memo:
            return memo[f.key]
        memo[f.key] = False
        r = False
        for cs in cg.callees(f):
            for t in cs.targets:
                if isinstance(t, str):
                    continue
                if t.name == DISPATCH or (t.name != ERROR_HANDLER and may_dispatch_fn(t)):
                    r = True
        memo[f.key] = r
        return r

    def may_dispatch(e):
        if e.k != 'CallExpr':
            return False
        for t in summ.targets(A, e):
            if isinstance(t, str):
                continue
            if t.name == DISPATCH or (t.name != ERROR_HANDLER and may_dispatch_fn(t)):
                return True
        return False
    mn, _ = C.count_on_paths(A, lambda e: summ.elem_must(A, e, {DISPATCH}))
    _, mx = C.count_on_paths(A, may_dispatch)
    # min over paths that avoid the drop edges
    if filtering:
        def ef(b, si):
            return (b.id, si) not in {(bb.id, e) for bb, e in drop_edges}
        mn = min_count_filtered(A, lambda e: summ.elem_must(A, e, {DISPATCH}), ef)
        if mn != 1:
            # the cheapest path of the flow graph may be infeasible (flag-guarded logging block): count along the
            # feasible paths that avoid the DROP edges
            paths = common.explore_paths(A, (A.entry, 0), {}, lambda x: summ.elem_must(A, x, {DISPATCH}), edge_ok=ef)
            if paths:
                mn = min(len(ev) for ev in paths)
    chk.ob(R1, 'dispatch-exactly-once', mn == 1 and mx == 1, A.where(), A.name,
           'a logged call dispatches between %s and %s times' % (mn, mx),
           how='min (non-drop paths) / max (all paths) count of %s = 1/1' % DISPATCH)


def cfg_reachable_without(A, target, must, prog):
    visited, _ = C.reach(A, (A.entry, 0), lambda e: e.id == must.id)
    return target.id in visited


def min_count_filtered(func, pred, edge_filter):
    INF = C.INF
    w = {b: sum(1 for e in blk.elems if pred(e)) for b, blk in func.blocks.items()}
    mn = {b: INF for b in func.blocks}
    mn[func.entry] = w[func.entry]
    changed = True
    while changed:
        changed = False
        for b, blk in func.blocks.items():
            if mn[b] == INF:
                continue
            for si, (s, unr) in enumerate(blk.all_succs):
                if s is None or unr or not edge_filter(blk, si):
                    continue
                v = mn[b] + w[s]
                if v < mn[s]:
                    mn[s] = v
                    changed = True
    return mn[func.exit]


# ---------------------------------------------------------------------------------
def r2_dispatch(ctx, prog, cg, summ):
    chk = ctx.chk
    D = prog.require_func(DISPATCH)
    msg = D.params[0]['id']
    # empty test
    def is_len(n):
        return n.k == 'CallExpr' and n.get('callee') in ('strlen', '__builtin_strlen') and \
            (decl_of(arg(n, 0)) or {}).get('id') == msg
    def is_first_char(n):
        if n.k == 'ArraySubscriptExpr':
            return (decl_of(n.ch[0]) or {}).get('id') == msg and strip(n.ch[1]).get('v') == 0
        if n.k == 'UnaryOperator' and n['op'] == '*':
            return (decl_of(n.ch[0]) or {}).get('id') == msg
        return False
    isx = lambda n: is_len(n) or is_first_char(n)
    tests = common.blocks_testing(D, isx)
    empty_edges = []
    for b in tests:
        ce = common.compare_edges(b, isx)
        if ce and ce[0] == 0:
            empty_edges.append((b, ce[1]))
    bad = []
    for b, e in empty_edges:
        visited, _ = common.reach_from_edge(D, b, e)
        bad += [D.nodes[v] for v in visited if summ.elem_may(D, D.nodes[v], {OUT_DISPATCH} | common.EMIT_APIS)]
    chk.ob('R2', 'empty-message-discarded', bool(empty_edges) and not bad, D.where(), D.name,
           'an empty message is not recognised, or still reaches the output registry (%s)' % (
               render(bad[0]) if bad else 'no strlen(message)==0 test'),
           how='the strlen(message)==0 edge cannot reach %s' % OUT_DISPATCH)
    ef = lambda b, si: (b.id, si) not in {(bb.id, e) for bb, e in empty_edges}
    mn = min_count_filtered(D, lambda e: summ.elem_must(D, e, {OUT_DISPATCH}), ef)
    _, mx = summ.count_range(D, {OUT_DISPATCH})
    chk.ob('R2', 'registry-dispatch-once', mn == 1 and mx == 1, D.where(), D.name,
           'a non-empty message reaches the output registry between %s and %s times' % (mn, mx))
    # the message handed on is the parameter itself
    for c in D.calls(OUT_DISPATCH):
        a = decl_of(arg(c, 0))
        chk.ob('R2', 'message-passed-unchanged[dispatch]', a is not None and a['id'] == msg, c.where(), D.name,
               '%s hands %s to the registry instead of its message parameter' % (D.name, render(arg(c, 0))))
    # outputregistry_dispatch -> callByName(CFG->output, message, CFG->output_arg)
    O = prog.require_func(OUT_DISPATCH)
    cbn = O.calls(OUT_CALLBYNAME)
    if not cbn and [c for c in O.calls() if c.get('callee') is None]:
        # the dispatcher looks the output up and calls through the table itself: the two-step rule below (dispatch ->
        # callByName -> table) does not describe that shape
        raise AnalysisBroken('%s calls through the output table itself instead of %s(): rule R2 does not follow that shape' % (
            O.name, OUT_CALLBYNAME))
    ok = len(cbn) == 1
    detail = '%d calls of %s' % (len(cbn), OUT_CALLBYNAME)
    if ok:
        c = cbn[0]
        a0, a1, a2 = strip(arg(c, 0)), arg(c, 1), strip(arg(c, 2))
        ok = a0.k == 'MemberExpr' and a0['member'] == 'output' and \
            (decl_of(a1) or {}).get('id') == O.params[0]['id'] and \
            a2.k == 'MemberExpr' and a2['member'] == 'output_arg'
        detail = 'registry dispatch calls %s' % render(c)
        mn, mx = C.count_on_paths(O, lambda e: e.id == c.id)
        ok = ok and mn == 1 and mx == 1
    chk.ob('R2', 'configured-output-called-once', ok, O.where(), O.name, detail,
           how='callByName(CFG->output, message, CFG->output_arg) exactly once')
    N = prog.require_func(OUT_CALLBYNAME)
    ind = [c for c in N.calls() if c.get('callee') is None]
    ok = len(ind) == 1
    if ok:
        c = ind[0]
        a0, a1 = decl_of(arg(c, 0)), decl_of(arg(c, 1))
        ok = a0 is not None and a0['kind'] == 'parm' and a0['index'] == 1 and \
            a1 is not None and a1['kind'] == 'parm' and a1['index'] == 2
        mn, mx = C.count_on_paths(N, lambda e: e.id == c.id)
        ok = ok and mx == 1
    chk.ob('R2', 'table-call-passes-message-and-arg', ok, N.where(), N.name,
           'the call through the output table does not receive (message, argument) unchanged or runs more than once',
           how='single indirect call ptrs[id](logMessage, outputArg)')


# ---------------------------------------------------------------------------------
def r3_nowhere_else(ctx, prog, cg, summ):
    chk = ctx.chk
    roots = common.entry_points(prog)
    N = prog.require_func(OUT_CALLBYNAME)
    table_sites = {(cs.caller.key, cs.node.id) for cs in cg.sites
                   if cs.indirect and cs.how.startswith('table snoopy_outputregistry_ptrs')}
    if not table_sites:
        raise AnalysisBroken('no call through snoopy_outputregistry_ptrs found')
    # reachability with the output-table calls cut
    seen = {}
    todo = list(roots)
    for r in roots:
        seen[r.key] = (r, None)
    while todo:
        f = todo.pop()
        for cs in cg.callees(f):
            if (cs.caller.key, cs.node.id) in table_sites:
                continue
            for t in list(cs.targets) + list(cs.callbacks):
                if isinstance(t, str) or t.key in seen:
                    continue
                seen[t.key] = (t, (f, cs))
                todo.append(t)
    stray = []
    nsites = 0
    for key, (f, _) in seen.items():
        for cs in cg.callees(f):
            for t in cs.targets:
                if isinstance(t, str) and t[4:] in common.EMIT_APIS:
                    nsites += 1
                    stray.append((f, cs))
    for f, cs in stray:
        chain = []
        k = f.key
        while k is not None:
            g, par = seen[k]
            chain.append(g.name)
            k = par[0].key if par else None
        chk.ob('R3', 'stray-emission[%s:%s]' % (f.name, cs.node.get('callee')), False, cs.node.where(), f.name,
               '%s is reachable from the interposers without passing the output table (%s): a record, or part of '
               'one, appears somewhere else than the configured output' % (render(cs.node), ' <- '.join(chain)))
    chk.ob('R3', 'emission-only-behind-output-table', not stray, '', '',
           '%d emission call(s) outside the outputs' % len(stray),
           how='%d functions reachable with the output-table call cut contain no emission API call' % len(seen))
    # callers of the dispatch chain
    allowed = {DISPATCH: {ACTION, ERROR_HANDLER}, OUT_DISPATCH: {DISPATCH}, OUT_CALLBYNAME: {OUT_DISPATCH},
               'snoopy_outputregistry_callById': set()}
    reach = common.checked_reach(cg, prog) if roots else {}
    for fn, who in allowed.items():
        callers = {cs.caller.name for cs in cg.callers_of(fn) if cs.caller.key in reach}
        # a file-local helper of an allowed caller is that caller, written in two pieces
        helpers_ok = {h.name for w in who if prog.func(w) is not None for h in common.with_helpers(prog, prog.func(w))}
        extra = callers - who - helpers_ok
        chk.ob('R3', 'callers[%s]' % fn, not extra, '', fn,
               '%s is also called from %s' % (fn, ', '.join(sorted(extra))),
               how='callers on the exec path: %s' % ', '.join(sorted(callers)))
    # output functions are called only through the table or by another output (delegation)
    outs = {o.key: o for o in common.output_functions(prog)}
    for o in outs.values():
        callers = [cs for cs in cg.callers_of(o.name) if cs.caller.key in reach and not cs.indirect]
        bad = [cs for cs in callers if cs.caller.key not in outs]
        chk.ob('R3', 'output-called-only-via-table[%s]' % o.name, not bad,
               bad[0].node.where() if bad else o.where(), o.name,
               '%s is called directly from %s, bypassing the configured-output selection' % (
                   o.name, bad[0].caller.name if bad else ''), nontrivial=False)


# ---------------------------------------------------------------------------------
def r4_framing(ctx, prog, cg, summ, o):
    chk = ctx.chk
    kind, extra = CONTRACT.get(o.name, (None, None))
    if kind is None:
        chk.ob('R4', 'contract[%s]' % o.name, True, o.where(), o.name, nontrivial=False,
               how='output %s is not one of the outputs the property names: its framing is not decided (the '
                   'dispatch, silence and single-emission rules apply to it like to the others)' % o.name)
        return
    msg = o.params[0]['id']
    if kind == 'noop':
        reach = cg.reachable([o])
        em = [(e, cs) for e, cs in cg.external_calls(reach) if e in common.EMIT_APIS]
        chk.ob('R4', 'noop-emits-nothing', not em, o.where(), o.name,
               'noop output emits: %s' % (render(em[0][1].node) if em else ''), nontrivial=False)
        return
    if kind == 'delegate-file':
        calls = [c for c in o.calls() if c.get('callee') == 'snoopy_output_fileoutput']
        ok = len(calls) == 1
        if ok:
            c = calls[0]
            a0, a1 = decl_of(arg(c, 0)), strip(arg(c, 1))
            ok = a0 is not None and a0['id'] == msg and a1.k == 'StringLiteral' and a1['s'] == extra
            mn, mx = C.count_on_paths(o, lambda e: e.id == c.id)
            ok = ok and mn == 1 and mx == 1
        others = [c for c in o.calls() if c.get('callee') in common.EMIT_APIS]
        chk.ob('R4', 'framing[%s]' % o.name, ok and not others, o.where(), o.name,
               'expected exactly one snoopy_output_fileoutput(message, "%s")' % extra,
               how='delegates once to the file output with "%s"' % extra)
        rets = C.return_nodes(o)
        return
    if kind == 'stream':
        emits = [c for c in o.calls() if c.get('callee') in STDIO_EMIT or c.get('callee') in STDOUT_EMIT]
        ok = len(emits) == 1
        detail = '%d emissions' % len(emits)
        if ok:
            c = emits[0]
            ok, detail = printf_is_message_newline(o, c, msg)
            if ok and c.get('callee') in STDIO_EMIT:
                st = strip(arg(c, STDIO_EMIT[c['callee']]))
                ok = st.k == 'DeclRefExpr' and st['ref']['name'] == extra
                detail = 'emits to %s, expected %s' % (render(st), extra)
            elif ok:
                ok = extra == 'stdout'
            mn, mx = C.count_on_paths(o, lambda e: e.id == c.id)
            if ok and not (mn == 1 and mx == 1):
                ok = False
                detail = 'emission executes %s..%s times' % (mn, mx)
        chk.ob('R4', 'framing[%s]' % o.name, ok, emits[0].where() if emits else o.where(), o.name, detail,
               how='one fprintf(%s, "%%s\\n", message)' % extra)
        if emits:
            r5_flush(ctx, o, emits[0], extra)
        return
    if kind == 'file':
        file_framing(ctx, o, msg)
        return
    if kind == 'socket':
        socket_framing(ctx, o, msg)
        return
    if kind == 'devlog':
        devlog_framing(ctx, o, msg, extra)
        return
    if kind == 'syslog':
        chk.ob('R4', 'framing[%s]' % o.name, True, o.where(), o.name, nontrivial=False,
               how='syslog output: framing is libc\'s (not compiled in the default configuration)')


def printf_is_message_newline(f, c, msg):
    name = c.get('callee')
    if name in ('fputs', 'puts'):
        return False, '%s cannot emit message and newline in one call' % name if name == 'fputs' else 'puts'
    cf = fmt.call_format(c)
    if cf is None or cf[2] is None:
        return False, 'format of %s is not a literal' % render(c)
    toks = cf[2]
    binds = fmt.variadic_bindings(c)
    ok = len(toks) == 2 and toks[0][0] == 'conv' and toks[0][1]['conv'] == 's' and \
        not toks[0][1]['prec'] and not toks[0][1]['width'] and toks[1] == ('lit', '\n')
    if not ok:
        return False, 'format "%s" is not message + newline' % cf[0].replace('\n', '\\n')
    a = decl_of(binds[0][0]) if binds else None
    if a is None or a['id'] != msg:
        return False, '%%s is bound to %s, not to the message' % render(binds[0][0]) if binds else 'no argument'
    return True, ''


def r5_flush(ctx, o, emit, stream_name):
    chk = ctx.chk
    def flushes(e):
        if e.k != 'CallExpr':
            return False
        if e.get('callee') in ('fflush', 'fclose'):
            a = strip(arg(e, 0))
            if a is None:
                return False
            if a.get('null') or a.get('v') == 0:
                return e.get('callee') == 'fflush'   # fflush(NULL) flushes all streams
            return a.k == 'DeclRefExpr' and a['ref']['name'] == stream_name
        return False
    ok = C.always_followed(o, emit, flushes)
    chk.ob('R5', 'flushed-before-return[%s]' % o.name, ok, emit.where(), o.name,
           '%s leaves the record in the %s stdio buffer: when the real exec succeeds the process image is replaced '
           'and the buffered record is lost (stdout to a pipe/file is fully buffered)' % (render(emit), stream_name),
           how='every path from the emission to the return passes fflush(%s)' % stream_name)


PROG = [None]


def file_framing_split(ctx, o, g, c):
    """file_framing when the one write() sits in a file-local helper g of the output o: the same three facts
    (length = strlen(message)+1, buffer = copy of the message of that length, newline behind it), evaluated
    through the helpers' parameters, results and out-parameters"""
    from rules.xeval import XEval, MSGLEN
    chk = ctx.chk
    X = XEval(PROG[0], o)
    L = Lin.sym(MSGLEN)
    ln = X.lin(g, arg(c, 2))
    ok = ln is not None and ln == L + Lin.const(1)
    detail = 'write length is %s, expected strlen(message) + 1' % ln
    how = ''
    if ok:
        # the helper runs once per call of the output, the write once per run of the helper
        chain_ok = True
        f = g
        while f is not o:
            ss = X.sites(f)
            if len(ss) != 1:
                chain_ok = False
                break
            caller, call = ss[0]
            mn, mx = C.count_on_paths(caller, lambda e: e.id == call.id)
            if mx != 1:
                chain_ok = False
                break
            f = caller
        mn, mx = C.count_on_paths(g, lambda e: e.id == c.id)
        if not chain_ok or mx != 1:
            ok, detail = False, 'the write can execute more than once for one record'
    if ok:
        org = X.buffer_origin(g, arg(c, 1))
        if org is None:
            ok, detail = False, 'the written buffer %s cannot be traced to one allocation' % render(arg(c, 1))
        else:
            bf, bid = org
            copied = nl = False
            other = []
            for n in bf.body.walk():
                if n.k == 'CallExpr' and n.get('callee') in ('memcpy', 'strncpy', 'memmove', 'strcpy', '__builtin_memcpy'):
                    d = decl_of(arg(n, 0))
                    if d is not None and d['id'] == bid:
                        cnt = X.lin(bf, arg(n, 2)) if n.get('callee') != 'strcpy' else L
                        if X.is_msg(bf, arg(n, 1)) and cnt == L:
                            copied = True
                        else:
                            other.append(n)
                if n.k == 'BinaryOperator' and n['op'] == '=':
                    t = strip(n.ch[0])
                    if t.k == 'ArraySubscriptExpr' and (decl_of(t.ch[0]) or {}).get('id') == bid:
                        if X.lin(bf, t.ch[1]) == L and strip(n.ch[1]).get('v') == 10:
                            nl = True
                        else:
                            other.append(n)
            ok = copied and nl and not other
            detail = 'record buffer (%s in %s) is not message (copied with length strlen(message)) followed by a newline at ' \
                     'index strlen(message)%s' % (bid, bf.name, '; other stores: ' + '; '.join(render(x) for x in other) if other else '')
            how = 'buffer built in %s = memcpy(message, strlen) + newline at [strlen]; one write of strlen+1 bytes in %s' % (bf.name, g.name)
    chk.ob('R4', 'framing[%s]' % o.name, ok, c.where(), o.name, detail, how=how)


def file_framing(ctx, o, msg):
    """record = message bytes + '\\n', either by a printf-family call or by an
    assembled buffer written with one write()."""
    chk = ctx.chk
    emits = [c for c in o.calls() if c.get('callee') in STDIO_EMIT or c.get('callee') in ('write', 'dprintf')]
    if not emits and PROG[0] is not None:
        # the record may be assembled and written by file-local helpers of the output
        hs = [(g, c) for g in common.with_helpers(PROG[0], o)[1:] for c in g.calls()
              if c.get('callee') in STDIO_EMIT or c.get('callee') in ('write', 'dprintf')]
        if len(hs) == 1 and hs[0][1].get('callee') == 'write':
            return file_framing_split(ctx, o, hs[0][0], hs[0][1])
    if len(emits) != 1:
        chk.ob('R4', 'framing[%s]' % o.name, False, o.where(), o.name,
               '%d emission calls in the file output, expected one' % len(emits))
        return
    c = emits[0]
    if c.get('callee') != 'write':
        ok, detail = printf_is_message_newline(o, c, msg)
        chk.ob('R4', 'framing[%s]' % o.name, ok, c.where(), o.name, detail, how='"%s\\n" <- message')
        if ok and c.get('callee') in STDIO_EMIT:
            st = decl_of(arg(c, STDIO_EMIT[c['callee']]))
            def closes(e):
                return e.k == 'CallExpr' and e.get('callee') in ('fclose', 'fflush') and \
                    (decl_of(arg(e, 0)) or {}).get('id') == (st or {}).get('id')
            chk.ob('R5', 'flushed-before-return[%s]' % o.name, C.always_followed(o, c, closes), c.where(), o.name,
                   'the stream is not closed/flushed on every path after the emission')
        return
    env = LinEnv(o)
    L = Lin.sym(('strlen', ('decl', msg), o.params[0]['name']))
    buf = decl_of(arg(c, 1))
    ln = env.lin(arg(c, 2))
    ok = buf is not None and ln is not None and ln == L + Lin.const(1)
    detail = 'write length is %s, expected strlen(message) + 1' % ln
    how = ''
    if ok:
        # buffer content: a copy of the message of length strlen(message) at offset 0 and '\n' at
        # index strlen(message); no other stores into it
        copied = False
        nl = False
        other = []
        for n in o.body.walk():
            if n.k == 'CallExpr' and n.get('callee') in ('memcpy', 'strncpy', 'memmove', 'strcpy', '__builtin_memcpy'):
                d = decl_of(arg(n, 0))
                if d is not None and d['id'] == buf['id']:
                    s = decl_of(arg(n, 1))
                    cnt = env.lin(arg(n, 2)) if n.get('callee') != 'strcpy' else L
                    if s is not None and s['id'] == msg and cnt == L:
                        copied = True
                    else:
                        other.append(n)
            if n.k == 'BinaryOperator' and n['op'] == '=':
                t = strip(n.ch[0])
                if t.k == 'ArraySubscriptExpr' and (decl_of(t.ch[0]) or {}).get('id') == buf['id']:
                    idx = env.lin(t.ch[1])
                    if idx == L and strip(n.ch[1]).get('v') == 10:
                        nl = True
                    else:
                        other.append(n)
        ok = copied and nl and not other
        detail = 'record buffer is not message (copied with length strlen(message)) followed by a newline at index ' \
                 'strlen(message)%s' % ('; other stores: ' + '; '.join(render(x) for x in other) if other else '')
        how = 'buffer = memcpy(message, strlen) + \'\\n\' at [strlen]; one write of strlen+1 bytes'
    chk.ob('R4', 'framing[%s]' % o.name, ok, c.where(), o.name, detail, how=how)


def socket_framing(ctx, o, msg):
    chk = ctx.chk
    sends = [c for c in o.calls() if c.get('callee') in ('send', 'sendto', 'write', 'sendmsg')]
    socks = o.calls('socket')
    ok = len(sends) == 1 and len(socks) == 1
    detail = '%d send / %d socket calls' % (len(sends), len(socks))
    if ok:
        c = sends[0]
        env = LinEnv(o)
        L = Lin.sym(('strlen', ('decl', msg), o.params[0]['name']))
        a1 = decl_of(arg(c, 1))
        ln = env.lin(arg(c, 2))
        ty = strip(arg(socks[0], 1)).get('v')
        fdv = holder(o, socks[0])
        a0 = decl_of(arg(c, 0))
        if a1 is None or a1['id'] != msg:
            ok, detail = False, 'send transmits %s, not the message' % render(arg(c, 1))
        elif ln != L:
            ok, detail = False, 'send length is %s, expected strlen(message)' % ln
        elif ty is None or (ty & SOCK_TYPE_MASK) != SOCK_DGRAM:
            ok, detail = False, 'socket type %s is not SOCK_DGRAM: the record is not one datagram' % render(arg(socks[0], 1))
        elif a0 is None or a0['id'] != fdv:
            ok, detail = False, 'send is not applied to the socket just created'
        else:
            mn, mx = C.count_on_paths(o, lambda e: e.id == c.id)
            if mx != 1:
                ok, detail = False, 'send can execute %s times for one record' % mx
    chk.ob('R4', 'framing[%s]' % o.name, ok, sends[0].where() if sends else o.where(), o.name, detail,
           how='one send(fd, message, strlen(message), ...) on a SOCK_DGRAM socket')


def _const_upper_bound(o, e, depth=0):
    """a constant the value cannot exceed: a constant itself, strnlen(x, K), or a local every definition of which is one"""
    n = strip(e)
    if n is None or depth > 5:
        return None
    if n.get('v') is not None and n.k != 'DeclRefExpr':
        return n['v']
    if n.k == 'CallExpr' and n.get('callee') == 'strnlen' and len(n.ch) > 2:
        return _const_upper_bound(o, n.ch[2], depth + 1)
    d = decl_of(n)
    if d is not None and d.get('kind') == 'var':
        from engine.dataflow import def_exprs
        defs = def_exprs(o, d['id'])
        bs = [_const_upper_bound(o, x, depth + 1) for x in defs]
        if defs and all(b is not None for b in bs):
            return max(bs)
    return None


def _is_devlog_path(o, e, path, depth=0):
    """the socket the devlog record goes to: the literal "/dev/log", or something the configuration can set - the
    output's own argument, or a string field of the configuration record whose compiled-in default is "/dev/log" -
    with "/dev/log" wherever the code falls back to a literal"""
    e = strip(e)
    if e is None or depth > 4:
        return False
    if e.k == 'StringLiteral':
        return e.get('s') == path
    if e.k == 'ConditionalOperator':
        return _is_devlog_path(o, e.ch[1], path, depth + 1) and _is_devlog_path(o, e.ch[2], path, depth + 1)
    if e.k == 'DeclRefExpr':
        r = e['ref']
        if r.get('kind') == 'parm':
            base = getattr(o, 'original', o)
            return len(base.params) > 1 and r.get('id') == base.params[1]['id']
        if r.get('kind') == 'var' and not r.get('staticStorage'):
            from engine.dataflow import def_exprs
            defs = def_exprs(o, r['id'])
            return bool(defs) and all(_is_devlog_path(o, x, path, depth + 1) for x in defs)
        return False
    if e.k == 'MemberExpr' and e.get('record') == 'snoopy_configuration_t' and PROG[0] is not None:
        SD = PROG[0].func('snoopy_configuration_setDefaults')
        if SD is None:
            return False
        dflt = [strip(n.ch[1]) for n in SD.body.walk() if n.k == 'BinaryOperator' and n.get('op') == '=' and
                strip(n.ch[0]).k == 'MemberExpr' and strip(n.ch[0]).get('member') == e.get('member')]
        return bool(dflt) and all(x is not None and x.k == 'StringLiteral' and x.get('s') == path for x in dflt)
    return False


def devlog_framing(ctx, o, msg, path):
    chk = ctx.chk
    if PROG[0] is not None:
        # a record composed by file-local helpers: look at the inlined view, where their statements stand in o
        from engine import inline
        o = inline.inlined(PROG[0], o)
    root = lambda x: common.alias_root(o, x) if x is not None else None
    sn = [c for c in o.calls() if c.get('callee') in ('snprintf', 'sprintf')]
    dele = o.calls('snoopy_output_socketoutput')
    ok = len(dele) == 1
    detail = 'devlog must hand its record to the socket output exactly once'
    if ok:
        d = dele[0]
        buf = decl_of(arg(d, 0))
        p = strip(arg(d, 1))
        ok = buf is not None and _is_devlog_path(o, p, path)
        detail = 'delegation is %s, expected (<record buffer>, "%s")' % (render(d), path)
        if ok:
            bc = [c for c in sn if root((decl_of(arg(c, 0)) or {}).get('id')) == root(buf['id'])]
            ok = len(bc) == 1
            detail = 'record buffer is written by %d snprintf calls' % len(bc)
            if ok:
                c = bc[0]
                cf = fmt.call_format(c)
                binds = fmt.variadic_bindings(c) or []
                toks = cf[2] if cf else None
                shape = [(t[0], t[1] if t[0] == 'lit' else t[1]['conv']) for t in (toks or [])]
                want = [('lit', '<'), ('conv', 'd'), ('lit', '>'), ('conv', 's'), ('lit', '['), ('conv', 'd'),
                        ('lit', ']: '), ('conv', 's')]
                if shape != want:
                    ok, detail = False, 'format "%s" is not <%%d>%%s[%%d]: %%s' % (cf[0] if cf else '?')
                else:
                    vals = [(a, dd, role) for a, dd, role in binds if role == 'value']
                    pri, ident, pid, m = [v[0] for v in vals]
                    ps = strip(pri)
                    fields = sorted(n['member'] for n in ps.walk() if n.k == 'MemberExpr')
                    if not (ps.k == 'BinaryOperator' and ps['op'] == '|' and fields == ['syslog_facility', 'syslog_level']):
                        ok, detail = False, 'priority is %s, expected facility | level' % render(pri)
                    elif not (strip(pid).k == 'CallExpr' and strip(pid).get('callee') == 'getpid'):
                        ok, detail = False, 'pid field is %s, expected getpid()' % render(pid)
                    elif root((decl_of(m) or {}).get('id')) != msg:
                        ok, detail = False, 'message field is %s' % render(m)
                    else:
                        # ident is the buffer expanded from CFG->syslog_ident_format
                        idd = decl_of(ident)
                        gen = [g for g in o.calls('snoopy_message_generateFromFormat')
                               if root((decl_of(arg(g, 0)) or {}).get('id')) == root((idd or {}).get('id'))]
                        src_ok = gen and strip(arg(gen[0], 3)).k == 'MemberExpr' and \
                            strip(arg(gen[0], 3))['member'] == 'syslog_ident_format'
                        if not src_ok:
                            ok, detail = False, 'ident field %s is not the expansion of syslog_ident_format' % render(ident)
    chk.ob('R4', 'framing[%s]' % o.name, ok, o.where(), o.name, detail,
           how='"<%d>%.*s[%d]: %s" <- (facility|level, ident, getpid(), message), sent as one datagram to ' + path)
    # the record buffer holds the whole record for every message length: size >= strlen(message) + max prefix
    if ok:
        from engine.linear import entails
        c = bc[0]
        env = LinEnv(o)
        L = Lin.sym(('strlen', ('decl', msg), o.params[0]['name']))
        size = env.lin(arg(c, 1))
        # "<" pri(<=11) ">" ident(<= precision) "[" pid(<=11) "]: " + NUL
        binds = fmt.variadic_bindings(c) or []
        prec = [a for a, d, role in binds if role == 'prec']
        pv = strip(prec[0]).get('v') if prec else None
        if pv is None and prec:
            pv = _const_upper_bound(o, prec[0])     # a measured length: strnlen(ident, K)
        if pv is None:
            chk.ob('R4', 'no-truncation[%s]' % o.name, False, c.where(), o.name,
                   'the ident field has no constant precision bound, the prefix length is unbounded')
        else:
            need = L + Lin.const(1 + 11 + 1 + pv + 1 + 11 + 3 + 1)
            okk = size is not None and entails([L], size - need)
            chk.ob('R4', 'no-truncation[%s]' % o.name, okk, c.where(), o.name,
                   'the record buffer is %s bytes but a record needs up to %s: for long messages snprintf cuts the tail '
                   'and the datagram is not the message byte for byte' % (size, need),
                   how='buffer size %s >= %s for every message length' % (size, need))


# ---------------------------------------------------------------------------------
def r6_error(ctx, prog, cg, summ):
    chk = ctx.chk
    E = prog.require_func(ERROR_HANDLER)
    def isx(n):
        return n.k == 'MemberExpr' and n.get('member') == 'error_logging_enabled'
    tests = common.blocks_testing(E, isx)
    true_v = common.macro_value(ctx.repo, 'SNOOPY_TRUE')
    off_edges = []
    for b in tests:
        ce = common.compare_edges(b, isx)
        if ce is None:
            continue
        c, eq, ne = ce
        off_edges.append((b, ne if c == true_v else eq))
    bad = []
    for b, e in off_edges:
        visited, _ = common.reach_from_edge(E, b, e)
        bad += [E.nodes[v] for v in visited if summ.elem_may(E, E.nodes[v], {DISPATCH} | common.EMIT_APIS)]
    # and no dispatch is reachable without passing a test at all
    disp = [c for c in E.calls() if summ.elem_may(E, c, {DISPATCH} | common.EMIT_APIS)]
    unguarded = [d for d in disp if not C.always_preceded(
        E, d, lambda e: any(e.id == b.elems[-1].id for b, _ in off_edges if b.elems))]
    chk.ob('R6', 'error-records-only-when-enabled', bool(off_edges) and not bad and not unguarded,
           (bad or unguarded or [E.body])[0].where(), E.name,
           'the error handler can emit while error logging is off (%s)' % (
               render((bad or unguarded)[0]) if (bad or unguarded) else 'no test of error_logging_enabled found'),
           how='the "disabled" edge of the error_logging_enabled test cannot reach the dispatcher')
    # the handler may switch error logging back ON only where it found it on: a store of a non-zero value on a
    # path that did not pass the "enabled" edge turns error logging on for a configuration that has it off
    on_edges = {}
    for b in tests:
        ce = common.compare_edges(b, isx)
        if ce is not None:
            c, eq, ne = ce
            on_edges[b.id] = eq if c == true_v else ne
    for n in E.body.walk():
        if n.k == 'BinaryOperator' and n.get('op') == '=' and isx(strip(n.ch[0])):
            v = strip(n.ch[1]).get('v')
            if v is not None and v == 0:
                continue
            g = common.guarded_at(E, n, lambda blk: on_edges.get(blk.id), lambda e: False)
            chk.ob('R6', 'error-logging-only-restored-where-it-was-on', g, n.where(), E.name,
                   '%s is executed on paths on which error logging was found (or never tested to be) off: after the '
                   'first swallowed error the configuration has error logging on, and later errors of the same call '
                   'produce extra records' % render(n)[:60],
                   how='the store follows the "enabled" edge of the error_logging_enabled test on every path')


def r7_destination(ctx, prog, o):
    """the output argument (socket path, file path) reaches connect/open unshortened as far as the fixed field
    allows: a bounded copy of it is offered capacity - 1 bytes or more.  One byte less than that and the longest
    valid destination is silently replaced by a different one."""
    from engine.bounds import SIZED_WRITERS
    from engine.dataflow import PtrTaint
    chk = ctx.chk
    if len(o.params) < 2:
        return
    argp = o.params[1]['id']
    pt = PtrTaint(o, lambda n: False, {argp})
    for c in o.calls():
        name = c.get('callee')
        if name not in ('strncpy', 'memcpy', 'snprintf', 'strlcpy', '__builtin_strncpy'):
            continue
        di, si = SIZED_WRITERS.get(name, (0, 2 if name != 'snprintf' else 1))
        args = c.ch[1:]
        srcs = args[1:] if name != 'snprintf' else args[2:]
        if not any(a is not None and pt.is_derived(a) for a in srcs):
            continue
        d = strip(args[di])
        cap = (d.get('fieldSize') or {}).get('size') if d is not None and d.k == 'MemberExpr' else None
        if cap is None and d is not None and d.k == 'DeclRefExpr':
            for x in o.local_decls():
                if x['id'] == d['ref']['id'] and 'arrayLen' in x:
                    cap = x['size']
        n = strip(args[si]).get('v') if si < len(args) else None
        if n is None and si < len(args) and decl_of(args[si]) is not None:
            # a measured length: strnlen(argument, K) copies the whole argument up to K bytes
            from engine.dataflow import def_exprs as _dx
            for dx in _dx(o, decl_of(args[si])['id']):
                sx = strip(dx)
                if sx is not None and sx.k == 'CallExpr' and sx.get('callee') in ('strnlen', '__strnlen') and \
                        pt.is_derived(arg(sx, 0)) and strip(arg(sx, 1)).get('v') is not None:
                    n = strip(arg(sx, 1))['v']
        if cap is None or n is None:
            continue
        chk.ob('R7', 'destination-copied-whole[%s:%s]' % (o.name, render(d)[:30]), n >= cap - 1, c.where(), o.name,
               '%s copies at most %d bytes of the output argument into a field of %d bytes: the longest destination the '
               'field can hold is cut, and the record goes to (or is refused by) a different destination' % (render(c)[:60], n, cap),
               how='%d of %d bytes offered' % (n, cap))
