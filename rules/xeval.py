"""Symbolic values across file-local helpers.  A function that is split into static helpers keeps its
meaning; rules that compare a length or a buffer with the message (C04 R4, C17 W2) evaluate through the
split: a parameter of a helper stands for the argument at its call site(s), a variable handed out by address
to one helper stands for what that helper stores through the pointer, the result of a helper stands for what
it returns.  Everything unresolved becomes an opaque symbol, so an equality that is reported was derived."""
from engine.dataflow import decl_of, def_exprs, def_sites
from engine.facts import render, strip
from engine.linear import Lin
from rules import common
from rules.common import arg

MSGLEN = ('strlen', ('msg',), 'message')


class XEval:
    def __init__(self, prog, root, msg_index=0):
        self.prog = prog
        self.root = root
        self.msg_id = root.params[msg_index]['id']
        self.funcs = common.with_helpers(prog, root)
        self._sites = {}

    def sites(self, f):
        """[(caller, call node)] of the static function f inside the unit, or None if it is the root / escapes"""
        if f.key in self._sites:
            return self._sites[f.key]
        out = []
        if f is not self.root:
            for g in self.funcs:
                for c in g.calls(f.name):
                    if self.prog.func(f.name, g.tu) is f:
                        out.append((g, c))
        self._sites[f.key] = out
        return out

    # ---- is this expression the message (pointer)? -------------------------------------------
    def is_msg(self, f, e, depth=0):
        d = decl_of(e) if e is not None else None
        if d is None or depth > 6:
            return False
        if f is self.root and d['id'] == self.msg_id:
            return True
        if d.get('kind') == 'parm':
            ss = self.sites(f)
            if any(k != 'decl' for k, _ in def_sites(f, d['id'])):
                return False
            return bool(ss) and all(self.is_msg(g, arg(c, d['index']), depth + 1) for g, c in ss)
        defs = def_exprs(f, d['id'])
        if len(defs) == 1 and not any(k in ('addr', 'incdec') for k, _ in def_sites(f, d['id'])):
            return self.is_msg(f, defs[0], depth + 1)
        return False

    # ---- integer value ------------------------------------------------------------------------
    def lin(self, f, node, depth=0):
        n = strip(node)
        if n is None or depth > 12:
            return None
        if 'v' in n.d and n.k != 'DeclRefExpr':
            return Lin.const(n['v'])
        k = n.k
        if k == 'CallExpr' and n.get('callee') in ('strlen', '__builtin_strlen'):
            if self.is_msg(f, arg(n, 0)):
                return Lin.sym(MSGLEN)
            return Lin.sym(('opaque', f.name, n.id))
        if k == 'BinaryOperator' and n['op'] in ('+', '-'):
            a, b = self.lin(f, n.ch[0], depth + 1), self.lin(f, n.ch[1], depth + 1)
            if a is None or b is None:
                return None
            return a + b if n['op'] == '+' else a - b
        if k == 'UnaryOperator' and n.get('op') == '*':
            # *p with p a parameter bound to &x at the call sites: the value of x there is not tracked; opaque
            return Lin.sym(('opaque', f.name, n.id))
        if k == 'DeclRefExpr' and n['ref'].get('kind') == 'enum' and 'v' in n.d:
            return Lin.const(n['v'])
        if k == 'DeclRefExpr' and n['ref'].get('kind') in ('var', 'parm'):
            r = n['ref']
            sites = def_sites(f, r['id'])
            if r['kind'] == 'parm':
                if any(kk != 'decl' for kk, _ in sites):
                    return Lin.sym(('var', f.name, r['id']))
                ss = self.sites(f)
                vals = [self.lin(g, arg(c, r['index']), depth + 1) for g, c in ss]
                if vals and all(v is not None and v == vals[0] for v in vals):
                    return vals[0]
                return Lin.sym(('var', f.name, r['id']))
            if r.get('staticStorage'):
                return Lin.sym(('var', f.name, r['id']))
            plain = def_exprs(f, r['id'])
            addr = [nn for kk, nn in sites if kk == 'addr']
            other = [nn for kk, nn in sites if kk == 'incdec' or (kk == 'assign' and nn.k == 'CompoundAssignOperator')]
            if other:
                return Lin.sym(('var', f.name, r['id']))
            if len(plain) == 1 and not addr:
                v = self.lin(f, plain[0], depth + 1)
                return v if v is not None else Lin.sym(('var', f.name, r['id']))
            if not plain and len(addr) == 1:
                v = self.out_param_value(f, addr[0], depth)
                if v is not None:
                    return v
            return Lin.sym(('var', f.name, r['id']))
        return Lin.sym(('opaque', f.name, n.id))

    def out_param_value(self, f, addr_node, depth):
        """&x is passed to one static helper: the single value that helper stores through that parameter"""
        c = addr_node.parent
        while c is not None and c.k != 'CallExpr':
            c = c.parent
        if c is None or not c.get('callee'):
            return None
        H = self.prog.func(c.get('callee'), f.tu)
        if H is None or H not in self.funcs:
            return None
        k = next((i for i, a in enumerate(c.ch[1:]) if a is not None and any(x is addr_node for x in a.walk())), None)
        if k is None or k >= len(H.params):
            return None
        pid = H.params[k]['id']
        stores = []
        for n in H.body.walk():
            if n.k == 'BinaryOperator' and n.get('op') == '=':
                l = strip(n.ch[0])
                if l.k == 'UnaryOperator' and l.get('op') == '*' and (decl_of(l.ch[0]) or {}).get('id') == pid:
                    stores.append(n)
            if n.k == 'CompoundAssignOperator':
                l = strip(n.ch[0])
                if l.k == 'UnaryOperator' and l.get('op') == '*' and (decl_of(l.ch[0]) or {}).get('id') == pid:
                    return None
        if len(stores) != 1:
            return None
        return self.lin(H, stores[0].ch[1], depth + 1)

    # ---- where does this pointer come from? ----------------------------------------------------
    def buffer_origin(self, f, e, depth=0):
        """(function, decl id) of the variable that received the allocation the pointer expression stands for"""
        d = decl_of(e) if e is not None else None
        if d is None or depth > 8:
            return None
        if d.get('kind') == 'parm':
            if any(k != 'decl' for k, _ in def_sites(f, d['id'])):
                return None
            ss = self.sites(f)
            outs = [self.buffer_origin(g, arg(c, d['index']), depth + 1) for g, c in ss]
            return outs[0] if outs and all(o is not None and o == outs[0] for o in outs) else None
        if any(k in ('addr', 'incdec') for k, _ in def_sites(f, d['id'])):
            return None
        defs = [strip(x) for x in def_exprs(f, d['id'])]
        defs = [x for x in defs if not (x.get('null') or x.get('v') == 0)]
        if len(defs) != 1:
            return None
        x = defs[0]
        if x.k == 'CallExpr' and x.get('callee') in ('malloc', 'calloc'):
            return (f, d['id'])
        if x.k == 'CallExpr' and x.get('callee'):
            H = self.prog.func(x.get('callee'), f.tu)
            if H is not None and H in self.funcs:
                from engine import cfg as C
                rets = [r for r in C.return_nodes(H) if r.ch and not (strip(r.ch[0]).get('null') or strip(r.ch[0]).get('v') == 0)]
                outs = [self.buffer_origin(H, r.ch[0], depth + 1) for r in rets]
                return outs[0] if outs and all(o is not None and o == outs[0] for o in outs) else None
            return None
        if x.k == 'DeclRefExpr':
            return self.buffer_origin(f, x, depth + 1)
        return None
