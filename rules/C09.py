"""C09 — concurrent exec calls from threads stay isolated and complete (locking
discipline, no other shared writes, non-reentrant API deny-list, owner cleanup)."""
from engine import cfg as C
from engine import facts
from engine.dataflow import Summaries, PtrTaint, decl_of
from engine.facts import AnalysisBroken, render, strip
from engine.pairing import Pairing
from engine.statics import static_accesses, lock_state_at, NON_REENTRANT
from rules import common
from rules.common import arg

LEVEL = 'other'

MUTEX = 'snoopy_tsrm_threadRepo_mutex'
REPO_GLOBALS = {'snoopy_tsrm_threadRepo', 'snoopy_tsrm_threadRepo_data'}
SYNC_TYPES = ('pthread_mutex_t', 'pthread_once_t', 'pthread_mutexattr_t', 'union pthread_mutex', 'pthread_mutexattr')
UNDER_LOCK_DENY = common.EMIT_APIS | {'fopen', 'open', 'read', 'fread', 'fgets', 'getline', 'connect', 'socket', 'sleep',
                                      'usleep', 'nanosleep', 'poll', 'select', 'stat', 'getpwuid_r', 'getgrgid_r',
                                      'pthread_cond_wait', 'pthread_join', 'syslog', 'getaddrinfo', 'fork', 'system'}


def writes_param_factory(prog):
    memo = {}

    def writes(func, name, i, depth=0):
        t = prog.func(name, func.tu)
        if t is None:
            return None  # external: unknown, keep conservative
        key = (t.key, i)
        if key in memo:
            return memo[key]
        memo[key] = False
        res = False
        if i < len(t.params) and depth < 6:
            pt = PtrTaint(t, lambda n: False, {t.params[i]['id']})
            if pt.stores():
                res = True
            else:
                for call, j, a in pt.pointer_args():
                    cn = call.get('callee')
                    ptypes = call.get('calleeParamTypes') or []
                    pty = ptypes[j] if j < len(ptypes) else ''
                    from engine.statics import _pointee_const
                    if _pointee_const(pty):
                        continue
                    if cn is None:
                        res = True
                        break
                    w = writes(t, cn, j, depth + 1)
                    if w is None or w:
                        res = True
                        break
        memo[key] = res
        return res
    return writes


def run(ctx):
    chk = ctx.chk
    chk.rule('K1', 'every access to the thread repository happens with the repository mutex held', floor=4)
    chk.rule('K2', 'every lock is released on every path of the acquiring function; nothing that can block or do I/O '
                   'is called under the lock', floor=4)
    chk.rule('K3', 'exactly one mutex is used on the exec path (no lock-order cycle possible)', floor=1)
    chk.rule('K4', 'no other write to static storage is reachable from the interposers; no non-reentrant libc API', floor=2)
    chk.rule('K5', 'per-thread state is keyed by pthread_self() only and is removed and freed by its owner', floor=3)
    chk.rule('K6', 'non-thread-safe build: no lock on the exec path, state confined to the two global records', floor=2)
    chk.explanation = (
        'Lockset discipline decided on all CFG paths: the lock state (held/free) is propagated through every function '
        'of the thread repository, context-sensitively for the flag-parameterised lookup (analysed with the constant '
        'and lock state of its call site); every repository access must see {held}. All writes to static-storage '
        'objects reachable from the interposers are enumerated (direct stores, stores into static arrays, storage '
        'handed to writing callees) and must be synchronisation objects, under the lock, or inside the pthread_once '
        'initialiser. Races are thus excluded for every interleaving, not sampled.')
    chk.assumptions = ['the hosts\' threads call exec concurrently but do not call snoopy internals directly',
                       'libc functions not on the deny-list are thread-safe as documented (MT-Safe)']
    chk.not_decided = ['record contents per thread under actual interleavings', 'fairness/latency of the lock']
    prog = ctx.program(facts.AS_CONFIGURED, 'lib')
    cg = ctx.callgraph(facts.AS_CONFIGURED, 'lib')
    summ = Summaries(cg)
    roots = common.entry_points(prog)
    reach = common.checked_reach(cg, prog) if roots else {}
    cg.require_resolved(within=set(reach))
    tsrm = prog.tu('src/tsrm.c')
    if tsrm is None:
        raise AnalysisBroken('src/tsrm.c is not part of the thread-safe build')
    # ---- lock states, context for functions called with the lock held ---------------------------
    tfuncs = {f.name: f for f in tsrm.functions}
    entry_held = {n: False for n in tfuncs}
    const_params = {n: {} for n in tfuncs}
    states = {}
    for _ in range(3):
        callsite_info = {}
        for n, f in tfuncs.items():
            st, _ = lock_state_at(f, MUTEX, entry_held=entry_held[n], const_params=const_params[n])
            states[n] = st
            for c in f.calls():
                cn = c.get('callee')
                if cn in tfuncs and cn != n:
                    s = st.get(c.id, set())
                    consts = {}
                    for i, a in enumerate(c.ch[1:]):
                        if a is not None and 'v' in strip(a).d:
                            consts[i] = strip(a)['v']
                    callsite_info.setdefault(cn, []).append((s, consts))
        new_held = dict(entry_held)
        new_consts = {n: {} for n in tfuncs}
        for cn, lst in callsite_info.items():
            # external callers (accessors used by other modules) call without the lock
            ext = [cs for cs in cg.callers_of(cn) if cs.caller.tu is not tsrm and cs.caller.key in reach]
            new_held[cn] = (not ext) and all(s == {'held'} for s, _ in lst)
            common_c = None
            for _, consts in lst:
                common_c = dict(consts) if common_c is None else {k: v for k, v in common_c.items() if consts.get(k) == v}
            new_consts[cn] = common_c if (common_c and not ext) else {}
        if new_held == entry_held and new_consts == const_params:
            break
        entry_held, const_params = new_held, new_consts
    # ---- K1 --------------------------------------------------------------------------------------
    once_inits = set()
    for f in prog.functions:
        for c in f.calls('pthread_once'):
            a = strip(arg(c, 1))
            if a is not None and a.k == 'UnaryOperator':
                a = strip(a.ch[0])
            if a is not None and a.k == 'DeclRefExpr':
                once_inits.add(a['ref']['name'])
    fork_handlers = set()
    for f in prog.functions:
        for c in f.calls('pthread_atfork'):
            for a in c.ch[1:]:
                s = strip(a)
                if s is not None and s.k == 'UnaryOperator':
                    s = strip(s.ch[0])
                if s is not None and s.k == 'DeclRefExpr':
                    fork_handlers.add(s['ref']['name'])
    nacc = 0
    for n, f in sorted(tfuncs.items()):
        if f.key not in reach:
            continue
        i = 0
        for node in f.body.walk():
            if node.k == 'DeclRefExpr' and node['ref']['kind'] == 'var' and node['ref']['name'] in REPO_GLOBALS:
                el = C.cfg_elem_of(f, node)
                st = states[n].get(el.id if el is not None else node.id, set())
                nacc += 1
                ok = st == {'held'} or n in once_inits
                chk.ob('K1', 'repo-access[%s#%d]' % (n, i), ok, node.where(), n,
                       'the thread repository is accessed (%s) while the mutex may not be held (lock state here: %s)' % (
                           render(el if el is not None else node)[:70], '/'.join(sorted(st)) or 'unreachable'),
                       how='lock state at this element is {held}%s' % (
                           ' (function entered with the lock held by all its callers)' if entry_held[n] else ''))
                i += 1
    # stores through pointers into the repository (a node taken from the shared list, its fields) need the lock as
    # well: a node that is linked first and filled afterwards, outside the mutex, is written while other threads read it
    from engine.dataflow import PtrTaint
    nst = 0
    for n, f in sorted(tfuncs.items()):
        if f.key not in reach or n in once_inits or n in fork_handlers:
            continue
        pt = PtrTaint(f, lambda x: any(y.k == 'DeclRefExpr' and y['ref'].get('kind') == 'var' and y['ref'].get('name') in REPO_GLOBALS
                                       for y in x.walk()), set())
        for j, stn in enumerate(pt.stores()):
            l_ = strip(stn.ch[0]) if stn.ch else None
            # a store INTO a variable that merely holds such a pointer is not a store into the repository
            if l_ is None or l_.k == 'DeclRefExpr':
                continue
            el = C.cfg_elem_of(f, stn)
            stt = states[n].get(el.id if el is not None else stn.id, set())
            nst += 1
            chk.ob('K1', 'repo-node-store[%s#%d]' % (n, j), stt == {'held'}, stn.where(), n,
                   '%s writes into a node of the shared thread repository while the mutex may not be held (lock state here: '
                   '%s): another thread walking the list under the lock reads the field at the same time' % (
                       render(stn)[:60], '/'.join(sorted(stt)) or 'unreachable'),
                   how='lock state at this store is {held}')
    chk.count('repo_node_stores', nst)
    # the list helpers are only called from tsrm.c (they carry no locking themselves)
    listtu = prog.tu('src/util/list.c')
    if listtu is not None:
        for lf in listtu.functions:
            ext = {cs.caller.name for cs in cg.callers_of(lf.name)
                   if cs.caller.tu is not tsrm and cs.caller.tu is not listtu and cs.caller.key in reach}
            chk.ob('K1', 'list-helper-private[%s]' % lf.name, not ext, lf.where(), lf.name,
                   '%s is also called from %s, outside the locked repository code' % (lf.name, ', '.join(sorted(ext))),
                   nontrivial=False)
    chk.count('repository_accesses', nacc)
    # ---- K2 --------------------------------------------------------------------------------------
    from rules.C03 import load_exceptions
    exc_rows = load_exceptions('K2')
    skip_edges = {(r['function'], r['entity']): r for r in exc_rows}
    pa = Pairing(prog, cg)
    for n, f in sorted(tfuncs.items()):
        if not f.calls('pthread_mutex_lock'):
            continue
        info = pa.analyse(f)
        bad = [x for x in info['findings'] if x.kind == 'lock-not-released']
        prepare = n in fork_handlers
        chk.ob('K2', 'lock-released[%s]' % n, not bad or prepare, f.where(), n,
               bad[0].detail if bad else '',
               how='unlock on every path' if not prepare else 'fork prepare handler (released by parent/child handlers, C10)')
        under = []
        for c in f.calls():
            st = states[n].get(c.id, set())
            if 'held' in st and c.get('callee') not in ('pthread_mutex_unlock', 'pthread_mutex_lock'):
                if may_reach_denied(cg, f, c, UNDER_LOCK_DENY, skip_edges, chk):
                    under.append(c)
        chk.ob('K2', 'nothing-blocking-under-lock[%s]' % n, not under, under[0].where() if under else f.where(), n,
               '%s runs with the repository mutex held and can block or do I/O: every other thread\'s exec stalls' % (
                   render(under[0]) if under else ''),
               how='callees under the lock reach none of %d I/O / blocking APIs' % len(UNDER_LOCK_DENY))
    # ---- K3 --------------------------------------------------------------------------------------
    mutexes = set()
    for key, (f, _, _) in reach.items():
        for c in f.calls():
            if c.get('callee') in ('pthread_mutex_lock', 'pthread_mutex_trylock', 'pthread_rwlock_wrlock',
                                   'pthread_rwlock_rdlock', 'pthread_spin_lock', 'sem_wait'):
                a = strip(arg(c, 0))
                if a is not None and a.k == 'UnaryOperator':
                    a = strip(a.ch[0])
                mutexes.add(render(a))
    chk.ob('K3', 'single-mutex', mutexes == {MUTEX}, '', '',
           'locks taken on the exec path: %s' % ', '.join(sorted(mutexes)),
           how='only %s is ever acquired' % MUTEX)
    # ---- K4 --------------------------------------------------------------------------------------
    wp = writes_param_factory(prog)
    nwrites = 0
    per_var = {}
    for key, (f, _, _) in sorted(reach.items(), key=lambda kv: str(kv[0])):
        for a in static_accesses(f, writes_param=wp):
            nwrites += 1
            if any(t in a.vtype for t in SYNC_TYPES):
                continue
            if a.node.k == 'CallExpr' and (a.node.get('callee') or '').startswith('pthread_'):
                continue  # the object is a synchronisation primitive operated by the pthread API
            if f.name in once_inits:
                continue
            st = states.get(f.name, {}).get(C.cfg_elem_of(f, a.node).id if C.cfg_elem_of(f, a.node) else a.node.id, set()) \
                if f.name in tfuncs else set()
            if st == {'held'}:
                continue
            per_var.setdefault((f.name, a.var), []).append(a)
    for (fn, var), lst in sorted(per_var.items()):
        a = lst[0]
        chk.ob('K4', 'static-write[%s:%s]' % (fn, var), False, a.node.where(), fn,
               '%s %s is written without synchronisation on the exec path (%s): concurrent calls race on it' % (
                   'function-local static' if a.static_local else 'global', var, a.how))
    chk.ob('K4', 'static-write-sites-enumerated', True, '', '', nontrivial=False,
           how='%d static-storage write sites in %d reachable functions: all are synchronisation objects, under the '
               'mutex, or in the pthread_once initialiser' % (nwrites, len(reach)))
    bad = [(e, cs) for e, cs in cg.external_calls(reach) if e in NON_REENTRANT]
    seen = set()
    for e, cs in bad:
        k = (e, cs.caller.name)
        if k in seen:
            continue
        seen.add(k)
        chk.ob('K4', 'non-reentrant[%s@%s]' % (e, cs.caller.name), False, cs.node.where(), cs.caller.name,
               '%s() uses process-wide hidden state and is reachable from concurrent exec calls: %s' % (
                   e, cg.describe_path(reach, cs.caller.key)))
    chk.ob('K4', 'non-reentrant-deny-list-scanned', True, '', '', nontrivial=False,
           how='%d external call sites checked against %d APIs' % (len(cg.external_calls(reach)), len(NON_REENTRANT)))
    # address of a mutable global escaping into ordinary code: state shared by all threads
    shared = []
    for key, (f, _, _) in sorted(reach.items(), key=lambda kv: str(kv[0])):
        for n in f.body.walk():
            if n.k == 'UnaryOperator' and n['op'] == '&':
                t = strip(n.ch[0])
                if t.k == 'DeclRefExpr' and t['ref']['kind'] == 'var' and t['ref'].get('staticStorage'):
                    p = n.parent
                    while p is not None and p.k in ('ImplicitCastExpr', 'ParenExpr', 'CStyleCastExpr'):
                        p = p.parent
                    if p is not None and p.k == 'CallExpr' and (p.get('callee') or '').startswith('pthread_'):
                        continue
                    if 'const' in (t.get('ct') or '').split('*')[0].split() and not (t.get('ct') or '').endswith(']'):
                        continue
                    if f.name in once_inits:
                        continue
                    shared.append((f, n, t['ref']['name']))
    for f, n, name in shared:
        chk.ob('K4', 'shared-global-by-address[%s:%s]' % (f.name, name), False, n.where(), f.name,
               '&%s is handed out in the thread-safe build: every thread then reads and writes the same record '
               '(per-call data of concurrent exec calls overwrite each other)' % name)
    chk.ob('K4', 'no-global-record-shared-by-address', True, '', '', nontrivial=False,
           how='%d address-of-global expressions outside pthread calls in %d reachable functions' % (len(shared), len(reach)))
    # ---- K5 --------------------------------------------------------------------------------------
    G = prog.require_func('snoopy_tsrm_getCurrentThreadId')
    rets = C.return_nodes(G)
    ok = len(rets) == 1 and strip(rets[0].ch[0]).k == 'CallExpr' and strip(rets[0].ch[0]).get('callee') == 'pthread_self'
    chk.ob('K5', 'thread-id-is-pthread_self', ok, G.where(), G.name, 'thread identity is %s' % render(rets[0]) if rets else '')
    N = common.thread_data_maker(prog)
    stored = False
    for n in [x for g in common.with_helpers(prog, N) for x in g.body.walk()]:
        if n.k == 'BinaryOperator' and n['op'] == '=':
            l, r = strip(n.ch[0]), decl_of(n.ch[1])
            if l.k == 'MemberExpr' and l['member'] == 'threadId' and r is not None and r['kind'] == 'parm':
                stored = True
            elif l.k == 'MemberExpr' and l['member'] == 'threadId' and r is not None and r['kind'] == 'var':
                # the maker merged into the constructor: the id is the constructor's own "current thread" variable
                from engine.dataflow import def_exprs as _de
                root_ = common.alias_root(N, r['id'])
                if any(p_['id'] == root_ for p_ in N.params):
                    stored = True       # a helper's parameter that is a plain copy of the maker's own thread-id parameter
                ds_ = [strip(x) for x in _de(N, root_)]
                if ds_ and all(x.k == 'CallExpr' and x.get('callee') in ('pthread_self', 'snoopy_tsrm_getCurrentThreadId') for x in ds_):
                    stored = True
    chk.ob('K5', 'record-keyed-by-creator', stored, N.where(), N.name, 'the new record does not store the creating thread id')
    for fn in ('snoopy_tsrm_doesThreadRepoEntryExist', 'snoopy_tsrm_getCurrentThreadRepoEntry'):
        f = prog.require_func(fn)
        # the comparison may sit in a file-local search helper shared by the two lookups
        eq = [c for g in common.with_helpers(prog, f) for c in g.calls('pthread_equal')]
        ok = len(eq) >= 1
        for c in eq:
            sides = [strip(a) for a in c.ch[1:]]
            ok = ok and any(s.k == 'MemberExpr' and s['member'] == 'threadId' for s in sides)
        chk.ob('K5', 'lookup-by-pthread_equal[%s]' % fn, ok, f.where(), fn,
               'the lookup does not compare record->threadId with pthread_equal()')
    C0 = prog.require_func('snoopy_tsrm_ctor')
    D0 = prog.require_func('snoopy_tsrm_dtor')
    ok = bool(D0.calls('snoopy_util_list_remove')) and bool(C0.calls('snoopy_util_list_push'))
    rm = D0.calls('snoopy_util_list_remove')
    own = False
    for c in rm:
        d = decl_of(arg(c, 1))
        if d is not None:
            from engine.dataflow import def_exprs
            own = any(strip(x).k == 'CallExpr' and strip(x).get('callee') == 'snoopy_tsrm_getCurrentThreadRepoEntry'
                      for x in def_exprs(D0, d['id']))
    chk.ob('K5', 'owner-removes-own-entry', ok and own, D0.where(), D0.name,
           'the destructor does not remove the entry found for the calling thread',
           how='dtor removes the node returned by getCurrentThreadRepoEntry()')
    # the registered-thread count follows every insertion and removal
    def is_count_step(e, op):
        return e.k == 'UnaryOperator' and e['op'] == op and strip(e.ch[0]).k == 'MemberExpr' and \
            strip(e.ch[0]).get('member') == 'count' or \
            (e.k == 'CompoundAssignOperator' and e['op'] == ('+=' if op == '++' else '-=') and
             strip(e.ch[0]).k == 'MemberExpr' and strip(e.ch[0]).get('member') == 'count')
    R = prog.require_func('snoopy_util_list_remove')
    frees = [c for c in R.calls('free') if (decl_of(arg(c, 0)) or {}).get('kind') == 'parm']
    okc = bool(frees)
    for c in frees:
        if not (C.always_preceded(R, c, lambda e: is_count_step(e, '--')) or C.always_followed(R, c, lambda e: is_count_step(e, '--'))):
            okc = False
    chk.ob('K5', 'count-follows-removal', okc, frees[0].where() if frees else R.where(), R.name,
           'a path of %s unlinks and frees a node without decrementing list->count: the registered-thread count drifts, '
           'a later lone call no longer sees exactly one thread' % R.name,
           how='every free(node) is accompanied by count-- on all paths')
    PU = prog.require_func('snoopy_util_list_push')
    okp = C.must_pass_through(PU, lambda e: is_count_step(e, '++') or
                              (e.k == 'CallExpr' and e.get('callee') == 'snoopy_error_handler'))
    chk.ob('K5', 'count-follows-insertion', okp, PU.where(), PU.name,
           'a path of %s links a node without incrementing list->count' % PU.name)
    # ---- K6 --------------------------------------------------------------------------------------
    chk.variant = 'ts-off'
    p2 = ctx.program(facts.TS_OFF, 'lib')
    cg2 = ctx.callgraph(facts.TS_OFF, 'lib')
    r2 = cg2.reachable(common.entry_points(p2))
    pth = [(e, cs) for e, cs in cg2.external_calls(r2) if e.startswith('pthread_') and e not in ('pthread_self', 'pthread_equal')]
    chk.ob('K6', 'no-pthread-calls', not pth, pth[0][1].node.where() if pth else '', '',
           '%s reachable in the non-thread-safe build' % (pth[0][0] if pth else ''),
           how='%d reachable functions, no pthread_* call' % len(r2))
    recs = set()
    for key, (f, _, _) in r2.items():
        for n in f.body.walk():
            if n.k == 'UnaryOperator' and n['op'] == '&':
                s = strip(n.ch[0])
                if s.k == 'DeclRefExpr' and s['ref']['kind'] == 'var' and s['ref'].get('fileScope'):
                    recs.add(s['ref']['name'])
    expect = {'snoopy_configuration_data', 'snoopy_inputdatastorage_data'}
    chk.ob('K6', 'state-confined-to-two-records', recs == expect, '', '',
           'global records referenced by address: %s' % ', '.join(sorted(recs)),
           how='only %s' % ', '.join(sorted(expect)))
    chk.variant = 'as-configured'


def may_reach_denied(cg, f, call, deny, skip_edges, chk):
    """can executing `call` (in f) reach a call to an API in `deny`?  Call edges listed in
    skip_edges (caller name, callee name) are excepted, with the reason recorded."""
    seen = set()
    todo = []
    for cs in cg.callees(f):
        if cs.node.id == call.id:
            for t in cs.targets:
                if isinstance(t, str):
                    if t[4:] in deny:
                        return True
                else:
                    todo.append(t)
    while todo:
        g = todo.pop()
        if g.key in seen:
            continue
        seen.add(g.key)
        for cs in cg.callees(g):
            for t in cs.targets:
                tn = t[4:] if isinstance(t, str) else t.name
                if (g.name, tn) in skip_edges:
                    row = skip_edges[(g.name, tn)]
                    if row not in chk.exceptions_used:
                        chk.exceptions_used.append(row)
                    continue
                if isinstance(t, str):
                    if tn in deny:
                        return True
                else:
                    todo.append(t)
    return False
