"""C08 — configuration file is parsed to the documented values with safe fallbacks
(table / field / syslog-table agreement, clamp, isolation, total defaults)."""
import re

from engine import cfg as C
from engine import cpp, facts
from engine.bounds import BoundsAnalysis
from engine.dataflow import decl_of, def_exprs
from engine.facts import AnalysisBroken, render, strip
from rules import common
from rules.common import arg
from rules.C02 import derive_limits, unchecked_signed_arith, TEXT_TO_INT
from rules.C11 import field_stores, CFG_RECORD

LEVEL = 'other'
TABLE = 'snoopy_configfile_optionRegistry'
CALLBACK = 'snoopy_configfile_iniParser_callback'


def table_rows(prog):
    g = prog.global_var(TABLE)
    if g is None or g.init is None:
        raise AnalysisBroken('%s not found' % TABLE)
    rows = []
    for r in strip(g.init).ch:
        r = strip(r)
        if r is None or r.k != 'InitListExpr':
            continue
        name = strip(r.ch[0])
        data = strip(r.ch[1]) if len(r.ch) > 1 else None
        fn = []
        ty = None
        if data is not None and data.k == 'InitListExpr':
            ty = strip(data.ch[0]).get('v') if data.ch else None
            for c in data.ch[1:]:
                s = strip(c)
                if s is not None and s.k == 'UnaryOperator' and s['op'] == '&':
                    s = strip(s.ch[0])
                fn.append(s['ref']['name'] if s is not None and s.k == 'DeclRefExpr' else None)
        rows.append((name.get('s') if name is not None and name.k == 'StringLiteral' else None, ty, fn, r))
    return g, rows


def cfg_fields_read(func):
    out = set()
    for n in func.body.walk():
        if n.k == 'MemberExpr' and n.get('record') == CFG_RECORD:
            p = n.parent
            # reads only
            if p is not None and p.k == 'BinaryOperator' and p['op'] == '=' and strip(p.ch[0]) is n:
                continue
            out.add(n['member'])
    return out


def syslog_pairs(func, to_int):
    """(name, value) pairs from the if/else-if chains of the syslog converters"""
    pairs = []
    for b in func.blocks.values():
        c = strip(b.cond) if b.cond is not None else None
        if c is None or c.k != 'BinaryOperator' or c['op'] != '==':
            continue
        succ_true = b.all_succs[0][0] if b.all_succs else None
        if succ_true is None:
            continue
        # the assignment on the true branch
        val = None
        for e in func.blocks[succ_true].elems:
            if e.k == 'BinaryOperator' and e['op'] == '=':
                val = strip(e.ch[1])
        if to_int:
            call = [x for x in c.walk() if x.k == 'CallExpr' and x.get('callee') == 'strcmp']
            if not call or val is None:
                continue
            lit = [strip(a) for a in call[0].ch[1:] if strip(a).k == 'StringLiteral']
            if lit and 'v' in val.d:
                pairs.append((lit[0]['s'], val['v'], val.get('macro') or val.get('inMacro')))
        else:
            l, r = strip(c.ch[0]), strip(c.ch[1])
            k = l if 'v' in l.d else (r if 'v' in r.d else None)
            if k is None or val is None or val.k != 'StringLiteral':
                continue
            pairs.append((val['s'], k['v'], k.get('macro') or k.get('inMacro')))
    if not pairs:
        pairs = syslog_table_pairs(func, to_int)
    return pairs


def syslog_table_pairs(func, to_int):
    """the same pairs when the converter scans a file-scope table of {name, value} rows instead of an if-chain:
    the rows of the table's initialiser, provided this direction compares the one column and returns the other"""
    prog = PROG[0]
    if prog is None:
        return []
    tabs = {}
    for n in func.body.walk():
        if n.k == 'MemberExpr':
            b = strip(n.ch[0])
            if b is not None and b.k == 'ArraySubscriptExpr':
                t = strip(b.ch[0])
                if t is not None and t.k == 'DeclRefExpr' and (t['ref'].get('fileScope') or t['ref'].get('staticStorage')):
                    tabs.setdefault(t['ref']['name'], []).append(n)
    for tname, uses in tabs.items():
        g = prog.global_var(tname)
        ginit = g.init if g is not None else None
        if ginit is None:
            # a table that is static inside the function
            for d_ in func.local_decls():
                if d_['name'] == tname and d_.get('init', -1) != -1:
                    ginit = func.nodes[d_['init']]
        if ginit is None or strip(ginit).k != 'InitListExpr':
            continue

        class _G:
            init = ginit
        g = _G
        isstr = lambda m: '*' in (m.get('ct') or '')
        # which column is compared, which is returned
        compared = set()
        for c in func.calls('strcmp') + func.calls('strcasecmp'):
            for a in c.ch[1:]:
                for m in (a.walk() if a is not None else ()):
                    if any(m is u for u in uses):
                        compared.add('str' if isstr(m) else 'int')
        for b in func.blocks.values():
            c = strip(b.cond) if b.cond is not None else None
            if c is not None and c.k == 'BinaryOperator' and c['op'] == '==':
                for m in c.walk():
                    if any(m is u for u in uses) and not any(x.k == 'CallExpr' for x in c.walk()):
                        compared.add('str' if isstr(m) else 'int')
        returned = set()
        ret_vars = set()
        for r in C.return_nodes(func):
            for m in (r.ch[0].walk() if r.ch else ()):
                if any(m is u for u in uses):
                    returned.add('str' if isstr(m) else 'int')
                if m.k == 'DeclRefExpr' and m['ref'].get('kind') == 'var':
                    ret_vars.add(m['ref']['id'])
        # result variable filled from the table and returned at the single exit
        for a_ in func.body.walk():
            if a_.k == 'BinaryOperator' and a_.get('op') == '=' and (decl_of(a_.ch[0]) or {}).get('id') in ret_vars:
                for m in a_.ch[1].walk():
                    if any(m is u for u in uses):
                        returned.add('str' if isstr(m) else 'int')
        want = ({'str'}, {'int'}) if to_int else ({'int'}, {'str'})
        if (compared, returned) != want:
            continue
        rows = []
        for row in strip(g.init).ch:
            row = strip(row)
            if row is None or row.k != 'InitListExpr':
                continue
            lits = [strip(x) for x in row.ch if x is not None and strip(x).k == 'StringLiteral']
            nums = [strip(x) for x in row.ch if x is not None and 'v' in strip(x).d and strip(x).k != 'StringLiteral']
            if len(lits) == 1 and len(nums) == 1:
                rows.append((lits[0]['s'], nums[0]['v'], nums[0].get('macro') or nums[0].get('inMacro')))
        return rows
    return []


def run(ctx):
    chk = ctx.chk
    PROG[0] = None
    chk.rule('T1', 'option table: every row {"X", parseValue_X, getOptionValueAsString_X} is self-consistent, names are '
                   'unique, the terminator is last, the set of names equals the options documented in etc/snoopy.ini.in', floor=10)
    chk.rule('T2', 'field wiring: parseValue_X writes exactly the configuration fields getOptionValueAsString_X reads', floor=8)
    chk.rule('T3', 'syslog tables: the (name, LOG_*) pairs of ...ToInt and ...ToStr are equal, bijective, and each name is '
                   'the macro\'s suffix', floor=4)
    chk.rule('T7', 'a value is unquoted only when its first and last character are the same quote character', floor=2)
    chk.rule('T4', 'length parser: every non-default return passes both clamps, limits come from it with the documented '
                   'bounds, no overflowing arithmetic on the converted number', floor=3)
    chk.rule('T9', 'output = NAME without ":" configures NAME with an empty argument: on every path where no separator was '
                   'found and the name is a known output, the last value stored into output_arg is the empty literal', floor=1)
    chk.rule('T11', 'string options are stored whole: the heap value put into the configuration is strdup() of the option '
                    'text (or of a pointer into it), never a length-bounded or fixed-buffer copy', floor=3)
    chk.rule('T12', '`snoopyctl conf` prints each value exactly as the library renders it (a %s of the returned string, '
                    'which nothing modifies in between)', floor=1)
    chk.rule('T5', 'isolation: a foreign section or unknown name returns from the callback without touching the '
                   'configuration; configuration fields are only written by parsers, defaults, destructor and loader', floor=3)
    chk.rule('T6', 'defaults are total: setDefaults assigns every field of the configuration record', floor=15)
    chk.explanation = (
        'Agreement checks between things that must agree (table rows, the parser and the printer of each option, the '
        'two directions of the syslog name tables, struct fields and defaults), isolation of unknown input by CFG path '
        'analysis of the inih callback, and the clamp/overflow obligations of the byte-length parser decided by the '
        'linear-inequality engine for all numbers.')
    chk.assumptions = ['inih implements the INI grammar (sections, separators, comments, quotes, BOM, continuation)']
    chk.not_decided = ['value semantics per option text (quote stripping, boolean by first letter, k/m arithmetic value, '
                       'last occurrence wins beyond the no-leak rule of C16), the snoopyctl conf round trip as a string '
                       'identity']
    prog = ctx.program(facts.AS_CONFIGURED, 'lib')
    PROG[0] = prog
    cg = ctx.callgraph(facts.AS_CONFIGURED, 'lib')
    # ---- T1 --------------------------------------------------------------------------------------
    g, rows = table_rows(prog)
    names = [r[0] for r in rows]
    chk.ob('T1', 'terminator-last', bool(rows) and names[-1] == '' and '' not in names[:-1], g.where(), TABLE,
           'the option table must end with the single "" row (names: %s)' % names, nontrivial=False)
    seen = set()
    for name, ty, fn, node in rows[:-1]:
        ok = name is not None and len(fn) == 2 and fn[0] == 'snoopy_configfile_parseValue_' + name and \
            fn[1] == 'snoopy_configfile_getOptionValueAsString_' + name
        chk.ob('T1', 'row[%s]' % name, ok, node.where(), TABLE,
               'row "%s" is wired to %s: the option is parsed or printed by another option\'s code' % (name, fn),
               how='"%s" <-> %s' % (name, ', '.join(str(x) for x in fn)))
        chk.ob('T1', 'unique[%s]' % name, name not in seen, node.where(), TABLE, 'option "%s" listed twice' % name,
               nontrivial=False)
        seen.add(name)
    doc = open(ctx.path('etc/snoopy.ini.in')).read()
    documented = set(re.findall(r'^;?\s*(\w+)\s*=', doc, re.M)) & (
        seen | {m.group(1) for m in re.finditer(r'^;(\w+)\s*=\s*', doc, re.M)})
    documented = {d for d in documented if d not in ('Examples',)}
    cand = {m.group(1) for m in re.finditer(r'^;(\w+) = ', doc, re.M)}
    chk.ob('T1', 'table-equals-documentation', seen == cand, 'etc/snoopy.ini.in', '',
           'options in the table but not documented: %s; documented but not in the table: %s' % (
               sorted(seen - cand), sorted(cand - seen)),
           how='%d options in both' % len(seen & cand))
    sentinel_rule(ctx, prog)
    # lookup uses the same index for name and parser
    CB = prog.require_func(CALLBACK)
    ind = [c for c in CB.calls() if c.get('callee') is None]
    ok = len(ind) == 1
    if ok:
        ce = strip(ind[0].ch[0])
        sub = [n for n in ce.walk() if n.k == 'ArraySubscriptExpr']
        idx = decl_of(sub[0].ch[1]) if sub else None
        from engine.dataflow import def_exprs
        defs = def_exprs(CB, idx['id']) if idx else []
        ok = bool(defs) and all(strip(d).k == 'CallExpr' and strip(d).get('callee') == 'snoopy_configfile_optionRegistry_getIdFromName'
                                and (decl_of(arg(strip(d), 0)) or {}).get('index') == 2 for d in defs)
    chk.ob('T1', 'callback-indexes-by-name-lookup', ok, CB.where(), CB.name,
           'the callback does not call the parser at the index returned for the option name')
    # ---- T2 --------------------------------------------------------------------------------------
    flags = {f['name'] for f in prog.record(CFG_RECORD)['fields'] if f['name'].endswith('_malloced')}
    for name, ty, fn, node in rows[:-1]:
        if len(fn) != 2 or None in fn:
            continue
        P, G2 = prog.func(fn[0]), prog.func(fn[1])
        if P is None or G2 is None:
            chk.ob('T2', 'wiring[%s]' % name, False, node.where(), TABLE, 'parser or printer of %s not defined' % name)
            continue
        W = set(field_stores(P)) - flags
        R = cfg_fields_read(G2) - flags
        chk.ob('T2', 'wiring[%s]' % name, W == R and bool(W), P.where(), P.name,
               'option "%s": the parser writes %s but `snoopyctl conf` prints %s — the value shown is not the value set' % (
                   name, sorted(W), sorted(R)),
               how='writes == reads == %s' % sorted(W))
    # ---- T3 --------------------------------------------------------------------------------------
    for kind in ('Facility', 'Level'):
        TI = prog.require_func('snoopy_util_syslog_convert%sToInt' % kind)
        TS = prog.require_func('snoopy_util_syslog_convert%sToStr' % kind)
        pi, ps = syslog_pairs(TI, True), syslog_pairs(TS, False)
        si, ss = {(n, v) for n, v, m in pi}, {(n, v) for n, v, m in ps}
        # the printed name of every value reads back as that value (the round trip of `snoopyctl conf`).  Further names
        # that ...ToInt accepts are aliases: fine when they name a value that has a printed name, and when the
        # documentation lists them (the option "takes the value its documentation gives")
        aliases = si - ss
        vals_s = {v for n, v in ss}
        doc3 = open(ctx.path('etc/snoopy.ini.in')).read()
        bad_alias = sorted((n, v) for n, v in aliases if v not in vals_s or not re.search(
            r'(?<![A-Za-z0-9_])%s(?![A-Za-z0-9_])' % re.escape(n), doc3, re.I))
        chk.ob('T3', 'tables-agree[%s]' % kind, ss <= si and len(ss) >= 8 and not bad_alias, TI.where(), TI.name,
               'name->value pairs differ between the two directions: only in ToInt %s (neither a printed name nor a '
               'documented alias of a printable value), only in ToStr %s' % (bad_alias, sorted(ss - si)),
               how='%d pairs in both directions, %d documented alias(es)' % (len(si & ss), len(aliases)))
        bij = len({n for n, v in ss}) == len(ss) and len({v for n, v in ss}) == len(ss) and len({n for n, v in si}) == len(si)
        chk.ob('T3', 'bijective[%s]' % kind, bij, TI.where(), TI.name,
               'a name is given two values, or a value is printed under two names')
        canon = {n for n, v in ss}
        bad = [(n, m) for n, v, m in pi if m and m != 'LOG_' + n and n in canon]
        chk.ob('T3', 'name-is-macro-suffix[%s]' % kind, not bad, TI.where(), TI.name,
               'name/macro mismatch: %s' % bad, how='every name X maps to LOG_X')
        # nothing but the table's values (and the not-found value) comes out of ...ToInt: a value computed from the text
        # (a decimal code, a shifted number) would be an accepted spelling the documentation does not have
        leaves, unknown = _returned_leaves(prog, TI)
        tvals = {v for n, v in si}
        computed = [e for e in leaves if _from_text_conversion(TI, e)]
        stray = [e for e in leaves if 'v' in strip(e).d and strip(e)['v'] >= 0 and strip(e)['v'] not in tvals]
        if not computed and not stray and unknown:
            raise AnalysisBroken('%s returns %s: neither a constant, nor a table field, nor a number converted from the '
                                 'text' % (TI.name, render(unknown[0])[:60]))
        badv = (computed or stray or [None])[0]
        chk.ob('T3', 'only-table-values-returned[%s]' % kind, not computed and not stray, (badv or TI).where(), TI.name,
               '%s can return %s, which is %s: a text that is none of the documented names is accepted and sets a %s the '
               'documentation does not have, instead of leaving the default in force' % (
                   TI.name, render(badv)[:50] if badv is not None else '',
                   'computed from a number converted from the text' if computed else 'not a value of the name table',
                   kind.lower()),
               how='returns: %d table value(s)/field read(s), and the not-found value' % len(leaves))
        # every value of the name table is accepted by the option parser (not only "most")
        PV = prog.func('snoopy_configfile_parseValue_syslog_' + kind.lower())
        if PV is not None:
            conv = PV.calls(TI.name)
            okv = len(conv) == 1
            detailv = 'the option parser does not call %s' % TI.name
            if okv:
                h = common.holder(PV, conv[0])
                fld = 'syslog_' + kind.lower()
                vals = sorted(v for n, v in si)
                # the not-found value: what ToInt yields on its final else
                rejected = []
                for v in vals:
                    if not value_is_stored(PV, h, v, fld):
                        rejected.append(v)
                okv = not rejected
                names_rej = [n for n, v in si if v in rejected]
                detailv = 'the parser of syslog_%s does not store the table value(s) %s (%s): those names silently fall ' \
                          'back to the default' % (kind.lower(), rejected, ', '.join(sorted(names_rej)))
            chk.ob('T3', 'parser-accepts-every-table-value[%s]' % kind, okv, PV.where(), PV.name, detailv,
                   how='for each of the %d table values the branch storing the converted value is taken' % len(si))
    # ---- T7: quote stripping ----------------------------------------------------------------------------
    quote_rule(ctx, prog)
    # ---- T4 --------------------------------------------------------------------------------------
    ba = BoundsAnalysis(prog, cg)
    # derive_limits records obligations under rule D1 of C02; rename here
    class Shim:
        pass
    real_ob = chk.ob

    def ob(rule, key, ok, *a, **k):
        return real_ob('T4' if rule == 'D1' else rule, key, ok, *a, **k)
    chk.ob = ob
    try:
        derive_limits(ctx, prog, cg, ba)
    finally:
        chk.ob = real_ob
    P = prog.require_func('snoopy_util_parser_strByteLength')
    PROG[0] = prog
    for c in P.calls():
        if c.get('callee') in TEXT_TO_INT:
            h = common.holder(P, c)
            bad = unchecked_signed_arith(P, c, h) if h is not None else None
            chk.ob('T4', 'no-overflow[%s]' % c['callee'], bad is None, (bad or c).where(), P.name,
                   'the converted number takes part in signed arithmetic %s without a range check: results wrap, so the '
                   'value is not monotone in the number' % (render(bad) if bad is not None else ''))
    # the number times the unit factor: with a number clamped to the maximum (2^20 - 1) and the factor for "m" (2^20)
    # the product reaches 2^40, so it has to be formed in a 64-bit type; in a 32-bit one it wraps and the result is
    # no longer monotone in the number ("4096m" gives 255)
    for c in P.calls():
        if c.get('callee') in TEXT_TO_INT:
            h = common.holder(P, c)
            if h is None:
                continue
            tainted = {h}
            grew = True
            while grew:
                grew = False
                for d_ in P.local_decls():
                    if d_['id'] in tainted:
                        continue
                    if any(any(n_.k == 'DeclRefExpr' and n_['ref'].get('id') in tainted for n_ in x.walk())
                           for x in def_exprs(P, d_['id'])):
                        tainted.add(d_['id'])
                        grew = True
            narrow = []
            nmul = 0
            for n_ in P.body.walk():
                if (n_.k == 'BinaryOperator' and n_.get('op') == '*') or (n_.k == 'CompoundAssignOperator' and n_.get('op') == '*='):
                    if not any(x.k == 'DeclRefExpr' and x['ref'].get('id') in tainted for x in n_.walk()):
                        continue
                    if all('v' in strip(x).d for x in n_.ch):
                        continue
                    nmul += 1
                    ct_ = (n_.get('ct') or '').strip()
                    if ct_ not in ('unsigned long long', 'long long', 'unsigned long', 'long'):
                        narrow.append(n_)
            chk.ob('T4', 'product-in-64-bits[%s]' % c['callee'], not narrow, (narrow[0] if narrow else c).where(), P.name,
                   'the number is multiplied in the %d-bit type %s (%s): the maximum times the factor for "m" is 2^40, the '
                   'product wraps and the result is not monotone in the number' % (
                       32, (narrow[0].get('ct') or '?') if narrow else '', render(narrow[0])[:50] if narrow else ''),
                   how='%d multiplication(s) with the parsed number, all in a 64-bit type' % nmul)
    # sizeof of a pointer is the size of the pointer: as the bound of the digit scan it reads 6 digits and takes the 7th for
    # a suffix ("1000000" becomes 100000)
    ptr_sizeof = [n_ for g_ in common.with_helpers(prog, P) for n_ in g_.body.walk()
                  if n_.k == 'UnaryExprOrTypeTraitExpr' and n_.get('trait') == 'sizeof' and n_.ch and n_.ch[0] is not None and
                  (strip(n_.ch[0]).get('ct') or n_.ch[0].get('ct') or '').rstrip().endswith('*') or
                  (n_.k == 'UnaryExprOrTypeTraitExpr' and n_.get('trait') == 'sizeof' and n_.ch and n_.ch[0] is not None and
                   'const' in (n_.ch[0].get('ct') or '') and (n_.ch[0].get('ct') or '').replace('const', '').rstrip().endswith('*'))]
    chk.ob('T4', 'no-sizeof-of-a-pointer', not ptr_sizeof, (ptr_sizeof[0] if ptr_sizeof else P).where(), P.name,
           '%s is the size of a pointer (%s bytes), not of the text or buffer it points to: a length bound built from it stops '
           'the digit scan early, and a number with more digits is read as a shorter one' % (
               render(ptr_sizeof[0])[:40] if ptr_sizeof else '', ptr_sizeof[0].get('v') if ptr_sizeof else ''),
           how='every sizeof in the length parser is applied to an array or a type', nontrivial=False)
    # the conversion routine accepts more than "digits" (white space, a sign): what it is given must be digits
    for c in P.calls():
        if c.get('callee') in TEXT_TO_INT:
            okd, why = digits_only_input(P, c)
            chk.ob('T4', 'digits-only-input[%s]' % c['callee'], okd, c.where(), P.name,
                   '%s also accepts leading white space and a sign, and its input %s: "-1" or " 300" are then taken as '
                   'numbers (a negative one wraps to the maximum) instead of leaving the default' % (c['callee'], why),
                   how=why)
    # ---- T11: string options keep the whole text; T12: snoopyctl conf prints values unchanged ------------------
    string_options_stored_whole(ctx, prog, rows)
    conf_prints_values_unchanged(ctx)
    # ---- T9: "output = NAME" without ":" means an empty argument --------------------------------------------
    output_without_argument_rule(ctx, prog)
    # ---- booleans: a character searched in a set of letters must not be the terminator -----------------------
    boolean_needle_rule(ctx, prog)
    # ---- T5 --------------------------------------------------------------------------------------
    sec = [c for c in CB.calls('strcmp') if any(strip(a).k == 'StringLiteral' and strip(a).get('s') == 'snoopy' for a in c.ch[1:])]
    ok = len(sec) == 1
    detail = 'the callback does not compare the section with "snoopy"'
    if ok:
        isx = common.is_result_of(CB, sec[0])
        for b in common.blocks_testing(CB, isx):
            ce = common.compare_edges(b, isx)
            if ce is None:
                continue
            v, eq, ne = ce
            foreign = ne if v == 0 else eq
            visited, _ = common.reach_from_edge(CB, b, foreign)
            hit = [CB.nodes[i] for i in visited if CB.nodes[i].k == 'CallExpr' and CB.nodes[i].get('callee') != 'strcmp']
            if hit:
                ok = False
                detail = 'for a foreign section the callback still runs %s' % render(hit[0])
    chk.ob('T5', 'foreign-section-ignored', ok, CB.where(), CB.name, detail,
           how='the section != "snoopy" edge reaches no call')
    direct = field_stores(CB)
    chk.ob('T5', 'callback-stores-nothing-itself', not direct, CB.where(), CB.name,
           'the callback writes %s directly' % sorted(direct))
    allowed_prefix = ('snoopy_configfile_parseValue_', 'snoopy_configuration_setDefaults', 'snoopy_configuration_dtor',
                      'snoopy_configfile_load', 'snoopy_configuration_setUninitialized')
    # the error handler switches error logging off while it emits its own record and on again
    # afterwards (re-entrancy guard, C03 B6): one field, restored on the only path through it
    allowed_fields = {'snoopy_error_handler': {'error_logging_enabled'}}
    extra = []
    for f in prog.functions:
        st = field_stores(f)
        if f.name in allowed_fields and set(st) <= allowed_fields[f.name]:
            restored = True
            for fld, nodes in st.items():
                last = max(nodes, key=lambda n: (n.get('line') or 0, n.id))
                v = strip(last.ch[1]).get('v') if last.k == 'BinaryOperator' else None
                restored = restored and v == common.macro_value(ctx.repo, 'SNOOPY_TRUE') and \
                    C.always_followed(f, nodes[0], lambda e, l=last: e is l) if len(nodes) > 1 else False
            if restored:
                continue
        if st and not f.name.startswith(allowed_prefix):
            extra.append((f, sorted(st)))
    # a helper that is only ever called by the listed writers (a static function extracted from a parser, say) is part
    # of them: what matters is who can cause the store
    changed = True
    ok_helpers = set()
    while changed:
        changed = False
        for f, flds in list(extra):
            callers = [cs.caller for cs in cg.callers_of(f.name)]
            if callers and all(c.name.startswith(allowed_prefix) or c.key in ok_helpers for c in callers):
                ok_helpers.add(f.key)
                extra.remove((f, flds))
                changed = True
    chk.ob('T5', 'configuration-writers', not extra, extra[0][0].where() if extra else '', '',
           'configuration fields are also written by %s (%s)' % (extra[0][0].name if extra else '', extra[0][1] if extra else ''),
           how='only parsers, setDefaults, the destructor and the loader store into %s' % CFG_RECORD)
    # unknown name: NOT_SUPPORTED edge reaches no parser
    # ---- T6 --------------------------------------------------------------------------------------
    SD = prog.require_func('snoopy_configuration_setDefaults')
    st = field_stores(SD)
    for fld in [f['name'] for f in prog.record(CFG_RECORD)['fields']]:
        nodes = st.get(fld, [])
        ok = bool(nodes) and C.must_pass_through(SD, lambda e, ids={n.id for n in nodes}: e.id in ids)
        chk.ob('T6', 'default[%s]' % fld, ok, nodes[0].where() if nodes else SD.where(), SD.name,
               'setDefaults does not assign %s on every path' % fld, nontrivial=False)


def eval_cond(c, var_id, value):
    """evaluate a simple condition over one integer variable for a concrete value; None if unknown"""
    c = strip(c)
    if c is None:
        return None
    if c.k == 'UnaryOperator' and c['op'] == '!':
        r = eval_cond(c.ch[0], var_id, value)
        return None if r is None else (not r)
    if c.k == 'BinaryOperator' and c['op'] in ('==', '!=', '<', '<=', '>', '>='):
        def val(x):
            x = strip(x)
            d = decl_of(x)
            if d is not None and d['id'] == var_id:
                return value
            return x.get('v')
        a, b = val(c.ch[0]), val(c.ch[1])
        if a is None or b is None:
            return None
        return {'==': a == b, '!=': a != b, '<': a < b, '<=': a <= b, '>': a > b, '>=': a >= b}[c['op']]
    d = decl_of(c)
    if d is not None and d['id'] == var_id:
        return value != 0
    return None


def value_is_stored(PV, holder_id, value, field):
    """following the branches that test the converted value, is the path for `value` one that stores
    the converted variable itself into the field?"""
    bid = PV.entry
    seen = set()
    stored = None
    while bid is not None and bid not in seen:
        seen.add(bid)
        b = PV.blocks[bid]
        for e in b.elems:
            if e.k == 'BinaryOperator' and e['op'] == '=':
                l = strip(e.ch[0])
                if l.k == 'MemberExpr' and l.get('member') == field:
                    d = decl_of(e.ch[1])
                    stored = d is not None and d['id'] == holder_id
        nxt = None
        live = [(s, u) for s, u in b.all_succs if s is not None and not u]
        if b.cond is not None and len(b.all_succs) == 2 and any(
                n.k == 'DeclRefExpr' and n['ref'].get('id') == holder_id for n in b.cond.walk()):
            r = eval_cond(b.cond, holder_id, value)
            if r is None:
                return True  # cannot evaluate: do not claim a rejection
            nxt = b.all_succs[0 if r else 1][0]
        elif len(live) >= 1:
            nxt = live[0][0]
        bid = nxt
    return bool(stored)


def is_last_index(P, idx, base_id, depth=0):
    """idx is strlen(base) - 1, directly or through a variable holding strlen(base)"""
    from engine.dataflow import def_exprs
    idx = strip(idx)
    if idx is None or depth > 3:
        return False
    if idx.k == 'BinaryOperator' and idx['op'] == '-' and strip(idx.ch[1]).get('v') == 1:
        a = strip(idx.ch[0])
        if a.k == 'CallExpr' and a.get('callee') == 'strlen' and (decl_of(arg(a, 0)) or {}).get('id') == base_id:
            return True
        d = decl_of(a)
        if d is not None:
            return any(strip(x).k == 'CallExpr' and strip(x).get('callee') == 'strlen' and
                       (decl_of(arg(strip(x), 0)) or {}).get('id') == base_id for x in def_exprs(P, d['id']))
    d = decl_of(idx)
    if d is not None:
        return any(is_last_index(P, x, base_id, depth + 1) for x in def_exprs(P, d['id']))
    return False


SENTINEL_LOOKUPS = ('snoopy_configfile_optionRegistry_getIdFromName', 'snoopy_configfile_optionRegistry_getOptionValueAsString',
                    'snoopy_genericregistry_getIdFromName')


def sentinel_rule(ctx, prog):
    """the terminator row of a name table (empty name; NULL / absent function pointers) is never selected:
    wherever a lookup returns an index or calls through a row, the row's name has been found to differ from
    "" since the index last changed"""
    chk = ctx.chk
    for fname in SENTINEL_LOOKUPS:
        f = prog.func(fname)
        if f is None:
            continue
        # uses of a row: `return i` / indirect call through registry[i]
        uses = []
        for n in f.body.walk():
            if n.k == 'ReturnStmt' and n.ch and decl_of(n.ch[0]) is not None and decl_of(n.ch[0])['kind'] == 'var' and \
                    '*' not in (strip(n.ch[0]).get('ct') or ''):
                uses.append((n, decl_of(n.ch[0])['id']))
            elif n.k == 'ReturnStmt' and n.ch and strip(n.ch[0]).k == 'BinaryOperator' and strip(n.ch[0]).get('op') == '-':
                # a row cursor walked over the table: the index is `cursor - table`
                l_, r_ = decl_of(strip(n.ch[0]).ch[0]), decl_of(strip(n.ch[0]).ch[1])
                if l_ is not None and r_ is not None and l_['kind'] == 'var' and (
                        r_['kind'] == 'parm' or r_.get('fileScope') or r_.get('staticStorage')):
                    uses.append((n, l_['id']))
            if n.k == 'CallExpr' and n.get('callee') is None:
                sub = [x for x in n.ch[0].walk() if x.k == 'ArraySubscriptExpr']
                if sub and decl_of(sub[0].ch[1]) is not None:
                    uses.append((n, decl_of(sub[0].ch[1])['id']))
                elif not sub:
                    # through a row cursor: cursor->member(...)
                    cur = [x for x in n.ch[0].walk() if x.k == 'MemberExpr' and x.get('arrow') and
                           (decl_of(x.ch[0]) or {}).get('kind') == 'var']
                    if cur:
                        uses.append((n, decl_of(cur[0].ch[0])['id']))
        # one exit with a result variable: `return result` selects nothing itself - the selections are the assignments
        # that give the result a row index (cursor - table, or the loop index)
        row_vars = set()
        for b_ in f.blocks.values():
            c_ = b_.cond
            if c_ is None:
                continue
            for x in c_.walk():
                if x.k == 'MemberExpr' and x.get('arrow') and decl_of(x.ch[0]) is not None and decl_of(x.ch[0]).get('kind') == 'var':
                    row_vars.add(decl_of(x.ch[0])['id'])
                if x.k == 'ArraySubscriptExpr' and decl_of(x.ch[1]) is not None and decl_of(x.ch[1]).get('kind') == 'var':
                    row_vars.add(decl_of(x.ch[1])['id'])
                if x.k == 'UnaryOperator' and x.get('op') == '*' and decl_of(x.ch[0]) is not None and decl_of(x.ch[0]).get('kind') == 'var' \
                        and (x.get('ct') or '').count('*') >= 1:
                    row_vars.add(decl_of(x.ch[0])['id'])
        expanded = []
        for n, iv in uses:
            if n.k == 'ReturnStmt' and iv not in row_vars and decl_of(n.ch[0]) is not None:
                sels = []
                for a_ in f.body.walk():
                    if a_.k == 'BinaryOperator' and a_.get('op') == '=' and (decl_of(a_.ch[0]) or {}).get('id') == iv:
                        vs_ = {x['ref']['id'] for x in a_.ch[1].walk() if x.k == 'DeclRefExpr' and x['ref'].get('kind') == 'var'}
                        hit_ = vs_ & row_vars
                        if hit_:
                            sels.append((a_, sorted(hit_)[0]))
                if sels:
                    expanded += sels
                    continue
            expanded.append((n, iv))
        uses = expanded
        # an index that is the result of another checked lookup never is the terminator row (that lookup's obligation)
        from engine.dataflow import def_exprs as _dx
        delegated = [(n, iv) for n, iv in uses if _dx(f, iv) and all(
            strip(x).k == 'CallExpr' and strip(x).get('callee') in SENTINEL_LOOKUPS and strip(x).get('callee') != fname
            for x in _dx(f, iv))]
        uses = [u for u in uses if u not in delegated]
        ok = bool(uses) or bool(delegated)
        detail = 'no row selection found'
        for n, iv in uses:
            mentions = lambda x, iv=iv: any(y.k == 'DeclRefExpr' and y['ref'].get('id') == iv for y in x.walk())
            g = common.guarded_at(f, n, lambda blk: common.not_empty_string_edge(blk, mentions),
                                  lambda e, iv=iv: common.modifies_var(e, iv))
            if not g:
                ok = False
                detail = '%s can select the terminator row (empty name, NULL or missing function pointer): an empty name ' \
                         '("= x" in snoopy.ini, "%%{}" in a format, "output = :x", ";;" in a filter chain) then calls through ' \
                         'a NULL / out-of-table pointer' % render(n)[:50]
        chk.ob('T1', 'sentinel-row-never-selected[%s]' % fname, ok, f.where(), fname, detail,
               how='every row use follows a test that the row name differs from "" for the current index')


def _ini_value_functions(prog):
    """the INI line parser and the static helpers of its translation unit it reaches (a clean-up helper
    extracted from it is still the same rule's subject)"""
    P = prog.require_func('snoopy_ini_parse_stream')
    out, todo = [P], [P]
    while todo:
        f = todo.pop()
        for c in f.calls():
            t = prog.func(c.get('callee'), f.tu) if c.get('callee') else None
            if t is not None and t.tu is P.tu and t not in out:
                out.append(t)
                todo.append(t)
    return out


def quote_rule(ctx, prog):
    chk = ctx.chk
    n = 0
    for P in _ini_value_functions(prog):
        n += _quote_rule_in(chk, P, n)
    if n == 0:
        raise AnalysisBroken('no quote-stripping store found in snoopy_ini_parse_stream or its helpers')
    comment_before_trim_rule(ctx, prog)
    section_forgets_previous_name_rule(ctx, prog)


def section_forgets_previous_name_rule(ctx, prog):
    """continuation lines are attributed to the last name seen IN THE SAME SECTION: once a section header has been
    read, the remembered name is emptied before a continuation line can be handed to the callback with it"""
    chk = ctx.chk
    n = 0
    for P in _ini_value_functions(prog):
        hcalls = [c for c in P.calls() if c.get('callee') is None and len(c.ch) >= 5]
        if not hcalls:
            continue
        sec_ids = {(decl_of(arg(c, 1)) or {}).get('id') for c in hcalls} - {None}
        # the remembered name: third argument of a callback call whose 4th argument is not the parsed value
        name_ids = {(decl_of(arg(c, 2)) or {}).get('id') for c in hcalls} - {None}
        decls = {x['id']: x for x in P.local_decls()}
        prev_ids = {i for i in name_ids if i in decls and ('arrayLen' in decls[i])}
        if not sec_ids or not prev_ids:
            continue
        prev = sorted(prev_ids)[0]

        def is_reset(e):
            if e.k == 'BinaryOperator' and e.get('op') == '=' and strip(e.ch[1]).get('v') == 0:
                l = strip(e.ch[0])
                if l.k == 'UnaryOperator' and l.get('op') == '*' and (decl_of(l.ch[0]) or {}).get('id') == prev:
                    return True
                if l.k == 'ArraySubscriptExpr' and (decl_of(l.ch[0]) or {}).get('id') == prev and strip(l.ch[1]).get('v') == 0:
                    return True
            return False
        pos = C.elem_positions(P)
        for w in P.calls():
            if w.get('callee') is None or not w.ch[1:]:
                continue
            d0 = decl_of(arg(w, 0))
            if d0 is None or d0['id'] not in sec_ids or w.get('callee') in ('strcmp', 'strlen'):
                continue
            ptypes = w.get('calleeParamTypes') or []
            if ptypes and _const_param(w, 0):
                continue
            n += 1
            el = C.cfg_elem_of(P, w)
            b, i = pos[el.id]
            visited, _ = C.reach(P, (b, i + 1), is_reset)
            stale = [c for c in hcalls if c.id in visited and (decl_of(arg(c, 2)) or {}).get('id') == prev]
            chk.ob('T5', 'section-header-forgets-the-previous-name', not stale, w.where(), P.name,
                   'after a new section name has been stored (%s) the callback can still be reached with the name remembered '
                   'from the previous section (%s): an indented first line of [snoopy] is taken as the continuation of an '
                   'option of another section, and vice versa' % (render(w)[:50], render(stale[0])[:50] if stale else ''),
                   how='the remembered name is emptied on every path from the section header to a continuation-line callback')
    if n == 0:
        raise AnalysisBroken('no store of the section name found in the INI parser')


def comment_before_trim_rule(ctx, prog):
    """inline comments: find_chars_or_comment(value, NULL) recognises ';' only behind white space, so it has
    to look at the value BEFORE its leading white space is skipped ("key = ; note" is an empty value)"""
    chk = ctx.chk
    n = 0
    for P in _ini_value_functions(prog):
        scans = [c for c in P.calls('find_chars_or_comment') if len(c.ch) > 2 and
                 (strip(c.ch[2]).get('null') or strip(c.ch[2]).get('v') == 0)]
        for sc in scans:
            v = decl_of(arg(sc, 0))
            if v is None:
                continue
            n += 1
            # a skip of leading white space on the same variable that can run before the scan
            early = []
            for lk in P.calls('lskip'):
                if (decl_of(arg(lk, 0)) or {}).get('id') != v['id']:
                    continue
                if not C.always_preceded(P, lk, lambda e: e.id == sc.id):
                    early.append(lk)
            chk.ob('T7', 'inline-comment-cut-before-trim[%s]' % P.name, not early, (early[0] if early else sc).where(), P.name,
                   'the leading white space of the value is skipped (%s) before the inline-comment scan: a ";" is only a '
                   'comment behind white space, so "key = ; note" now yields the value "; note" instead of the empty '
                   'string' % (render(early[0])[:40] if early else ''),
                   how='%s precedes every lskip of the value' % render(sc)[:50])
    if n == 0:
        raise AnalysisBroken('no inline-comment scan (find_chars_or_comment(value, NULL)) found in the INI parser')


def _returned_leaves(prog, F, depth=0):
    """(expressions a function can return, followed through result variables, conditional expressions and the
    program functions whose result is returned as it is; expressions of another kind)"""
    leaves, unknown = [], []
    seen = set()

    def visit(e, f, d):
        e = strip(e)
        if e is None:
            return
        if e.k == 'ConditionalOperator':
            visit(e.ch[1], f, d)
            visit(e.ch[2], f, d)
            return
        if e.k == 'DeclRefExpr' and e['ref'].get('kind') == 'var' and not e['ref'].get('staticStorage'):
            key = (f.key, e['ref']['id'])
            if key in seen:
                return
            seen.add(key)
            defs = def_exprs(f, e['ref']['id'])
            if not defs:
                unknown.append(e)
            for x in defs:
                visit(x, f, d)
            return
        if e.k == 'CallExpr' and e.get('callee') and prog.func(e['callee'], f.tu) is not None and d < 2:
            t = prog.func(e['callee'], f.tu)
            for r in C.return_nodes(t):
                if r.ch:
                    visit(r.ch[0], t, d + 1)
            return
        if 'v' in e.d or e.k in ('MemberExpr', 'ArraySubscriptExpr'):
            leaves.append(e)
            return
        if e.k == 'UnaryOperator' and e.get('op') == '-' and 'v' in strip(e.ch[0]).d:
            leaves.append(e)
            return
        leaves.append(e) if _mentions_conversion(f, e) else unknown.append(e)
    for r in C.return_nodes(F):
        if r.ch:
            visit(r.ch[0], F, depth)
    return leaves, unknown


TEXT_CONVERSIONS = {'strtol', 'strtoul', 'strtoll', 'strtoull', 'atoi', 'atol', 'atoll', 'sscanf', 'strtoimax', 'strtoumax'}


def _mentions_conversion(f, e, depth=0):
    """the expression is (built from) the result of a text-to-number conversion, directly, through locals, or through a
    file-local helper that returns one"""
    if depth > 4:
        return False
    for x in e.walk():
        if x.k == 'CallExpr' and x.get('callee') in TEXT_CONVERSIONS:
            return True
        if x.k == 'CallExpr' and x.get('callee') and PROG[0] is not None:
            t = PROG[0].func(x['callee'], f.tu)
            if t is not None and t.internal and any(
                    r.ch and _mentions_conversion(t, r.ch[0], depth + 1) for r in C.return_nodes(t)):
                return True
        if x.k == 'DeclRefExpr' and x['ref'].get('kind') == 'var':
            for d in def_exprs(f, x['ref']['id']):
                if d is not e and _mentions_conversion(f, d, depth + 1):
                    return True
    return False


def _from_text_conversion(f, e):
    s_ = strip(e)
    if s_ is None or 'v' in s_.d or s_.k in ('MemberExpr', 'ArraySubscriptExpr'):
        return False
    return _mentions_conversion(f, s_)


def _quote_rule_in(chk, P, n0):
    # stores that cut the last character of `value`
    n = 0
    for st in P.body.walk():
        if st.k != 'BinaryOperator' or st['op'] != '=' or strip(st.ch[1]).get('v') != 0:
            continue
        l = strip(st.ch[0])
        if l.k != 'ArraySubscriptExpr':
            continue
        idx = strip(l.ch[1])
        base = decl_of(l.ch[0])
        if base is None or not is_last_index(P, idx, base['id']):
            continue
        n += 1
        # one pair at most: behind this cut no cut of the same value is reachable before the variable is given its
        # next value (the next line's).  Two consecutive strips turn "'x'" (inside double quotes) into x.
        others = [o2 for o2 in P.body.walk() if o2.k == 'BinaryOperator' and o2['op'] == '=' and strip(o2.ch[1]).get('v') == 0 and
                  strip(o2.ch[0]).k == 'ArraySubscriptExpr' and (decl_of(strip(o2.ch[0]).ch[0]) or {}).get('id') == base['id'] and
                  is_last_index(P, strip(strip(o2.ch[0]).ch[1]), base['id'])]
        pos_ = C.elem_positions(P)
        b_, i_ = pos_[C.cfg_elem_of(P, st).id]
        vis, _ = C.reach(P, (b_, i_ + 1), lambda e: e.k == 'BinaryOperator' and e.get('op') == '=' and
                         strip(e.ch[0]).k == 'DeclRefExpr' and (decl_of(e.ch[0]) or {}).get('id') == base['id'])
        again = [o2 for o2 in others if C.cfg_elem_of(P, o2).id in vis]
        chk.ob('T7', 'one-quote-pair-at-most[%d]' % (n0 + n), not again, (again[0] if again else st).where(), P.name,
               'after one pair of quotes has been cut off the same value can be cut again (%s): a value that is quoted twice, '
               'like "\'%%{cmdline}\'" , loses both pairs although only the outer one is the INI syntax' % (
                   render(again[0])[:50] if again else ''),
               how='no second cut of the value is reachable before it is assigned anew')

        copies = _first_char_copies(P, base['id'])

        def end_of(t):
            if t.k == 'UnaryOperator' and t['op'] == '*' and (decl_of(t.ch[0]) or {}).get('id') == base['id']:
                return 'first'
            if t.k == 'DeclRefExpr' and t['ref'].get('id') in copies:
                return 'first'
            if t.k == 'ArraySubscriptExpr' and (decl_of(t.ch[0]) or {}).get('id') == base['id']:
                i2 = strip(t.ch[1])
                if i2.get('v') == 0:
                    return 'first'
                if is_last_index(P, i2, base['id']):
                    return 'last'
            return None
        # equality tests whose TRUE edge dominates the store
        firsts, lasts = set(), set()
        last_equals_first = False
        for b in P.blocks.values():
            c = strip(b.cond) if b.cond is not None else None
            if c is None or len(b.all_succs) != 2 or c.k != 'BinaryOperator' or c['op'] not in ('==', '!='):
                continue
            el = C.cfg_elem_of(P, st)
            eq_edge = 0 if c['op'] == '==' else 1       # `if (last != first) return` leaves by the other edge
            visited, _ = C.reach(P, (P.entry, 0), None,
                                 edge_filter=lambda bb, si, b=b, eq_edge=eq_edge: not (bb.id == b.id and si == eq_edge))
            dominates = el.id not in visited
            ends = [end_of(strip(x)) for x in c.ch]
            if set(ends) == {'first', 'last'}:
                last_equals_first = last_equals_first or dominates
                continue
            k = [strip(x).get('v') for x in c.ch if strip(x).get('v') is not None and strip(x).k != 'DeclRefExpr']
            if not k:
                continue
            tgt = [strip(x) for x in c.ch if strip(x).get('v') is None or strip(x).k == 'DeclRefExpr']
            if not tgt:
                continue
            which = end_of(tgt[0])
            if which is None:
                continue
            if dominates:
                (firsts if which == 'first' else lasts).add(k[0])
        same = firsts & lasts
        # `last == first` together with a test that the first character is a quote gives the same guarantee
        quote_first = last_equals_first and _first_char_is_quote_on_all_paths(P, st, base['id'])
        chk.ob('T7', 'unquote-needs-matching-pair[%d]' % (n0 + n), bool(same) or quote_first, st.where(), P.name,
               'the closing character is cut off on a path where the first character is known to be one of %s and the '
               'last one of %s: a value that opens with one quote character and ends with the other (or any accepted '
               'mix) loses both ends' % (sorted(map(chr, firsts)) or 'nothing', sorted(map(chr, lasts)) or 'nothing'),
               how='both ends equal %s on every path to the cut' % (sorted(map(chr, same)) if same else 'each other, the first being a quote'))
    return n


def _first_char_copies(P, base_id):
    """locals that hold a copy of the first character of the string: defined once, by `*base` / `base[0]`, while the
    pointer itself is never moved in this function"""
    if any(common.modifies_var(e, base_id) for e in P.body.walk()):
        return set()
    out = set()
    for d in P.local_decls():
        if 'char' not in (d.get('ct') or '') or '*' in (d.get('ct') or '') or '[' in (d.get('ct') or ''):
            continue
        defs = [strip(x) for x in def_exprs(P, d['id'])]
        if len(defs) != 1 or any(e.k in ('UnaryOperator', 'CompoundAssignOperator') and common.modifies_var(e, d['id']) for e in P.body.walk()):
            continue
        t = defs[0]
        if (t.k == 'UnaryOperator' and t.get('op') == '*' and (decl_of(t.ch[0]) or {}).get('id') == base_id) or \
                (t.k == 'ArraySubscriptExpr' and (decl_of(t.ch[0]) or {}).get('id') == base_id and strip(t.ch[1]).get('v') == 0):
            out.add(d['id'])
    return out


def _first_char_is_quote_on_all_paths(P, store, base_id):
    """every path to `store` has seen *base == '"' or *base == '\'' succeed"""
    copies = _first_char_copies(P, base_id)

    def quote_edge(blk):
        c = strip(blk.cond) if blk.cond is not None else None
        if c is None or len(blk.all_succs) != 2 or c.k != 'BinaryOperator' or c['op'] not in ('==', '!='):
            return None
        ks = [strip(x).get('v') for x in c.ch if strip(x).get('v') is not None and strip(x).k != 'DeclRefExpr']
        ts = [strip(x) for x in c.ch if strip(x).get('v') is None or strip(x).k == 'DeclRefExpr']
        if not ks or not ts or ks[0] not in (34, 39):
            return None
        t = ts[0]
        first = (t.k == 'UnaryOperator' and t['op'] == '*' and (decl_of(t.ch[0]) or {}).get('id') == base_id) or \
            (t.k == 'ArraySubscriptExpr' and (decl_of(t.ch[0]) or {}).get('id') == base_id and strip(t.ch[1]).get('v') == 0) or \
            (t.k == 'DeclRefExpr' and t['ref'].get('id') in copies)
        if not first:
            return None
        return 0 if c['op'] == '==' else 1
    return common.guarded_at(P, store, quote_edge, lambda e: common.modifies_var(e, base_id))


def _digit_guarded(F, target_elem, expr_text, var_ids):
    """forward dataflow in F: True when every path to target_elem crosses the true edge of isdigit(expr)
    after the last modification of the variables expr is built from"""
    def is_test(cond):
        c = strip(cond)
        neg = False
        while c is not None and c.k == 'UnaryOperator' and c['op'] == '!':
            neg = not neg
            c = strip(c.ch[0])
        if c is not None and c.k == 'BinaryOperator' and c['op'] in ('!=', '==') and any(strip(x).get('v') == 0 for x in c.ch):
            other = [x for x in c.ch if strip(x).get('v') != 0]
            if other:
                if c['op'] == '==':
                    neg = not neg
                c = strip(other[0])
        ct = common.ctype_test(c) if c is not None else None
        if ct is not None and ct[0] == 'digit' and ct[1] is not None and render(ct[1]).strip('() ') == expr_text:
            return True, neg
        return False, False

    def transfer(st, e):
        if e.k == 'UnaryOperator' and e.get('op') in ('++', '--') and (decl_of(e.ch[0]) or {}).get('id') in var_ids:
            return False
        if e.k in ('BinaryOperator', 'CompoundAssignOperator') and (e.get('op') == '=' or e.k == 'CompoundAssignOperator') and \
                strip(e.ch[0]).k == 'DeclRefExpr' and (decl_of(e.ch[0]) or {}).get('id') in var_ids:
            return False
        return st

    def edge(st, blk, si):
        if blk.cond is not None and len(blk.all_succs) == 2:
            t, neg = is_test(blk.cond)
            if t:
                true_edge = 1 if neg else 0
                return True if si == true_edge else st
        return st
    ins = C.forward_dataflow(F, False, transfer, lambda a, b: a and b, edge_transfer=edge)
    for bid, st in ins.items():
        if st is None:
            continue
        for e in F.blocks[bid].elems:
            if e is target_elem or any(x is target_elem for x in e.walk()):
                return st
            st = transfer(st, e)
    return False


def _length_is_digit_span(F, length, src, depth=0):
    """the length expression is strspn(src, <decimal digits>) - directly, through a local, or clamped to a constant"""
    n = strip(length)
    if n is None or depth > 3:
        return False
    if n.k == 'CallExpr' and n.get('callee') == 'strspn' and len(n.ch) > 2:
        lit = strip(n.ch[2])
        return lit is not None and lit.k == 'StringLiteral' and set(lit.get('s') or 'x') <= set('0123456789') and \
            render(strip(n.ch[1])) == render(strip(src))
    if n.k == 'ConditionalOperator':
        arms = [x for x in n.ch[1:] if 'v' not in strip(x).d]
        return bool(arms) and all(_length_is_digit_span(F, x, src, depth + 1) for x in arms)
    d = decl_of(n)
    if d is not None and d.get('kind') == 'var':
        spans, clamps = 0, 0
        for x in def_exprs(F, d['id']):
            if _length_is_digit_span(F, x, src, depth + 1):
                spans += 1
                continue
            # `if (len > MAX) len = MAX;`: a clamp downwards keeps it a prefix of the run of digits
            asg = x.parent
            while asg is not None and not (asg.k == 'BinaryOperator' and asg.get('op') == '='):
                asg = asg.parent
            iff = asg.parent if asg is not None else None
            while iff is not None and iff.k not in ('IfStmt', 'FunctionDecl'):
                iff = iff.parent
            cnd = strip(iff.sub('cond')) if iff is not None and iff.k == 'IfStmt' else None
            okc = False
            if cnd is not None and cnd.k == 'BinaryOperator' and cnd.get('op') in ('>', '<', '>=', '<='):
                a_, b_ = strip(cnd.ch[0]), strip(cnd.ch[1])
                big, small = (a_, b_) if cnd['op'] in ('>', '>=') else (b_, a_)
                okc = (decl_of(big) or {}).get('id') == d['id'] and render(small) == render(strip(x))
            if not okc:
                return False
            clamps += 1
        return spans >= 1
    return False


def _only_digit_stores(F, buf_id, skip_call, depth=0):
    """every store into the buffer (a local array of F, or the object a pointer parameter of F points to) writes 0
    or a character that has just passed isdigit(); a program function the buffer is handed to is held to the same"""
    from engine.dataflow import PtrTaint
    pt = PtrTaint(F, lambda n: False, {buf_id})
    helpers = 0
    for cl, i, a in pt.pointer_args():
        if cl is skip_call or _const_param(cl, i):
            continue
        if i == 0 and cl.get('callee') in ('memcpy', 'strncpy', '__builtin_memcpy', '__builtin_strncpy') and len(cl.ch) > 3 and \
                _length_is_digit_span(F, cl.ch[3], cl.ch[2]):
            # the first n characters of the text, n being the length of its leading run of digits
            helpers += 1
            continue
        t = PROG[0].func(cl.get('callee'), F.tu) if cl.get('callee') and PROG[0] is not None else None
        if t is None or depth >= 2 or i >= len(t.params):
            return False, 'is a buffer also filled by another call'
        okh, whyh = _only_digit_stores(t, t.params[i]['id'], None, depth + 1)
        if not okh:
            return False, 'is a buffer also filled by %s, where it %s' % (t.name, whyh)
        helpers += 1
    stores = pt.stores()
    if not stores and not helpers:
        return False, 'is a buffer nothing is stored into'
    for st in stores:
        if st.k != 'BinaryOperator' or st['op'] != '=':
            return False, 'is modified by %s' % render(st)
        r = strip(st.ch[1])
        if r.get('v') == 0:
            continue
        vs = {n['ref']['id'] for n in r.walk() if n.k == 'DeclRefExpr' and n['ref']['kind'] in ('var', 'parm')}
        if r.k not in ('UnaryOperator', 'ArraySubscriptExpr') or not _digit_guarded(F, st, render(r).strip('() '), vs):
            return False, 'receives %s, which has not just passed isdigit()' % render(r)
    return True, 'a buffer that only receives characters that passed isdigit(), and the terminator'


PROG = [None]


def digits_only_input(P, call):
    """the text handed to a strto*/ato* conversion starts with a decimal digit or is empty, on every path:
    (a) a local buffer every store into which - in this function or in a helper it is handed to - writes 0 or a
    character that has just passed isdigit(), or
    (b) a string whose first character passed isdigit() / that passed the digits-only helper."""
    src = arg(call, 0)
    d = decl_of(src)
    if d is None:
        return False, 'is not a plain variable (%s)' % render(src)
    decls = {x['id']: x for x in P.local_decls()}
    x = decls.get(d['id'])
    if x is not None and ('arrayLen' in x or x.get('vla') or (x.get('ct') or '').startswith('char [')):
        return _only_digit_stores(P, d['id'], call)
    # (b) a string variable: its first character passed isdigit()
    for text in ('*%s' % d['name'], '%s[0]' % d['name']):
        if _digit_guarded(P, call, text, {d['id']}):
            return True, 'first character passed isdigit()'
    return False, 'is the unchecked text %s' % render(src)


def _const_param(call, i):
    from engine.statics import _pointee_const
    pt = call.get('calleeParamTypes') or []
    return i < len(pt) and _pointee_const(pt[i])


def _null_iff_not_found(H, search):
    """the helper H returns a null pointer on every path on which its search found nothing and a non-null one
    (computed from the hit) on every path on which it found something"""
    hv = common.holder(H, search)
    if hv is None:
        return False
    isx = lambda n: n.k == 'DeclRefExpr' and (n.get('ref') or {}).get('id') == hv
    tests = [(b, common.compare_edges(b, isx)) for b in common.blocks_testing(H, isx)]
    tests = [(b, ce) for b, ce in tests if ce is not None and ce[0] == 0]
    if len(tests) != 1:
        return False
    b, (_, eq, ne) = tests[0]
    rets = {r.id: r for r in C.return_nodes(H)}

    def returns_from(edge):
        vis, _ = common.reach_from_edge(H, b, edge)
        return [r for r in rets.values() if r.id in vis]
    r0, r1 = returns_from(eq), returns_from(ne)
    if not r0 or not r1 or {r.id for r in r0} & {r.id for r in r1} or len(r0) + len(r1) != len(rets):
        return False
    isnull = lambda r: r.ch and (strip(r.ch[0]).get('null') or strip(r.ch[0]).get('v') == 0)
    return all(isnull(r) for r in r0) and all(
        (not isnull(r)) and any(isx(x) for x in r.ch[0].walk()) for r in r1)


def output_without_argument_rule(ctx, prog):
    chk = ctx.chk
    PV = prog.func('snoopy_configfile_parseValue_output')
    if PV is None:
        raise AnalysisBroken('snoopy_configfile_parseValue_output not found')
    def sep_searches(F):
        return [c for c in F.calls() if c.get('callee') in ('strchr', 'strstr', 'strpbrk', 'index') and
                any(strip(a).get('v') == 58 or (strip(a).k == 'StringLiteral' and strip(a).get('s') == ':') for a in c.ch[2:])]
    seps = sep_searches(PV)
    if not seps:
        # the split may live in a file-local helper that reports "no separator" by returning NULL: its call is
        # then the search as far as this function is concerned
        for c in PV.calls():
            H = prog.func(c.get('callee'), PV.tu) if c.get('callee') else None
            if H is not None and H.internal and len(sep_searches(H)) == 1 and _null_iff_not_found(H, sep_searches(H)[0]):
                seps.append(c)
    if len(seps) != 1:
        raise AnalysisBroken('the output option parser does not look for the ":" separator exactly once (%d searches)' % len(seps))
    sep = seps[0]
    hv = common.holder(PV, sep)
    if hv is None:
        raise AnalysisBroken('the result of %s is not kept in a variable' % render(sep))
    pos = C.elem_positions(PV)
    el = C.cfg_elem_of(PV, sep)
    b0, i0 = pos[el.id]
    blk = PV.blocks[b0]
    j = i0
    for k in range(i0, len(blk.elems)):
        if any(x is sep for x in blk.elems[k].walk()):
            j = k
    known = [c for c in PV.calls('snoopy_outputregistry_doesNameExist')]
    TRUE = common.macro_value(ctx.repo, 'SNOOPY_TRUE')
    known_edges = {}
    for c in known:
        isx = common.is_result_of(PV, c)
        for b in common.blocks_testing(PV, isx):
            ce = common.compare_edges(b, isx)
            if ce is not None:
                v, eq, ne = ce
                known_edges[b.id] = eq if v == TRUE else (ne if v == 0 else None)
    if not known_edges:
        raise AnalysisBroken('the output option parser does not test snoopy_outputregistry_doesNameExist')

    def store_arg(e):
        return e.k == 'BinaryOperator' and e.get('op') == '=' and strip(e.ch[0]).k == 'MemberExpr' and \
            strip(e.ch[0]).get('member') == 'output_arg'
    # only the paths on which the name is a known output
    paths = common.explore_paths(PV, (PV.entry, 0), {}, store_arg, force={blk.elems[j].id: (hv, 0)},
                                 edge_ok=lambda blk, k: not (blk.id in known_edges and known_edges[blk.id] is not None and k != known_edges[blk.id]))
    bad = None
    n = 0
    for ev in paths:
        n += 1
        if not ev:
            bad = ('nothing is stored into output_arg after the separator search: it keeps the compiled-in default '
                   'argument (--with-default-output=NAME:ARG builds) or the argument of an earlier occurrence', sep)
            break
        r = strip(ev[-1].ch[1])
        lit_empty = r.k == 'StringLiteral' and r.get('s') == '' and not (r.get('macro') or ev[-1].ch[1].get('macro'))
        if not lit_empty:
            mac = r.get('macro') or ev[-1].ch[1].get('macro')
            bad = ('the last value stored into output_arg is %s, not the empty literal' % (
                ('the configure-time default %s (empty only in a build without --with-default-output=NAME:ARG)' % mac)
                if mac else render(r)[:40]), ev[-1])
            break
    chk.ob('T9', 'output-without-argument-gets-empty-argument', bad is None and n > 0, (bad[1] if bad else sep).where(), PV.name,
           'for "output = NAME" (no ":") with a known NAME: %s' % (bad[0] if bad else 'no path found'),
           how='%d path(s) under "no separator found" and "known output name" all end with output_arg = ""' % n)


def string_options_stored_whole(ctx, prog, rows):
    from engine.dataflow import PtrTaint
    chk = ctx.chk
    n = 0
    for name, ty, fn, node in rows[:-1]:
        if ty != common.macro_value(ctx.repo, 'SNOOPY_CONFIGFILE_OPTION_TYPE_STRING', 'src/configfile.h') or len(fn) != 2 or fn[0] is None:
            continue
        PV = prog.func(fn[0])
        if PV is None or not PV.params:
            continue
        pt = PtrTaint(PV, lambda x: False, {PV.params[0]['id']})
        # a private whole copy of the text (x = strdup(text)) counts as the text: pointers into it too
        from engine.dataflow import def_exprs
        grown = True
        while grown:
            grown = False
            for x in PV.local_decls():
                if x['id'] in pt.derived:
                    continue
                defs = [strip(d) for d in def_exprs(PV, x['id'])]
                defs = [d for d in defs if not (d.get('null') or d.get('v') == 0)]
                if defs and all(d.k == 'CallExpr' and d.get('callee') in ('strdup', '__strdup') and pt.is_derived(d.ch[1]) for d in defs):
                    pt.derived.add(x['id'])
                    # pointers computed from the copy
                    pt2 = PtrTaint(PV, lambda q: False, set(pt.derived))
                    pt.derived |= pt2.derived
                    grown = True
        stores = []
        for st in PV.body.walk():
            if st.k == 'BinaryOperator' and st.get('op') == '=' and strip(st.ch[0]).k == 'MemberExpr':
                r = strip(st.ch[1])
                if r is not None and r.k == 'CallExpr':
                    stores.append((st, r))
        # the same store made by a shared helper: helper(&CFG->field, ..., text) with `*param = <call>(text param)`
        for c in PV.calls():
            H = prog.func(c.get('callee'), PV.tu) if c.get('callee') else None
            if H is None or not H.internal:
                continue
            fields = [(i, strip(strip(a).ch[0]).get('member')) for i, a in enumerate(c.ch[1:]) if a is not None and
                      strip(a).k == 'UnaryOperator' and strip(a).get('op') == '&' and strip(strip(a).ch[0]).k == 'MemberExpr' and
                      (strip(a).get('ct') or '').replace(' ', '').endswith('char**')]
            texts = [i for i, a in enumerate(c.ch[1:]) if a is not None and pt.is_derived(a)]
            if not fields or not texts:
                continue
            hpt = PtrTaint(H, lambda x: False, {H.params[i]['id'] for i in texts if i < len(H.params)})
            for i, fld in fields:
                if i >= len(H.params):
                    continue
                pid = H.params[i]['id']
                for st in H.body.walk():
                    if st.k == 'BinaryOperator' and st.get('op') == '=':
                        l = strip(st.ch[0])
                        r = strip(st.ch[1])
                        if l.k == 'UnaryOperator' and l.get('op') == '*' and (decl_of(l.ch[0]) or {}).get('id') == pid and \
                                r is not None and r.k == 'CallExpr':
                            n += 1
                            okh = r.get('callee') in ('strdup', '__strdup') and len(r.ch) > 1 and hpt.is_derived(r.ch[1])
                            chk.ob('T11', 'stored-whole[%s:%s]' % (name, fld), okh, st.where(), H.name,
                                   'option "%s": %s is given the result of %s in %s, not strdup() of the option text: a longer '
                                   'value loses its tail' % (name, fld, render(r)[:50], H.name),
                                   how='strdup of the option text, in the shared helper %s' % H.name)
        for st, r in stores:
            n += 1
            fld = strip(st.ch[0]).get('member')
            ok = r.get('callee') in ('strdup', '__strdup') and len(r.ch) > 1 and pt.is_derived(r.ch[1])
            why = ''
            if not ok:
                if r.get('callee') in ('strndup', '__strndup'):
                    why = 'a copy bounded to %s bytes' % render(arg(r, 1))[:40]
                elif r.get('callee') in ('strdup', '__strdup'):
                    why = 'a copy of %s, which is not the option text (a fixed-size intermediate buffer cuts long values)' % render(arg(r, 0))[:40]
                else:
                    why = 'the result of %s' % render(r)[:50]
            chk.ob('T11', 'stored-whole[%s:%s]' % (name, fld), ok, st.where(), PV.name,
                   'option "%s": %s is given %s: a value longer than that loses its tail (a cut format or template then '
                   'ends inside a tag)' % (name, fld, why),
                   how='strdup of the option text')
    if n == 0:
        raise AnalysisBroken('no heap store found in the string option parsers')


def conf_prints_values_unchanged(ctx):
    from engine import fmt
    from engine.dataflow import PtrTaint
    chk = ctx.chk
    cprog = ctx.program(facts.AS_CONFIGURED, 'cli')
    F = cprog.func('snoopy_cli_action_conf')
    if F is None:
        raise AnalysisBroken('snoopy_cli_action_conf not found in the CLI build')
    # the value: result of the call through the getOptionValueAsString pointer
    holders = []
    for c in F.calls():
        if c.get('callee') is None and 'getOptionValueAsString' in render(c.ch[0]):
            h = common.holder(F, c)
            if h is not None:
                holders.append((c, h))
    if not holders:
        raise AnalysisBroken('snoopyctl conf does not obtain option values through getOptionValueAsString')
    for c, h in holders:
        pt = PtrTaint(F, lambda x: False, {h})
        modified = list(pt.stores())
        printed = False
        for call, i, a in pt.pointer_args():
            name = call.get('callee')
            if name in ('free',):
                continue
            np = call.get('calleeNumParams')
            if name in fmt.PRINTF_FAMILY and np is not None and i >= np:
                for an, d, role in (fmt.variadic_bindings(call) or []):
                    if an is a and role == 'value' and d['conv'] == 's' and not d.get('prec'):
                        printed = True
                continue
            ptypes = call.get('calleeParamTypes') or []
            if i < len(ptypes) and not _const_param(call, i):
                modified.append(call)
            elif name not in fmt.PRINTF_FAMILY:
                # handed to another function first: what is printed may be something derived from it
                t = cprog.func(name, F.tu) if name else None
                if t is not None:
                    modified.append(call)
        chk.ob('T12', 'conf-prints-the-value-unchanged', printed and not modified, (modified[0] if modified else c).where(), F.name,
               'the value obtained from the library is %s before it is printed: what `snoopyctl conf` shows, written back into '
               'snoopy.ini, no longer gives the same setting (TAB and every non-ASCII byte are "unprintable" in the C locale)' % (
                   ('changed or filtered by %s' % render(modified[0])[:60]) if modified else 'not printed with a plain %s'),
               how='printf("%s") of the string returned by getOptionValueAsString; no store through it, no helper in between')


def boolean_needle_rule(ctx, prog):
    """strchr(set, ch) also succeeds for ch == 0 (it finds the terminator of `set`): a value character looked up
    that way must be known to be non-zero, or an empty value is taken for a member of the set"""
    chk = ctx.chk
    B = prog.func('snoopy_configfile_getboolean')
    if B is None:
        raise AnalysisBroken('snoopy_configfile_getboolean not found')
    calls = [c for c in B.calls() if c.get('callee') in ('strchr', 'index', 'memchr', 'strrchr', 'rindex')]
    for c in calls:
        needle = strip(arg(c, 1))
        if needle is None or needle.get('v') is not None:
            continue
        txt = render(needle).replace('(int)', '').strip('() ')

        def nz_edge(blk, txt=txt):
            cc = strip(blk.cond) if blk.cond is not None else None
            if cc is None or len(blk.all_succs) != 2:
                return None
            isx = lambda n: render(n).replace('(int)', '').strip('() ') == txt and n.k in ('ArraySubscriptExpr', 'UnaryOperator', 'DeclRefExpr')
            ce = common.compare_edges(blk, isx)
            if ce is not None and ce[0] == 0:
                return ce[2]
            return None
        g = common.guarded_at(B, c, nz_edge, lambda e: False)
        chk.ob('T2', 'boolean-needle-not-nul[%s]' % render(c)[:30], g, c.where(), B.name,
               '%s also matches when %s is the terminating NUL: an empty value ("error_logging =", or a value that is only a '
               'comment) is read as a member of the set instead of leaving the default' % (render(c)[:50], txt),
               how='the character is tested to be non-zero before the search')
    chk.ob('T2', 'boolean-by-first-letter', True, B.where(), B.name, nontrivial=False,
           how='%d set searches in getboolean inspected' % len(calls))
