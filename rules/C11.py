"""C11 — each call sees only the current configuration, nothing carried over."""
from engine import cfg as C
from engine import facts
from engine.dataflow import Summaries, decl_of
from engine.facts import AnalysisBroken, render, strip
from rules import common, ownfields
from rules.common import arg

LEVEL = 'other'
CFG_RECORD = 'snoopy_configuration_t'


def field_stores(func):
    """{field: [assignment nodes]} for stores into snoopy_configuration_t fields"""
    out = {}
    for n in func.body.walk():
        if n.k in ('BinaryOperator', 'CompoundAssignOperator') and (n['op'] == '=' or n.k == 'CompoundAssignOperator'):
            l = strip(n.ch[0])
            if l.k == 'MemberExpr' and l.get('record') == CFG_RECORD:
                out.setdefault(l['member'], []).append(n)
        elif n.k == 'CallExpr':
            # &CFG->field handed to a callee that may write through it (a shared "set string option" helper)
            pts = n.get('calleeParamTypes') or []
            for i, a in enumerate(n.ch[1:]):
                sa = strip(a) if a is not None else None
                if sa is not None and sa.k == 'UnaryOperator' and sa.get('op') == '&':
                    t = strip(sa.ch[0])
                    if t is not None and t.k == 'MemberExpr' and t.get('record') == CFG_RECORD:
                        pt = pts[i] if i < len(pts) else ''
                        if 'const' not in pt.split('*')[0]:
                            out.setdefault(t['member'], []).append(n)
    return out


def value_key(node):
    s = strip(node)
    if s is None:
        return None
    if 'v' in s.d:
        return ('int', s['v'])
    if s.k == 'StringLiteral':
        return ('str', s.get('s'))
    return ('expr', render(s))


def run(ctx):
    chk = ctx.chk
    chk.rule('N1', 'the configuration is re-read from the file at the start of every call, before the log action', floor=2)
    chk.rule('N2', 'reset completeness: every field a configuration-file parser (or the loader) can write is restored '
                   'to its compiled-in default before the next call — by the destructor, or because the record is '
                   'allocated fresh and defaulted per call', floor=10)
    chk.rule('N3', 'pointer/flag typestate of the owning fields: the flag agrees with the stored value on every path, '
                   'the destructor frees exactly when the flag is set and then clears it', floor=10)
    chk.rule('N4', 'no growth: an owning field is never overwritten while it may still hold a heap value', floor=5)
    chk.rule('N5', 'loading and releasing the configuration keeps no state outside the record: nothing they reach writes '
                   'static storage (a counter, a cache, a "seen before" flag would be carried from one call into the next)',
             floor=2)
    chk.explanation = (
        'Histories are quantified away by an inductive argument over one call: if every field that a call can change '
        'is back at its default when the call ends (N2) and the string ownership protocol is respected on every path '
        '(N3, N4), the state at the start of call k+1 equals the state of a fresh process, for every sequence of '
        'earlier configurations. Both the thread-safe and the non-thread-safe build are analysed, each with the '
        'mechanism it relies on.')
    chk.assumptions = ['the configuration file is only read through snoopy_configfile_load()']
    chk.not_decided = ['equality of the k-th record with a fresh process\'s record as strings (C05/C08 decide the '
                       'per-call mapping)']
    tv = None
    for variant in (facts.AS_CONFIGURED, facts.TS_OFF):
        chk.variant = variant.name
        prog = ctx.program(variant, 'lib')
        cg = ctx.callgraph(variant, 'lib')
        summ = Summaries(cg)
        roots = common.entry_points(prog)
        tv = common.macro_value(ctx.repo, 'SNOOPY_TRUE')
        # ---- N1 ------------------------------------------------------------------------------
        for F in roots:
            ok = summ.must_call(F, {'snoopy_configuration_ctor'})
            ok2, w = summ.ordered(F, {'snoopy_configuration_ctor'}, {'snoopy_action_log_syscall_exec'})
            chk.ob('N1', '%s:config-read-before-logging' % F.name, ok and ok2, F.where(), F.name,
                   w or 'a path through %s does not run snoopy_configuration_ctor' % F.name)
        CT = prog.require_func('snoopy_configuration_ctor')
        if 'SNOOPY_CONF_CONFIGFILE_ENABLED' in prog.macros:
            loads = CT.calls('snoopy_configfile_load')
            chk.ob('N1', 'ctor-loads-the-file', bool(loads), CT.where(), CT.name,
                   'the constructor does not call snoopy_configfile_load()',
                   how='%d call site(s); skipped only when parsing is disabled at run time' % len(loads))
            # no caching: the ctor does not skip loading based on state left by an earlier call
            cached = []
            for b in CT.blocks.values():
                if b.cond is None:
                    continue
                for n in b.cond.walk():
                    if n.k == 'MemberExpr' and n.get('record') == CFG_RECORD and n.get('member') in (
                            'configfile_parsed', 'configfile_found', 'initialized'):
                        cached.append(n)
            chk.ob('N1', 'no-parse-once-caching', not cached, cached[0].where() if cached else CT.where(), CT.name,
                   'the constructor branches on %s: a file parsed by an earlier call would not be re-read' % (
                       render(cached[0]) if cached else ''))
        # ---- N5 ------------------------------------------------------------------------------
        from engine.statics import static_accesses
        from rules.C09 import writes_param_factory
        wp = writes_param_factory(prog)
        for rootname in ('snoopy_configuration_ctor', 'snoopy_configuration_dtor'):
            R = prog.require_func(rootname)
            reach5 = cg.reachable([R])
            w = []
            for key, (g, _, _) in sorted(reach5.items(), key=lambda kv: str(kv[0])):
                if g.name.startswith('snoopy_tsrm_') or g.name.startswith('snoopy_util_list_'):
                    continue        # the locked per-thread repository that holds the record itself (C09)
                for a in static_accesses(g, writes_param=wp):
                    if a.node.k == 'CallExpr' and (a.node.get('callee') or '').startswith('pthread_'):
                        continue
                    if variant is facts.TS_OFF and a.var in ('snoopy_configuration_data',):
                        continue    # the record itself in the build without threads: N2 decides that it is reset
                    w.append((g, a))
            chk.ob('N5', 'no-state-outside-the-record[%s]' % rootname, not w, w[0][1].node.where() if w else R.where(), R.name,
                   '%s (reached from %s) writes the static object %s (%s): its value survives the call, so what a later call '
                   'does with its configuration depends on the configurations seen before' % (
                       w[0][0].name if w else '', rootname, w[0][1].var if w else '', w[0][1].how if w else ''),
                   how='%d reachable functions write no static object' % len(reach5))
        # ---- N2 ------------------------------------------------------------------------------
        rec = prog.record(CFG_RECORD)
        if rec is None:
            raise AnalysisBroken('%s not found' % CFG_RECORD)
        all_fields = [f['name'] for f in rec['fields']]
        SD = prog.require_func('snoopy_configuration_setDefaults')
        DT = prog.require_func('snoopy_configuration_dtor')
        from engine import inline as _inl
        DT = _inl.inlined(prog, DT)      # free-and-reset helpers handed the field's address: looked at in place
        defaults = {}
        for fld, nodes in field_stores(SD).items():
            defaults[fld] = nodes
        # T6-like: setDefaults assigns every field on every path
        for fld in all_fields:
            nodes = defaults.get(fld, [])
            ok = bool(nodes) and C.must_pass_through(SD, lambda e, ids={n.id for n in nodes}: e.id in ids)
            chk.ob('N2', 'default-assigned[%s]' % fld, ok, nodes[0].where() if nodes else SD.where(), SD.name,
                   'setDefaults does not assign %s on every path: a fresh record would start with garbage' % fld,
                   nontrivial=False)
        # W: fields written while loading the file
        writers = {}
        scope_funcs = [f for f in prog.functions if f.name.startswith('snoopy_configfile_')]
        for f in scope_funcs:
            for fld, nodes in field_stores(f).items():
                writers.setdefault(fld, []).append((f, nodes[0]))
        # R: fields restored by the destructor (directly, or through callees it must-call)
        restored = {}
        for fld, nodes in field_stores(DT).items():
            # unconditional restore, or restore under the flag for owning fields
            restored.setdefault(fld, []).append(('direct', nodes))
        for c in DT.calls():
            t = prog.func(c.get('callee'), DT.tu) if c.get('callee') else None
            if t is not None and C.must_pass_through(DT, lambda e, c=c: e.id == c.id):
                for fld, nodes in field_stores(t).items():
                    if C.must_pass_through(t, lambda e, ids={n.id for n in nodes}: e.id in ids):
                        restored.setdefault(fld, []).append(('via ' + t.name, nodes))
        fresh_per_call = False
        if 'SNOOPY_CONF_THREAD_SAFETY_ENABLED' in prog.macros:
            N = common.thread_data_maker(prog)
            G = prog.require_func('snoopy_configuration_get')
            fresh = N is not None and any(
                strip(arg(c, 0)).k == 'MemberExpr' and strip(arg(c, 0)).get('member') == 'configuration'
                for g_ in common.with_helpers(prog, N) for c in g_.calls('snoopy_configuration_setUninitialized'))
            defaulted = bool(G.calls('snoopy_configuration_setDefaults')) and any(
                n.k == 'MemberExpr' and n.get('member') == 'initialized'
                for b in G.blocks.values() if b.cond is not None for n in b.cond.walk())
            ctor_creates = N.name == 'snoopy_tsrm_ctor' or \
                summ.must_call(prog.require_func('snoopy_tsrm_ctor'), {'snoopy_tsrm_createNewThreadData'}) or \
                bool(prog.require_func('snoopy_tsrm_ctor').calls('snoopy_tsrm_createNewThreadData'))
            dtor_frees = any(strip(arg(c, 0)).k == 'MemberExpr' and strip(arg(c, 0)).get('member') == 'configuration'
                             for c in prog.require_func('snoopy_tsrm_dtor').calls('free'))
            fresh_per_call = fresh and defaulted and ctor_creates and dtor_frees
            chk.ob('N2', 'fresh-record-per-call', fresh_per_call, N.where() if N else '', 'snoopy_tsrm_createNewThreadData',
                   'thread-safe build: the per-call record is not (allocated, marked uninitialised, defaulted by the '
                   'getter, freed by the destructor): uninitialised=%s defaulted=%s created=%s freed=%s' % (
                       fresh, defaulted, ctor_creates, dtor_frees),
                   how='allocated in createNewThreadData, setUninitialized, defaulted on first get(), freed in tsrm_dtor')
        for fld in sorted(writers):
            f, n = writers[fld][0]
            rs = restored.get(fld, [])
            # value restored must equal the default
            same = False
            for how, nodes in rs:
                for rn in nodes:
                    dk = {value_key(d.ch[1]) for d in defaults.get(fld, [])}
                    if value_key(rn.ch[1]) in dk:
                        same = True
            uncond = any(how.startswith('via') or
                         C.must_pass_through(DT, lambda e, ids={x.id for x in nodes}: e.id in ids)
                         for how, nodes in rs)
            own = fld in ownfields.owning_fields(prog) or fld in ownfields.owning_fields(prog).values()
            ok = (bool(rs) and same and (uncond or own)) or fresh_per_call
            chk.ob('N2', 'restored[%s]' % fld, ok, n.where(), f.name,
                   '%s can be set from snoopy.ini (in %s) but the destructor %s: with the record reused by the next call '
                   'the value survives when the file disappears or drops the key' % (
                       fld, f.name, 'never restores it' if not rs else
                       ('restores a different value' if not same else 'restores it only on some paths')),
                   how=('restored to its default by the destructor (%s)' % ', '.join(h for h, _ in rs)) if rs and same
                   else 'record is allocated fresh and defaulted for every call')
        chk.count('fields_written_by_configfile[%s]' % variant.name, len(writers))
        # ---- N3 / N4 ------------------------------------------------------------------------------
        res = ownfields.analyse(prog, cg, tv)
        fields = ownfields.owning_fields(prog)
        vio_by = {}
        for rule, f, n, fld, d in res.violations:
            vio_by.setdefault((f.name, fld, rule), []).append((n, d))
        from engine import inline as _inl2
        for f in [_inl2.inlined(prog, f0) for f0 in prog.functions]:
            touched = {}
            for n in f.body.walk():
                if n.k == 'BinaryOperator' and n['op'] == '=':
                    fld = ownfields.field_of(n.ch[0], fields)
                    if fld in fields:
                        touched.setdefault(fld, n)
                if n.k == 'CallExpr' and n.get('callee') == 'free' and len(n.ch) > 1:
                    fld = ownfields.field_of(n.ch[1], fields)
                    if fld in fields:
                        touched.setdefault(fld, n)
            for fld, n in touched.items():
                for rule, rid in (('OW2', 'N3'), ('OW3', 'N3'), ('OW1', 'N4')):
                    v = vio_by.get((f.name, fld, rule))
                    chk.ob(rid, '%s[%s:%s]' % (rule, f.name, fld), not v, (v[0][0] if v else n).where(), f.name,
                           v[0][1] if v else '',
                           how={'OW1': 'old value released (or provably not owned) before every store',
                                'OW2': 'flag agrees with the stored value on every path',
                                'OW3': 'free() only under flag == TRUE, flag cleared afterwards'}[rule])
        # destructor releases every owning field
        for fld, flag in fields.items():
            fr = [c for c in DT.calls('free') if ownfields.field_of(c.ch[1], fields) == fld]
            chk.ob('N3', 'dtor-frees[%s]' % fld, bool(fr), DT.where(), DT.name,
                   'the destructor never frees %s: one string per call accumulates' % fld)
    chk.variant = 'as-configured'
