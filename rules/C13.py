"""C13 — registered names bind to their own implementation in every build.

P1 names array and pointer array are the same sequence of (presence condition, entry)
   pairs, "X" <-> snoopy_<kind>_X[output]; terminator "" last, unconditional, unique;
   names pairwise distinct.                                   (A8, all 2^N assignments)
P2 the declaring header is included whenever the entry is present; the implementation
   has exactly one definition; its TU is built whenever the entry is present (Makefile.am).
P3 lookup and call use the same index (callByName -> getIdFromName -> generic loop).
P4 every guard macro is one configure.ac can define.
XV translation validation of the A8 parser by clang's preprocessor on enumerated configs.
"""
import os
import random
import re

from engine import cpp, facts
from engine.facts import AnalysisBroken, render, strip, relpath
from engine import cfg as C

LEVEL = 'proof'

KINDS = [
    # kind, registry TU, implementation prefix, suffix
    ('datasource', 'src/datasourceregistry.c', 'snoopy_datasource_', ''),
    ('filter', 'src/filterregistry.c', 'snoopy_filter_', ''),
    ('output', 'src/outputregistry.c', 'snoopy_output_', 'output'),
]


def find_arrays(ctx, prog, kind, rel):
    """P3: derive (names array, ptrs array) from callByName's data flow and check the
    index identity.  Returns (names global name, ptrs global name)."""
    chk = ctx.chk
    pre = 'snoopy_%sregistry_' % kind
    f = prog.require_func(pre + 'callByName', rel)
    ind = [c for c in f.calls() if c.get('callee') is None]
    key = '%s:callByName' % kind
    if len(ind) != 1:
        chk.ob('P3', key + ':one-indirect-call', False, f.where(), f.name,
               'expected exactly one indirect call, found %d' % len(ind))
        raise AnalysisBroken('%s: cannot identify the registry call' % f.name)
    call = ind[0]
    ce = strip(call.ch[0])
    if ce.k != 'ArraySubscriptExpr':
        raise AnalysisBroken('%s: registry call is not a table subscript: %s' % (f.name, render(call)))
    base, idx = strip(ce.ch[0]), strip(ce.ch[1])
    if base.k != 'DeclRefExpr' or not base['ref'].get('staticStorage'):
        raise AnalysisBroken('%s: table is not a global array' % f.name)
    ptrs = base['ref']['name']
    # index must be a plain variable whose only definitions are the result of
    # <pre>getIdFromName(<name parameter>)
    if idx.k != 'DeclRefExpr' and not any(c.get('callee') == pre + 'getIdFromName' for c in f.calls()):
        # the function does its own scan over the names (a row cursor, index = cursor - names): a shape the index
        # identity below is not written for
        raise AnalysisBroken('%s does not look the name up with %sgetIdFromName() (it indexes the table with %s): the P3 '
                             'rules do not follow an inlined scan' % (f.name, pre, render(idx)[:40]))
    ok = idx.k == 'DeclRefExpr' and idx['ref']['kind'] == 'var'
    detail = 'index expression is %s' % render(idx)
    names_fn = None
    if ok:
        defs = def_exprs(f, idx['ref']['id'])
        ok = len(defs) >= 1
        for d in defs:
            s = strip(d)
            if not (s.k == 'CallExpr' and s.get('callee') == pre + 'getIdFromName'):
                ok = False
                detail = 'index %s is defined by %s, not by %sgetIdFromName()' % (
                    idx['ref']['name'], render(s), pre)
                break
            a0 = strip(s.ch[1])
            if not (a0.k == 'DeclRefExpr' and a0['ref']['kind'] == 'parm' and a0['ref']['index'] == 0):
                ok = False
                detail = 'lookup is not done on the name parameter: %s' % render(s)
                break
            names_fn = pre + 'getIdFromName'
        # no other modification of the index variable
        if ok and modified_other_than_defs(f, idx['ref']['id'], defs):
            ok = False
            detail = 'index variable %s is modified between lookup and call' % idx['ref']['name']
    chk.ob('P3', key + ':index-is-lookup-result', ok, call.where(), f.name, detail,
           how='def-use: the subscript of %s[...] is the unmodified result of %s(name)' % (ptrs, names_fn))
    # the call is only reached when the lookup did not fail (-1)
    # (necessary for "unknown name never runs something else")
    guard_ok = False
    for b in f.blocks.values():
        if b.cond is None:
            continue
        for n in b.cond.walk():
            if n.k == 'BinaryOperator' and n['op'] in ('==', '!=', '<', '>='):
                l, r = strip(n.ch[0]), strip(n.ch[1])
                for x, y in ((l, r), (r, l)):
                    if x.k == 'DeclRefExpr' and idx.k == 'DeclRefExpr' and \
                            x['ref']['id'] == idx['ref']['id'] and y.get('v') in (-1, 0):
                        guard_ok = True
    chk.ob('P3', key + ':not-found-guard', guard_ok, f.where(), f.name,
           'the -1 (not found) result must be tested before indexing the table')
    # <pre>getIdFromName returns generic(names, name)
    g = prog.require_func(pre + 'getIdFromName', rel)
    rets = C.return_nodes(g)
    names = None
    ok = len(rets) == 1
    detail = ''
    if not any(c.get('callee') == 'snoopy_genericregistry_getIdFromName' for c in g.calls()):
        raise AnalysisBroken('%s does not delegate to snoopy_genericregistry_getIdFromName(): the P3 rules do not follow a '
                             'scan of its own' % g.name)
    if ok:
        s = strip(rets[0].ch[0])
        ok = s.k == 'CallExpr' and s.get('callee') == 'snoopy_genericregistry_getIdFromName'
        if ok:
            a0, a1 = strip(s.ch[1]), strip(s.ch[2])
            ok = a0.k == 'DeclRefExpr' and a0['ref'].get('staticStorage') and \
                a1.k == 'DeclRefExpr' and a1['ref']['kind'] == 'parm'
            if ok:
                names = a0['ref']['name']
        if not ok:
            detail = 'returns %s' % render(s)
            if not any(c.get('callee') == 'snoopy_genericregistry_getIdFromName' for c in g.calls()):
                raise AnalysisBroken('%s does not delegate to snoopy_genericregistry_getIdFromName() (it returns %s): the P3 '
                                     'rules do not follow a scan of its own' % (g.name, render(s)[:40]))
    chk.ob('P3', '%s:getIdFromName-delegates' % kind, ok, g.where(), g.name, detail,
           how='returns snoopy_genericregistry_getIdFromName(%s, name)' % names)
    if names is None:
        raise AnalysisBroken('%s: cannot identify the names array' % g.name)
    # callById (sibling) uses the same table with its id parameter
    h = prog.func(pre + 'callById')
    if h is not None:
        ind2 = [c for c in h.calls() if c.get('callee') is None]
        ok = len(ind2) == 1
        if ok:
            ce2 = strip(ind2[0].ch[0])
            ok = ce2.k == 'ArraySubscriptExpr' and strip(ce2.ch[0]).get('ref', {}).get('name') == ptrs \
                and strip(ce2.ch[1]).get('ref', {}).get('kind') == 'parm'
        chk.ob('P3', '%s:callById-same-table' % kind, ok, h.where(), h.name,
               'callById must index the same table with its id parameter unmodified')
    return names, ptrs


def def_exprs(func, decl_id):
    out = []
    for n in func.body.walk():
        if n.k == 'BinaryOperator' and n['op'] == '=':
            l = strip(n.ch[0])
            if l.k == 'DeclRefExpr' and l['ref']['id'] == decl_id:
                out.append(n.ch[1])
        elif n.k == 'DeclStmt':
            for d in n['decls']:
                if d['id'] == decl_id and d.get('init', -1) != -1:
                    out.append(func.nodes[d['init']])
    return out


def modified_other_than_defs(func, decl_id, defs):
    for n in func.body.walk():
        if n.k == 'CompoundAssignOperator' or (n.k == 'UnaryOperator' and n['op'] in ('++', '--', '&')):
            t = strip(n.ch[0])
            if t is not None and t.k == 'DeclRefExpr' and t['ref']['id'] == decl_id:
                return True
    return False


def check_generic_lookup(ctx, prog):
    """P3 for the shared loop: returns the index at which strcmp(regArray[i], name)==0."""
    chk = ctx.chk
    f = prog.require_func('snoopy_genericregistry_getIdFromName')
    rets = C.return_nodes(f)
    found = []
    ok_all = True
    detail = ''
    sites = []          # (node whose enclosing `if` guards the value, the value)
    for r in rets:
        v = strip(r.ch[0])
        rd = def_exprs(f, v['ref']['id']) if v.k == 'DeclRefExpr' and v['ref'].get('kind') == 'var' else []
        if rd and any(strip(x).get('v') == -1 for x in rd) and not modified_other_than_defs(f, v['ref']['id'], rd):
            # a result variable: "not found" by default, set where the match is seen.  Each such assignment is judged
            # like a return of its value, provided nothing moves the scan or the result between it and the return
            rid = v['ref']['id']
            for a in f.body.walk():
                if a.k == 'BinaryOperator' and a['op'] == '=' and strip(a.ch[0]).get('ref', {}).get('id') == rid and \
                        strip(a.ch[1]).get('v') != -1:
                    scan = {x['ref']['id'] for x in a.ch[1].walk() if x.k == 'DeclRefExpr' and x['ref'].get('kind') == 'var'}
                    scan.add(rid)

                    def moves(e, scan=scan):
                        if e.k == 'CompoundAssignOperator' or (e.k == 'UnaryOperator' and e.get('op') in ('++', '--')) or \
                                (e.k == 'BinaryOperator' and e.get('op') == '='):
                            return strip(e.ch[0]).get('ref', {}).get('id') in scan
                        return False
                    if C.can_reach_after(f, a, moves):
                        ok_all = False
                        detail = 'after %s the scan goes on: a later row can replace the first match' % render(a)[:60]
                    sites.append((a, a.ch[1]))
        else:
            sites.append((r, r.ch[0]))
    for r, val in sites:
        v = strip(val)
        if v.get('v') == -1:
            continue
        # must be a variable i, and the return must be control-dependent on
        # strcmp(regArray[i], itemName) == 0 with the same i
        cursor = False
        if v.k == 'BinaryOperator' and v.get('op') == '-' and strip(v.ch[0]).k == 'DeclRefExpr' and \
                strip(v.ch[1]).k == 'DeclRefExpr' and strip(v.ch[1])['ref'].get('kind') == 'parm' and \
                strip(v.ch[1])['ref'].get('index') == 0 and \
                all(k == 'decl' for k, _ in __import__('engine.dataflow', fromlist=['x']).def_sites(f, strip(v.ch[1])['ref']['id'])):
            # a row cursor walked over the table: the index returned is `cursor - table`, the row compared `*cursor`
            cursor = True
            v = strip(v.ch[0])
        if v.k != 'DeclRefExpr':
            ok_all = False
            detail = 'returns %s' % render(v)
            continue
        i_id = v['ref']['id']
        # find the branch condition guarding this return: the nearest enclosing IfStmt
        p = r.parent
        while p is not None and p.k != 'IfStmt':
            p = p.parent
        good = False
        if p is not None:
            cond = p.sub('cond')
            for n in cond.walk():
                if n.k == 'CallExpr' and n.get('callee') == 'strcmp':
                    a, b = strip(n.ch[1]), strip(n.ch[2])
                    for x, y in ((a, b), (b, a)):
                        if cursor and ((x.k == 'UnaryOperator' and x.get('op') == '*' and strip(x.ch[0]).get('ref', {}).get('id') == i_id) or
                                       (x.k == 'ArraySubscriptExpr' and strip(x.ch[0]).get('ref', {}).get('id') == i_id and
                                        strip(x.ch[1]).get('v') == 0)) \
                                and y.k == 'DeclRefExpr' and y['ref']['kind'] == 'parm' and y['ref']['index'] == 1:
                            good = True
                        if cursor:
                            continue
                        if x.k == 'ArraySubscriptExpr' and strip(x.ch[1]).get('ref', {}).get('id') == i_id \
                                and strip(x.ch[0]).get('ref', {}).get('kind') == 'parm' \
                                and strip(x.ch[0])['ref']['index'] == 0 \
                                and y.k == 'DeclRefExpr' and y['ref']['kind'] == 'parm' and y['ref']['index'] == 1:
                            good = True
            # and the comparison is "== 0" on the then-branch
            c = strip(cond)
            if good:
                good = c.k == 'BinaryOperator' and c['op'] == '==' and \
                    (strip(c.ch[0]).get('v') == 0 or strip(c.ch[1]).get('v') == 0) and \
                    _within(r, p.sub('then'))
        if not good:
            ok_all = False
            detail = 'return %s is not guarded by strcmp(regArray[%s], itemName) == 0' % (
                render(v), render(v))
        found.append(val)
    chk.ob('P3', 'generic:getIdFromName-returns-matching-index', ok_all and len(found) >= 1,
           f.where(), f.name, detail or 'no index-returning path found' if not found else detail,
           how='the only non -1 return is `return i` inside `if (strcmp(regArray[i], itemName) == 0)`')
    # index starts at 0 and advances by one: the loop variable's init is 0, its only
    # modification is ++ / += 1
    decls = [d for d in f.local_decls()]
    ok = True
    detail = ''
    for val in found:
        v = strip(val)
        is_cursor = v.k == 'BinaryOperator'
        if is_cursor:
            tab = strip(v.ch[1])
            v = strip(v.ch[0])
        d = [x for x in decls if x['id'] == v['ref']['id']]
        if is_cursor:
            # the cursor starts at the table itself
            init = strip(f.nodes[d[0]['init']]) if d and d[0].get('init', -1) != -1 else None
            if init is None:
                asg = [strip(m.ch[1]) for m in f.body.walk() if m.k == 'BinaryOperator' and m.get('op') == '=' and
                       strip(m.ch[0]).get('ref', {}).get('id') == v['ref']['id']]
                init = asg[0] if len(asg) == 1 else None
            if init is None or init.k != 'DeclRefExpr' or init['ref'].get('id') != tab['ref']['id']:
                ok = False
                detail = 'the row cursor does not start at the first row of the table'
        elif not d or d[0].get('init', -1) == -1 or strip(f.nodes[d[0]['init']]).get('v') != 0:
            ok = False
            detail = 'loop index does not start at 0'
        for n in f.body.walk():
            if n.k == 'UnaryOperator' and n['op'] in ('--',) and strip(n.ch[0]).get('ref', {}).get('id') == v['ref']['id']:
                ok = False
                detail = 'loop index is decremented'
            if n.k == 'CompoundAssignOperator' and strip(n.ch[0]).get('ref', {}).get('id') == v['ref']['id']:
                if not (n['op'] == '+=' and strip(n.ch[1]).get('v') == 1):
                    ok = False
                    detail = 'loop index advanced by %s' % render(n)
            if n.k == 'BinaryOperator' and n['op'] == '=' and strip(n.ch[0]).get('ref', {}).get('id') == v['ref']['id']:
                if is_cursor and strip(n.ch[1]).k == 'DeclRefExpr' and strip(n.ch[1])['ref'].get('id') == tab['ref']['id'] and \
                        sum(1 for m in f.body.walk() if m.k == 'BinaryOperator' and m.get('op') == '=' and
                            strip(m.ch[0]).get('ref', {}).get('id') == v['ref']['id']) == 1:
                    continue        # `for (cursor = table; ...)`: the one assignment is the start at the first row
                ok = False
                detail = 'loop index reassigned: %s' % render(n)
    chk.ob('P3', 'generic:first-match-scan', ok, f.where(), f.name, detail,
           how='index initialised to 0 and only incremented by one: first equal name wins')


def _within(node, anc):
    while node is not None:
        if node is anc:
            return True
        node = node.parent
    return False


def array_tokens(ctx, prog, rel, gname, pm):
    g = None
    t = prog.tu(rel)
    for x in t.globals:
        if x.name == gname and x.d.get('isDef') and x.init is not None:
            g = x
    if g is None:
        raise AnalysisBroken('definition of %s not found in %s' % (gname, rel))
    if g.file != ctx.path(rel):
        raise AnalysisBroken('%s is defined in %s, expected %s' % (gname, g.file, rel))
    toks = pm.guarded_tokens(g.d['beginLine'], g.d['endLine'])
    return g, toks


def ast_entries(g):
    """actual initialiser entries as clang built them: list of strings / function names."""
    init = strip(g.init)
    out = []
    for c in init.ch:
        s = strip(c)
        if s.k == 'StringLiteral':
            out.append('"%s"' % s['s'])
        elif s.k == 'DeclRefExpr' and s['ref']['kind'] == 'func':
            out.append(s['ref']['name'])
        elif s.k == 'UnaryOperator' and s['op'] == '&':
            out.append(strip(s.ch[0])['ref']['name'])
        else:
            out.append(render(s))
    return out


def header_decls(ctx, pm, rel_dir, prefix):
    """[(identifier, include condition, header)] for every include of the registry file."""
    out = []
    for line, hdr, cond in pm.includes:
        cands = [os.path.join(ctx.repo, 'src', hdr), os.path.join(ctx.repo, hdr),
                 os.path.join(ctx.repo, rel_dir, hdr)]
        for p in cands:
            if os.path.exists(p):
                txt = cpp.strip_comments(open(p).read())
                for m in re.finditer(r'\b(%s\w+)\s*\(' % re.escape(prefix), txt):
                    out.append((m.group(1), cond, relpath(p, ctx.repo)))
                break
    return out


def mk_condition(ctx, src):
    """automake conditional(s) under which `src` is compiled, as a formula."""
    sub = ctx.bm.sub_of(src)
    mk = ctx.bm.mk.get(sub)
    if mk is None:
        return None
    base = os.path.basename(src)
    conds = []
    for var, lst in mk.vars.items():
        if not var.endswith('_SOURCES'):
            continue
        for cond, w in lst:
            if w == base:
                f = cpp.T
                for n, v in cond:
                    a = ('def', 'SNOOPY_CONF_' + n)
                    f = cpp.f_and(f, a if v else cpp.f_not(a))
                conds.append(f)
    if not conds:
        return None
    f = cpp.F
    for c in conds:
        f = cpp.f_or(f, c)
    return f


def configure_macros(ctx):
    txt = open(ctx.path('configure.ac')).read()
    txt = re.sub(r'(?m)^\s*(dnl|#).*$', '', txt)
    out = set()
    for m in re.finditer(r'SNOOPY_CONFIGURE_(DATASOURCE|FILTER|OUTPUT)_(?:ENABLE|DISABLE|FORCE|FORCEDISABLE)\(\s*\[(\w+)\]', txt):
        out.add('SNOOPY_CONF_%s_ENABLED_%s' % (m.group(1), m.group(2)))
    for m in re.finditer(r'SNOOPY_CONFIGURE_ENABLE_GENERIC_EVALUATE\(\s*\[[^\]]*\]\s*,\s*\[(\w+)\]', txt):
        out.add('SNOOPY_CONF_' + m.group(1))
    for m in re.finditer(r'AC_DEFINE(?:_UNQUOTED)?\(\s*\[?(\w+)\]?', txt):
        out.add(m.group(1))
    return out


def run(ctx):
    chk = ctx.chk
    chk.rule('P1', 'names[i] and ptrs[i] are the same (presence condition, entry) pair for every i; '
                   'terminator last and unique; names distinct', floor=40)
    chk.rule('P2', 'entry present => its header is included, its implementation is defined exactly once '
                   'and its translation unit is built', floor=49)
    chk.rule('P3', 'lookup and call use the same index: callByName indexes ptrs with the unmodified '
                   'result of getIdFromName(names, name); the generic scan returns the first matching index',
             floor=8)
    chk.rule('P4', 'every guard macro of a registry entry is one that configure.ac can define', floor=30)
    chk.rule('XV', 'translation validation: arrays predicted from the guard structure equal the arrays '
                   'clang builds under the configuration', floor=3)
    chk.explanation = (
        'Proof by complete case analysis on the guard structure of the three registry files: if the two '
        'arrays are the same sequence of (presence condition, entry) pairs, then under EVERY assignment of '
        'the guard macros the preprocessor keeps the same positions in both arrays, so index i of names and '
        'index i of ptrs belong to the same feature; with P3 (same index used for lookup and call, first '
        'match, distinct names, terminator last) %{X} / filter X / output X runs the function registered for '
        'X and a disabled feature is an unknown name. Obligations = rule instances; all must be discharged. '
        'The A8 presence-condition parser is validated against clang\'s preprocessor on enumerated '
        'configurations (XV).')
    chk.assumptions = [
        'the entry X is implemented by the function named snoopy_<kind>_X (snoopy_output_Xoutput for outputs); '
        'what that function computes is the subject of C12/C14/C15/C04',
        'clang\'s preprocessor and gcc\'s agree on #ifdef semantics']
    prog = ctx.program(facts.AS_CONFIGURED, 'all')
    lib = ctx.program(facts.AS_CONFIGURED, 'lib')
    confmacros = configure_macros(ctx)
    check_generic_lookup(ctx, prog)
    registries = []
    all_guard_atoms = set()
    for kind, rel, prefix, suffix in KINDS:
        names, ptrs = find_arrays(ctx, prog, kind, rel)
        pm = cpp.PresenceMap(ctx.path(rel))
        try:
            gN, tN = array_tokens(ctx, prog, rel, names, pm)
            gP, tP = array_tokens(ctx, prog, rel, ptrs, pm)
        except cpp.SpanningEntry as e:
            chk.ob('P1', '%s:every-row-is-closed-inside-its-own-guard' % kind, False, '%s:%d' % (rel, e.line), names,
                   'the entry %s is not followed by a comma before the presence condition changes: in a configuration where '
                   'it is present it merges with the next entry (%s%s is one string literal), so one name fewer is '
                   'registered than functions and two names become unknown' % (e.sofar.strip(), e.sofar.strip(), e.lit))
            continue
        registries.append((kind, rel, names, ptrs, pm))
        chk.count('registry_entries[%s]' % kind, len(tP))
        # ---- P1 -------------------------------------------------------------
        # terminator
        term_ok = len(tN) >= 1 and tN[-1][0] == '""' and tN[-1][1] == cpp.T
        chk.ob('P1', '%s:terminator-last-unconditional' % kind, term_ok,
               '%s:%d' % (rel, tN[-1][2] if tN else gN.line), names,
               'the names array must end with an unconditional "" (last entry is %s under %s)' % (
                   tN[-1][0] if tN else '?', cpp.show(tN[-1][1]) if tN else '?'), nontrivial=False)
        body = tN[:-1] if term_ok else tN
        early = [t for t in body if t[0] == '""']
        chk.ob('P1', '%s:no-early-terminator' % kind, not early,
               '%s:%d' % (rel, early[0][2] if early else gN.line), names,
               'an empty name before the end cuts off every later entry', nontrivial=False)
        chk.ob('P1', '%s:same-length' % kind, len(body) == len(tP), gN.where(), names,
               '%d names (without terminator) vs %d pointers' % (len(body), len(tP)))
        seen = {}
        for i in range(max(len(body), len(tP))):
            if i >= len(body) or i >= len(tP):
                extra = body[i] if i < len(body) else tP[i]
                chk.ob('P1', '%s:entry[%s]' % (kind, extra[0].strip('"')), False,
                       '%s:%d' % (rel, extra[2]), names if i < len(body) else ptrs,
                       'entry %s has no counterpart in the other array' % extra[0])
                continue
            (ntxt, ncond, nline), (ptxt, pcond, pline) = body[i], tP[i]
            nm = ntxt.strip('"') if ntxt.startswith('"') else None
            expect = prefix + (nm or '?') + suffix
            ok = nm is not None and re.match(r'^&?\s*' + re.escape(expect) + r'$', ptxt) is not None
            detail = ''
            if not ok:
                detail = 'position %d: name %s is paired with %s (expected %s)' % (i, ntxt, ptxt, expect)
            elif not cpp.equivalent(ncond, pcond):
                ok = False
                detail = 'position %d: name %s is present when %s but %s is present when %s — the arrays ' \
                         'shift against each other in configurations where the two differ' % (
                             i, ntxt, cpp.show(ncond), ptxt, cpp.show(pcond))
            chk.ob('P1', '%s:entry[%s]' % (kind, nm if nm is not None else ntxt), ok,
                   '%s:%d/%d' % (rel, nline, pline), '%s / %s' % (names, ptrs), detail,
                   how='same position, equivalent presence condition %s, name<->%s' % (cpp.show(ncond), expect))
            if nm is not None:
                if nm in seen:
                    chk.ob('P1', '%s:distinct[%s]' % (kind, nm), False, '%s:%d' % (rel, nline), names,
                           'name %s registered twice (positions %d and %d): the second is unreachable' % (
                               nm, seen[nm], i))
                seen[nm] = i
            all_guard_atoms |= cpp.atoms(ncond) | cpp.atoms(pcond)
        # ---- P2 -------------------------------------------------------------
        hd = header_decls(ctx, pm, os.path.dirname(rel), prefix)
        for ptxt, pcond, pline in tP:
            ident = ptxt.lstrip('& ')
            incs = [(c, h) for (i2, c, h) in hd if i2 == ident]
            inc_cond = cpp.F
            for c, h in incs:
                inc_cond = cpp.f_or(inc_cond, c)
            ok = bool(incs) and cpp.implies(pcond, inc_cond)
            chk.ob('P2', '%s:declared[%s]' % (kind, ident), ok, '%s:%d' % (rel, pline), ptrs,
                   'entry present when %s but a header declaring it is included only when %s' % (
                       cpp.show(pcond), cpp.show(inc_cond)),
                   how='declared in %s' % ', '.join(sorted(set(h for c, h in incs))))
            defs = [f for f in prog.functions if f.name == ident and not f.internal]
            ok = len(defs) == 1
            detail = '%d definitions of %s in the source tree' % (len(defs), ident)
            how = ''
            if ok:
                mkc = mk_condition(ctx, defs[0].file)
                if mkc is None:
                    ok = False
                    detail = '%s is not listed in any *_SOURCES of its Makefile.am' % relpath(defs[0].file, ctx.repo)
                elif not cpp.implies(pcond, mkc):
                    ok = False
                    detail = 'entry present when %s but %s is built only when %s' % (
                        cpp.show(pcond), relpath(defs[0].file, ctx.repo), cpp.show(mkc))
                how = 'defined once, in %s (built when %s)' % (relpath(defs[0].file, ctx.repo),
                                                               cpp.show(mkc) if mkc else '?')
            chk.ob('P2', '%s:defined-once-and-built[%s]' % (kind, ident), ok,
                   defs[0].where() if defs else '%s:%d' % (rel, pline), ident, detail, how=how)
    # ---- P4 -----------------------------------------------------------------
    for a in sorted(all_guard_atoms):
        chk.ob('P4', 'guard[%s]' % a[1], a[1] in confmacros, 'configure.ac', '',
               '%s guards a registry entry but configure.ac never defines it (orphan guard: the entry can '
               'never be switched on/off as documented)' % a[1], nontrivial=False)
    # ---- XV: translation validation of A8 -----------------------------------------
    guard_macros = sorted(a[1] for a in all_guard_atoms if a[0] == 'def')
    base = facts.config_macros(ctx.bm.config_h)
    configs = [('as-configured', set()), ('all-off', set(guard_macros))]
    configs.append(('all-on', None))
    singles = [('off:' + m, {m}) for m in guard_macros]
    rnd = random.Random(ctx.seed)
    if ctx.tier == 'thorough':
        configs += singles
        for i in range(200):
            off = {m for m in guard_macros if rnd.random() < 0.5}
            configs.append(('random-%d' % i, off))
    else:
        rnd2 = random.Random(ctx.seed)
        configs += rnd2.sample(singles, min(6, len(singles)))
        for i in range(4):
            off = {m for m in guard_macros if rnd.random() < 0.5}
            configs.append(('random-%d' % i, off))
    srcs = [ctx.path(rel) for _, rel, _, _, _ in registries]
    nvalid = 0
    for cname, off in configs:
        if off is None:
            var = facts.Variant('xv-' + cname, define={m: 1 for m in guard_macros})
        else:
            var = facts.Variant('xv-' + cname, undef=off)
        try:
            tus, macros = facts.extract_sources(ctx.bm, srcs, var, ctx.ws,
                                                extra_flags=['-Wno-implicit-function-declaration'],
                                                tag='xv-' + re.sub(r'\W', '_', cname))
        except AnalysisBroken as e:
            # A registry that does not compile under an enumerated configuration.  If the
            # structural rules already failed this is the same defect seen by the compiler;
            # report it as supporting evidence.  Otherwise the validation itself is broken.
            if any(not o.ok for o in chk.obls):
                chk.ob('XV', 'compiles:%s' % cname, False, '', '',
                       'registry does not compile under configuration %s: %s' % (cname, str(e)[-400:]))
                continue
            raise
        for tu, (kind, rel, names, ptrs, pm) in zip(tus, registries):
            for gname in (names, ptrs):
                g = [x for x in tu.globals if x.name == gname and x.init is not None]
                if not g:
                    raise AnalysisBroken('XV: %s not found in %s under %s' % (gname, rel, cname))
                actual = ast_entries(g[0])
                toks = pm.guarded_tokens(g[0].d['beginLine'], g[0].d['endLine'])
                predicted = [t[0].lstrip('& ') for t in toks if cpp.eval_macros(t[1], macros)]
                ok = actual == predicted
                chk.ob('XV', '%s:%s' % (gname, cname), ok, rel, gname,
                       'predicted %s, clang built %s' % (predicted, actual) if not ok else '',
                       nontrivial=(cname != 'as-configured'),
                       how='%d entries under configuration %s' % (len(actual), cname))
                nvalid += 1
    chk.count('configurations_validated', len(configs))
    chk.extra['guard_macros'] = len(guard_macros)
    chk.extra['configurations_covered_by_P1'] = '2^%d (all assignments of the guard macros)' % len(guard_macros)
    chk.not_decided = ['what each implementation computes (C12, C14, C15, C04)',
                       'dynamic symbol binding at load time']
    shutil_cleanup(ctx)


def shutil_cleanup(ctx):
    pass
