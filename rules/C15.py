"""C15 — exclude_spawns_of drops exactly descendants of listed programs (walk start,
pid chaining, polarity, pass on error, name delimiters)."""
from engine import cfg as C
from engine import facts
from engine.dataflow import PtrTaint, decl_of, def_exprs, def_sites
from engine.facts import AnalysisBroken, render, strip
from rules import common
from rules.common import arg
from rules.C12 import own_reach, Slice
from rules.C14 import returned_by_match

LEVEL = 'other'
FILTER = 'snoopy_filter_exclude_spawns_of'
FIRST_SEARCH = {'strchr', 'strstr', 'memchr', 'index', 'strpbrk', 'strcspn'}
LAST_SEARCH = {'strrchr', 'memrchr', 'rindex'}


def _derived_closure(F, seeds):
    pt = PtrTaint(F, lambda x: False, set())
    pt.derived = set(seeds)
    changed = True
    while changed:
        changed = False
        for m in F.body.walk():
            if m.k == 'BinaryOperator' and m['op'] == '=':
                d = decl_of(m.ch[0])
                if d is not None and d['id'] not in pt.derived and pt.is_derived(m.ch[1]):
                    pt.derived.add(d['id'])
                    changed = True
            if m.k == 'DeclStmt':
                for d in m['decls']:
                    if d.get('init', -1) != -1 and d['id'] not in pt.derived and pt.is_derived(F.nodes[d['init']]):
                        pt.derived.add(d['id'])
                        changed = True
    return pt


def helper_parses_pid(prog, W, call, addr_node, bufid):
    """W hands &pid and the stat text to the program function called by `call`: there the pid may only be written by
    sscanf() on text derived from that same buffer parameter"""
    H = prog.func(call.get('callee'), W.tu)
    args = call.ch[1:]
    j = next((k for k, a in enumerate(args) if a is not None and any(x is addr_node for x in a.walk())), None)
    ptw = _derived_closure(W, {bufid} if bufid else set())
    bi = [k for k, a in enumerate(args) if a is not None and k != j and ptw.is_derived(a)]
    if j is None or j >= len(H.params) or not bi:
        return False, '%s receives the address of the pid variable but not the stat text just read' % H.name
    pj = H.params[j]['id']
    pth = _derived_closure(H, {H.params[k]['id'] for k in bi if k < len(H.params)})
    writers = 0
    for n in H.body.walk():
        if n.k == 'DeclRefExpr' and n['ref'].get('id') == pj:
            c = n.parent
            while c is not None and c.k in ('ImplicitCastExpr', 'ParenExpr'):
                c = c.parent
            if c is not None and c.k == 'CallExpr' and c.get('callee') == 'sscanf':
                if not pth.is_derived(arg(c, 0)):
                    return False, 'in %s the next pid is parsed from %s, which is not the stat text it was handed' % (
                        H.name, render(arg(c, 0)))
                writers += 1
                continue
            if c is not None and c.k == 'UnaryOperator' and c.get('op') == '*':
                up = c.parent
                while up is not None and up.k in ('ImplicitCastExpr', 'ParenExpr'):
                    up = up.parent
                if up is not None and up.k in ('BinaryOperator', 'CompoundAssignOperator') and \
                        (up.get('op') == '=' or up.k == 'CompoundAssignOperator') and any(x is c for x in up.ch[0].walk()):
                    return False, 'in %s the pid is written by %s' % (H.name, render(up))
                continue        # a read of the current value
            if c is not None and c.k == 'CallExpr':
                return False, 'in %s the address of the pid is passed on to %s' % (H.name, render(c)[:50])
    if writers == 0:
        return False, '%s never parses the next pid' % H.name
    return True, ''


def run(ctx):
    chk = ctx.chk
    chk.rule('X1', 'the walk starts at the parent (getppid, never the process itself) and every further pid is the one '
                   'parsed from the stat file just read for the current pid', floor=4)
    chk.rule('X2', 'polarity: DROP only when an ancestor name equalled a listed name (strcmp == 0); every error path and '
                   'an exhausted walk give PASS', floor=3)
    chk.rule('X3', 'the process name is what lies between the FIRST "(" and the LAST ")" of the stat line, copied with a '
                   'bounded length and terminated', floor=3)
    chk.rule('X4', 'the name list is dense: the scan for a listed name stops at the first NULL slot, so the tokeniser must '
                   'not advance its slot index on a way round its loop that stores nothing into the slot, and the list '
                   'ends in a NULL slot', floor=2)
    chk.explanation = (
        'Def-use provenance of the pid that drives the walk, path-sensitive polarity analysis of the three functions '
        'involved (which constants can be returned on paths through / not through the "names equal" edge), and the kind '
        'of search that locates each delimiter of the kernel\'s comm field.')
    chk.assumptions = ['/proc/<pid>/stat has the documented layout "pid (comm) state ppid ..."']
    chk.not_decided = ['tokenisation of the argument list as a string algorithm beyond X4 (which characters separate, duplicates)',
                       'completeness of the walk in pid namespaces']
    prog = ctx.program(facts.AS_CONFIGURED, 'lib')
    cg = ctx.callgraph(facts.AS_CONFIGURED, 'lib')
    F = prog.func(FILTER)
    if F is None:
        raise AnalysisBroken('%s is not part of this build' % FILTER)
    PASS = common.macro_value(ctx.repo, 'SNOOPY_FILTER_PASS')
    DROP = common.macro_value(ctx.repo, 'SNOOPY_FILTER_DROP')
    fs = own_reach(cg, F)
    # the walker: the function in whose loop /proc/%d/stat is formatted and read.  It may have handed the reading and
    # the parsing of one stat file to file-local helpers: the rules look at its inlined view (the name comparison
    # function stays a call: X2 judges it on its own)
    from engine import inline

    def path_calls(g):
        out = []
        for c in g.calls():
            if c.get('callee') in ('snprintf', 'sprintf'):
                lits = [strip(a) for a in c.ch[1:] if a is not None and strip(a).k == 'StringLiteral']
                if any('/proc/' in (l.get('s') or '') and 'stat' in (l.get('s') or '') for l in lits):
                    out.append(c)
        return out
    cmpf = [g for g in fs if g.calls('strcmp') and not path_calls(g)]
    keep = {g.name for g in cmpf}
    W = None
    for g in fs:
        if g is F or g in cmpf:
            continue
        gv = inline.inlined(prog, g, keep=tuple(sorted(keep)))
        pcs = [c for c in path_calls(gv) if C.in_loop(gv, c)]
        if pcs and (W is None or len(gv.nodes) < len(W.nodes)):
            W = gv
            pathcall = pcs[0]
    if W is None:
        raise AnalysisBroken('no function formatting "/proc/%d/stat" inside a loop reachable from the filter')
    # ---- X1 --------------------------------------------------------------------------------------
    calls = [c for g in fs for c in g.calls() if c.get('callee')]
    names = {c['callee'] for c in calls}
    chk.ob('X1', 'starts-at-parent', 'getppid' in names and 'getpid' not in names, W.where(), W.name,
           'the ancestor walk must start from getppid(): calls present: %s' % sorted(names & {'getpid', 'getppid'}),
           how='getppid() is called, getpid() is not')
    pidarg = [a for a, d, role in (__import__('engine.fmt', fromlist=['x']).variadic_bindings(pathcall) or []) if role == 'value']
    pv = decl_of(pidarg[0]) if pidarg else None
    if pv is not None:
        # in an inlined view the variable may be a helper's parameter, i.e. a plain copy of the walker's pid
        rid_ = common.alias_root(W, pv['id'])
        if rid_ != pv['id']:
            pv = next(({'id': rid_, 'name': x['name'], 'kind': 'var'} for x in W.local_decls() if x['id'] == rid_),
                      next(({'id': rid_, 'name': x['name'], 'kind': 'parm'} for x in W.params if x['id'] == rid_), pv))
    ok = pv is not None
    detail = 'the path is not formatted from a pid variable'
    if ok:
        defs = def_exprs(W, pv['id'])
        okd = all(strip(d).k == 'CallExpr' and strip(d).get('callee') == 'getppid' for d in defs) and bool(defs)
        # other modifications only through sscanf(&pid) on text derived from the buffer just read
        sites = [(k, n) for k, n in def_sites(W, pv['id']) if k == 'addr']
        oks = bool(sites)
        fr = [c for c in W.calls() if c.get('callee') in ('fread', 'fgets', 'read', 'getline')]
        bufid = (decl_of(arg(fr[0], 0)) or {}).get('id') if fr else None
        if bufid is not None:
            bufid = common.alias_root(W, bufid)
        for k, n in sites:
            p = n.parent
            while p is not None and p.k not in ('CallExpr', 'DeclStmt'):
                p = p.parent
            if p is not None and p.k == 'DeclStmt' and p['decls'] and p['decls'][0].get('_param_of'):
                # &pid bound to the pointer parameter of an inlined helper: the calls that receive that pointer
                q = p['decls'][0]['id']
                users = [c for c in W.calls() if any((decl_of(a) or {}).get('id') == q for a in c.ch[1:] if a is not None)]
                stores = [m for m in W.body.walk() if m.k in ('BinaryOperator', 'CompoundAssignOperator') and
                          (m.get('op') == '=' or m.k == 'CompoundAssignOperator') and strip(m.ch[0]).k == 'UnaryOperator' and
                          strip(m.ch[0]).get('op') == '*' and (decl_of(strip(m.ch[0]).ch[0]) or {}).get('id') == q]
                if stores or len(users) != 1:
                    oks = False
                    detail = 'the pid variable is written through a pointer by %s' % render((stores or users or [p])[0])[:50]
                    continue
                p = users[0]
            if p is not None and p.get('callee') not in ('sscanf',) and prog.func(p.get('callee'), W.tu) is not None:
                # a helper that is handed the buffer just read and the address of the pid: held to the same rule
                okh, whyh = helper_parses_pid(prog, W, p, n, bufid)
                if not okh:
                    oks = False
                    detail = whyh
                continue
            if p is None or p.get('callee') not in ('sscanf',):
                oks = False
                detail = 'the pid variable is modified by %s' % (render(p) if p is not None else render(n))
                continue
            src = arg(p, 0)
            # pointers found in the buffer (copies made by declarations included)
            pt = _derived_closure(W, {bufid} if bufid else set())
            if not pt.is_derived(src):
                oks = False
                detail = 'the next pid is parsed from %s, which is not the stat text just read' % render(src)
        ok = okd and oks
        if not okd:
            detail = 'the pid variable is initialised from %s' % ', '.join(render(d) for d in defs)
        # the file read is the one opened on the formatted path
        fo = [c for c in W.calls('fopen')]
        pb = decl_of(arg(pathcall, 0))
        okf = bool(fo) and pb is not None and (decl_of(arg(fo[0], 0)) or {}).get('id') == pb['id'] and \
            bool(fr) and (decl_of(arg(fr[0], 3)) or {}).get('id') == common.holder(W, fo[0])
        chk.ob('X1', 'reads-the-stat-file-of-that-pid', okf, fo[0].where() if fo else W.where(), W.name,
               'the buffer parsed is not read from fopen(<path formatted from the pid>)')
    chk.ob('X1', 'pid-chain', ok, pathcall.where(), W.name, detail,
           how='pid = getppid(), then only sscanf(<stat text>, ..., &pid)')
    # the walk ends at pid 0 and nowhere earlier: every exit condition of the walk loop that tests the pid compares it
    # with 0 (pid 1 - init, or the top of a container - is an ancestor like any other and must be inspected)
    zero = False
    other = []
    if pv is not None:
        live = C.reachable_blocks(W)
        for comp in C._sccs(W, live):
            if not (len(comp) > 1 or comp[0] in W.blocks[comp[0]].succs):
                continue
            cs = set(comp)
            for bid in comp:
                b = W.blocks[bid]
                c = strip(b.cond) if b.cond is not None else None
                if c is None or not any(s_ not in cs for s_, u in b.all_succs if s_ is not None and not u):
                    continue
                if c.k != 'BinaryOperator' or c['op'] not in ('!=', '>', '==', '<', '>=', '<='):
                    continue
                ids = [(decl_of(x) or {}).get('id') for x in c.ch]
                if pv['id'] not in ids:
                    continue
                k = [strip(x).get('v') for x in c.ch if (decl_of(x) or {}).get('id') != pv['id']]
                if k and k[0] == 0 and c['op'] in ('!=', '>', '=='):
                    zero = True
                elif k and k[0] is not None:
                    other.append(c)
    chk.ob('X1', 'walk-stops-at-pid-0', zero and not other, (other[0] if other else W.body).where(), W.name,
           ('the walk also ends on %s: the ancestor with that pid is never compared with the list (pid 1 is the '
            'entrypoint/supervisor of every container)' % render(other[0])) if other else 'the walk is not bounded by "pid != 0"',
           nontrivial=False, how='the only pid test that leaves the loop is a comparison with 0')
    # the name taken from the stat line reaches the comparison whole: a bounded copy into a local array is given the
    # array's full size (snprintf counts the terminator in its size: "size - 1" there cuts a 15-byte name to 14)
    short = []
    ncopies = 0
    for g in fs:
        arrays = {x['id']: x for x in g.local_decls() if 'arrayLen' in x and 'char' in (x.get('ct') or '')}
        for c_ in g.calls():
            if c_.get('callee') not in ('snprintf', 'strlcpy') or len(c_.ch) < 3:
                continue
            d_ = decl_of(arg(c_, 0))
            nv = strip(arg(c_, 1)).get('v') if strip(arg(c_, 1)) is not None else None
            if d_ is None or d_['id'] not in arrays or nv is None:
                continue
            ncopies += 1
            if nv < (arrays[d_['id']].get('size') or 0):
                short.append((g, c_, nv, arrays[d_['id']].get('size')))
    chk.ob('X2', 'bounded-copies-use-the-whole-buffer', not short, short[0][1].where() if short else W.where(),
           short[0][0].name if short else W.name,
           '%s is given %s bytes of a %s-byte buffer: a text that would fill the buffer is cut one character short (a '
           '15-byte process name no longer equals its entry in the list, and equals a 14-byte one)' % (
               render(short[0][1])[:50] if short else '', short[0][2] if short else '', short[0][3] if short else ''),
           how='%d bounded copies into local arrays, each with the array size' % ncopies, nontrivial=False)
    # ---- X2 --------------------------------------------------------------------------------------
    # (a) find_string_in_array-like: returns non-zero only through strcmp == 0
    S = cmpf[-1] if cmpf else None
    if S is None:
        S = W if W.calls('strcmp') else None
    if S is None:
        # no whole-string comparison at all: is the name compared with a BOUNDED comparison (strncmp/memcmp)?  That is a
        # prefix match unless the other string is known to end where the comparison ends
        bounded = [(g, c) for g in fs for c in g.calls() if c.get('callee') in ('strncmp', 'strncasecmp', 'memcmp')]
        for g, c in bounded:
            p_ = c.parent
            while p_ is not None and p_.k not in ('IfStmt', 'WhileStmt', 'ForStmt', 'ReturnStmt', 'CompoundStmt'):
                p_ = p_.parent
            scope = list(p_.walk()) if p_ is not None and p_.k != 'CompoundStmt' else list(c.walk())
            ends = any(x.k == 'ArraySubscriptExpr' and x.parent is not None and x.parent.k in ('BinaryOperator', 'ImplicitCastExpr')
                       for x in scope if x.k == 'ArraySubscriptExpr' and any(
                           render(y) == render(arg(c, 2)) for y in x.ch[1].walk())) or \
                any(x.k == 'CallExpr' and x.get('callee') == 'strlen' for x in scope if x is not c and x.k == 'CallExpr' and
                    x.parent is not None and any(z.k == 'BinaryOperator' and z.get('op') == '==' for z in [x.parent, x.parent.parent] if z is not None))
            chk.ob('X2', 'name-match-is-strcmp-equality', ends, c.where(), g.name,
                   'names are compared with %s: the comparison stops after %s characters, so a listed name that merely BEGINS '
                   'with an ancestor\'s name (or the reverse) counts as equal ("shutdown" matches the ancestor "sh") - nothing '
                   'checks that both strings end there' % (render(c)[:60], render(arg(c, 2))[:30]),
                   how='bounded comparison together with a test that the other string ends at the same length')
        if bounded:
            if any(not o.ok for o in chk.obls if o.rule == 'X2'):
                return
        raise AnalysisBroken('no strcmp-based name comparison reachable from the filter')
    medges = set()
    for b in S.blocks.values():
        c = strip(b.cond) if b.cond is not None else None
        if c is None or len(b.all_succs) != 2:
            continue
        if any(n.k == 'CallExpr' and n.get('callee') == 'strcmp' for n in c.walk()):
            neg = c.k == 'UnaryOperator' and c['op'] == '!'
            if c.k == 'BinaryOperator' and c['op'] in ('==', '!='):
                eq_true = c['op'] == '=='
                medges.add((b.id, 0 if eq_true else 1))
            elif neg:
                medges.add((b.id, 0))
            else:
                medges.add((b.id, 1))
    resS = returned_by_match(S, medges, ())
    mS = {v for m, v in resS if m}
    oS = {v for m, v in resS if not m}
    chk.ob('X2', 'name-match-is-strcmp-equality', bool(medges) and 0 not in mS and oS <= {0}, S.where(), S.name,
           '%s returns %s on a name match and %s otherwise: "found" must be reported exactly for equal names' % (
               S.name, sorted(map(str, mS)), sorted(map(str, oS))),
           how='non-zero only on paths through strcmp(...) == 0')
    # (b) walker: returns 1 ("found") only through the "found" edge of the comparison result
    fedges = set()
    for c in W.calls(S.name):
        isx = common.is_result_of(W, c)
        for b in common.blocks_testing(W, isx):
            ce = common.compare_edges(b, isx)
            if ce is not None:
                v, eq, ne = ce
                fedges.add((b.id, ne if v == 0 else eq))
    resW = returned_by_match(W, fedges, ())
    mW = {v for m, v in resW if m}
    oW = {v for m, v in resW if not m}
    chk.ob('X2', 'found-only-after-a-match', bool(fedges) and mW == {1} and 1 not in oW, W.where(), W.name,
           'the walker returns %s after a match and %s without one' % (sorted(map(str, mW)), sorted(map(str, oW))),
           how='returns 1 only through the match edge; errors and exhaustion return %s' % sorted(map(str, oW)))
    # (c) filter: DROP only when the walker said 1 - whatever the shape of the exit (conditional expression, result
    # variable, goto-cleanup): the walker's result is pinned to 1, 0 and -1 in turn and the constants followed to the return
    ok = True
    detail = ''
    wcalls = F.calls(W.name)
    if len(wcalls) != 1:
        raise AnalysisBroken('%s calls %s %d times' % (F.name, W.name, len(wcalls)))
    wc_ = wcalls[0]
    hv_ = common.holder(F, wc_)
    if hv_ is None:
        hv_ = ('call', wc_.id)      # the result is tested where it is produced
    pos_ = C.elem_positions(F)
    b_, i_ = pos_[C.cfg_elem_of(F, wc_).id]
    blk_ = F.blocks[b_]
    j_ = i_
    for k_ in range(i_, len(blk_.elems)):
        if any(x is wc_ for x in blk_.elems[k_].walk()):
            j_ = k_
    for forced, want_drop in ((1, True), (0, False), (-1, False)):
        mark = blk_.elems[j_].id
        paths = common.explore_paths(F, (F.entry, 0), {}, lambda e: e.k == 'ReturnStmt' or e.id == mark, with_env=True,
                                     force={mark: (hv_, forced)}, after_edge=None)
        seen_call = False
        for ev in paths or []:
            ids = [x.id for x, _ in ev]
            if mark not in ids:
                continue            # a return before the walker was consulted (no list: pass)
            for r, env in ev[ids.index(mark) + 1:]:
                if r.k != 'ReturnStmt':
                    continue
                seen_call = True
                v = common.const_eval(r.ch[0], env) if r.ch else None
                if v is None or (v == DROP) != want_drop or (not want_drop and v != PASS):
                    ok = False
                    detail = 'with the walker\'s result %d the filter returns %s (%s)' % (
                        forced, render(r.ch[0]) if r.ch else 'nothing', 'unknown' if v is None else v)
        if not seen_call:
            ok = False
            detail = 'no return reached behind the call of %s' % W.name
    chk.ob('X2', 'drop-iff-ancestor-found', ok, F.where(), F.name, detail,
           how='DROP exactly when the walker returned 1 (found); -1 (error) and 0 (not found) give PASS')
    # ---- X3 --------------------------------------------------------------------------------------
    searches = {}
    WH = common.with_helpers(prog, W)
    for c in [c for g in WH for c in g.calls()]:
        if c.get('callee') in FIRST_SEARCH | LAST_SEARCH:
            ch = strip(arg(c, 1))
            v = ch.get('v') if ch is not None else None
            if ch is not None and ch.k == 'StringLiteral':
                v = ord(ch['s'][0]) if ch.get('s') else None
            if v in (40, 41):
                searches.setdefault(v, []).append(c)
    for v, nm, want, bad in ((40, 'opening', FIRST_SEARCH, LAST_SEARCH), (41, 'closing', LAST_SEARCH, FIRST_SEARCH)):
        cs = searches.get(v, [])
        if not cs:
            raise AnalysisBroken('no library search for the %s parenthesis found in %s (delimiters located by other means)' % (nm, W.name))
        wrong = [c for c in cs if c['callee'] in bad]
        chk.ob('X3', '%s-parenthesis-search' % nm, not wrong, (wrong or cs)[0].where(), W.name,
               'the %s parenthesis is located with %s: kernel process names may contain parentheses, the name is what '
               'lies between the first "(" and the last ")"' % (nm, render(wrong[0])[:50] if wrong else ''),
               how='%s' % render(cs[0])[:50])
    # copy bounded + terminated: the A4 obligations of the walker
    from engine.bounds import BoundsAnalysis
    ba = BoundsAnalysis(prog, cg)
    obls = []
    for g in ba.order_callers_first([g for g in WH if g is not S]):
        obls += ba.analyse(g)
    badw = [o for o in obls if not o.ok]
    chk.ob('X3', 'name-copy-bounded', bool(obls) and not badw, (badw[0].node if badw else W.body).where(), W.name,
           badw[0].missing if badw else '', how='%d write obligations of %s discharged' % (len(obls), W.name))

    # ---- X4 --------------------------------------------------------------------------------------
    x4_dense_list(chk, fs, S)


def x4_dense_list(chk, fs, S):
    """the consumer S walks the array up to the first NULL; the producer must leave no hole"""
    # consumer: a loop whose exit condition dereferences the array cursor and compares with NULL
    arrp = [p for p in S.params if p.get('ct', '').replace(' ', '').startswith('char**')]
    stops = False
    for b in S.blocks.values():
        c = strip(b.cond) if b.cond is not None else None
        if c is None:
            continue
        derefs = [n for n in c.walk() if (n.k == 'UnaryOperator' and n.get('op') == '*') or n.k == 'ArraySubscriptExpr']
        if derefs and not any(n.k == 'CallExpr' for n in c.walk()) and (c.k != 'BinaryOperator' or c['op'] in ('!=', '==')):
            stops = True
    chk.ob('X4', 'scan-ends-at-first-null-slot', bool(arrp) and stops, S.where(), S.name,
           '%s no longer walks a NULL-terminated array of names (the density rule below is tied to that shape)' % S.name,
           nontrivial=False, how='loop condition tests the current slot against NULL')
    # which value ends the scan: a NULL slot, or a slot holding the empty string?
    empty_string_sentinel = False
    for b in S.blocks.values():
        c = strip(b.cond) if b.cond is not None else None
        if c is None:
            continue
        for n in c.walk():
            t = (n.get('ct') or '').replace('const ', '').strip()
            if ((n.k == 'UnaryOperator' and n.get('op') == '*') or n.k == 'ArraySubscriptExpr') and t == 'char':
                inner = strip(n.ch[0])
                if inner is not None and ((inner.k == 'UnaryOperator' and inner.get('op') == '*') or inner.k == 'ArraySubscriptExpr'):
                    empty_string_sentinel = True      # **p  /  (*p)[0]  /  p[i][0]
            if n.k == 'CallExpr' and n.get('callee') in ('strcmp', 'strlen') and \
                    any(strip(a).k == 'StringLiteral' and strip(a).get('s') == '' for a in n.ch[1:]) and \
                    any(x.k in ('UnaryOperator', 'ArraySubscriptExpr') for a in n.ch[1:] if a is not None for x in a.walk()):
                empty_string_sentinel = True
    T = None
    out_param = None
    if empty_string_sentinel:
        # an empty string ends the list: then no ITEM may be empty.  Items cut out with strtok/strtok_r never are;
        # items taken as "the text behind each separator" are empty for ",," and for a leading or trailing ",".
        prod = None
        for g in fs:
            for c in g.calls():
                tname = c.get('callee')
                for a in c.ch[1:]:
                    sa = strip(a) if a is not None else None
                    if sa is not None and sa.k == 'UnaryOperator' and sa.get('op') == '&' and \
                            (sa.get('ct') or '').replace(' ', '').startswith('char***'):
                        prod = tname
        P2 = None
        for g in fs:
            if g.name == prod:
                P2 = g
        uses_strtok = P2 is not None and any(c.get('callee') in ('strtok', 'strtok_r') for c in P2.calls())
        chk.ob('X4', 'list-terminator-is-not-a-possible-item', uses_strtok, S.where(), S.name,
               'the scan of the name list stops at the first EMPTY STRING, and the list is produced by %s, which returns '
               'empty items (",,", leading or trailing ",") as empty strings: every name behind an empty item is ignored' % (
                   prod or 'a splitter that does not skip empty items'),
               how='items come from strtok/strtok_r, which never yields an empty item')
        chk.ob('X4', 'no-hole-in-name-list', True, S.where(), S.name, nontrivial=False,
               how='not applicable: the list is not NULL-terminated')
        chk.ob('X4', 'name-list-terminated', True, S.where(), S.name, nontrivial=False,
               how='terminated by an empty-string entry of the shared parser')
        return
    for g in fs:
        if g.d.get('retType', g.d.get('ret', '')).replace(' ', '').startswith('char**') and g is not S:
            T = g
    if T is None:
        # fall back: the function that allocates an array with calloc/malloc and returns it
        for g in fs:
            for r in C.return_nodes(g):
                v = strip(r.ch[0]) if r.ch else None
                d = decl_of(v) if v is not None else None
                if d is not None and (d.get('ct') or '').replace(' ', '').startswith('char**'):
                    T = g
    if T is None:
        raise AnalysisBroken('no tokeniser returning char ** reachable from the filter')
    arr = None
    for r in C.return_nodes(T):
        v = strip(r.ch[0]) if r.ch else None
        d = decl_of(v) if v is not None else None
        if d is not None:
            arr = d
    if arr is None:
        raise AnalysisBroken('%s does not return a local array variable' % T.name)
    alloc = [strip(d) for d in def_exprs(T, arr['id'])]
    zeroed = any(a.k == 'CallExpr' and a.get('callee') == 'calloc' for a in alloc)

    def store_index(e):
        """id of the index variable when e is `arr[v] = ...`"""
        if e.k == 'BinaryOperator' and e.get('op') == '=':
            l = strip(e.ch[0])
            if l is not None and l.k == 'ArraySubscriptExpr' and (decl_of(l.ch[0]) or {}).get('id') == arr['id']:
                iv = decl_of(l.ch[1])
                return iv['id'] if iv is not None else -1
            # a slot cursor walked over the array: *slot = ... / *slot++ = ...
            if l is not None and l.k == 'UnaryOperator' and l.get('op') == '*':
                t = strip(l.ch[0])
                if t is not None and t.k == 'UnaryOperator' and t.get('op') == '++':
                    t = strip(t.ch[0])
                d_ = decl_of(t) if t is not None else None
                if d_ is not None and d_['id'] != arr['id'] and common.alias_root(T, d_['id']) == arr['id'] or (
                        d_ is not None and any((decl_of(x) or {}).get('id') == arr['id'] for x in def_exprs(T, d_['id']))):
                    return d_['id']
        return None

    def increments(e, vid):
        if e.k == 'UnaryOperator' and e.get('op') in ('++',):
            return (decl_of(e.ch[0]) or {}).get('id') == vid
        if e.k == 'CompoundAssignOperator' and e.get('op') == '+=':
            return (decl_of(e.ch[0]) or {}).get('id') == vid
        if e.k == 'BinaryOperator' and e.get('op') == '=' and (decl_of(e.ch[0]) or {}).get('id') == vid:
            return True
        return False
    live = C.reachable_blocks(T)
    nstores = 0
    term = zeroed
    hole = None
    for comp in C._sccs(T, live):
        if not (len(comp) > 1 or comp[0] in T.blocks[comp[0]].succs):
            continue
        idx = set()
        for b in comp:
            for e in T.blocks[b].elems:
                v = store_index(e)
                if v is not None and v != -1:
                    idx.add(v)
        for vid in idx:
            nstores += 1
            storing = {b for b in comp if any(store_index(e) == vid for e in T.blocks[b].elems)}
            stay = set(comp) - storing
            incs = {b for b in stay if any(increments(e, vid) for e in T.blocks[b].elems)}
            for c in C._sccs_sub(T, stay):
                cyc = len(c) > 1 or c[0] in [x for x in T.blocks[c[0]].succs if x in stay]
                if cyc and incs & set(c):
                    hole = (vid, sorted(incs & set(c))[0])
    for b in live:
        for e in T.blocks[b].elems:
            if store_index(e) is not None and strip(e.ch[1]).get('v') == 0 and \
                    not any(b in comp for comp in C._sccs(T, live) if len(comp) > 1):
                term = True
    where = T.where()
    if hole is not None:
        blk = T.blocks[hole[1]]
        if blk.elems:
            where = blk.elems[0].where()
    chk.ob('X4', 'no-hole-in-name-list', nstores > 0 and hole is None, where, T.name,
           '%s can go round its fill loop advancing the slot index without storing into the slot: the slot keeps its NULL '
           'and %s stops there, so every name listed after an empty item is ignored' % (T.name, S.name),
           how='every cycle of the fill loop that advances the index stores into %s[index]' % arr.get('name', 'array'))
    chk.ob('X4', 'name-list-terminated', term, T.where(), T.name,
           'the array returned by %s is neither zero-allocated nor closed with a NULL slot after the fill loop' % T.name,
           nontrivial=False, how='calloc and/or a final NULL store')
