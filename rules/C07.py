"""C07 — filter chain is a conjunction; a drop silences the call."""
from engine import cfg as C
from engine import facts
from engine.dataflow import Summaries, PtrTaint, decl_of, def_exprs
from engine.facts import AnalysisBroken, render, strip
from engine.statics import static_accesses, _pointee_const
from rules import common
from rules.common import arg
from rules.C04 import r1_action
from rules.C09 import writes_param_factory

LEVEL = 'other'
CHAIN = 'snoopy_filtering_check_chain'
CALL = 'snoopy_filterregistry_callByName'
EXISTS = 'snoopy_filterregistry_doesNameExist'
CFG_RECORD = 'snoopy_configuration_t'


def _consulted_rule(ctx, prog, F, calls, toks, chain_copy, drop_edges):
    chk = ctx.chk
    live = C.reachable_blocks(F)
    sccs = C._sccs(F, live)
    pos = C.elem_positions(F)
    for c in calls:
        cb = pos[c.id][0]
        loop = None
        for comp in sccs:
            if cb in comp and (len(comp) > 1 or cb in F.blocks[cb].succs):
                loop = set(comp)
        if loop is None:
            continue            # F5 reports it
        heads = {b for b in loop if any(p_ not in loop for p_ in F.blocks[b].preds)} if hasattr(F.blocks[cb], 'preds') else None
        if heads is None:
            preds = {}
            for b in F.blocks.values():
                for s_, unr in b.all_succs:
                    if s_ is not None and not unr:
                        preds.setdefault(s_, set()).add(b.id)
            heads = {b for b in loop if any(p_ not in loop for p_ in preds.get(b, ()))}
        if len(heads) != 1:
            raise AnalysisBroken('the loop around the filter call in %s has %d entries' % (F.name, len(heads)))
        head = next(iter(heads))
        # element-derived variables
        holders = {h for h in (common.holder(F, t) for t in toks) if h is not None}
        pt = PtrTaint(F, lambda n: any(n is t for t in toks), holders | chain_copy)
        for cp in F.calls():
            if cp.get('callee') in ('strncpy', 'memcpy', 'strcpy', 'snprintf'):
                d = decl_of(arg(cp, 0))
                if d is not None and any(pt.is_derived(a) for a in cp.ch[2:] if a is not None):
                    pt.derived.add(d['id'])
        elem = set(pt.derived)
        changed = True
        while changed:
            changed = False
            for d in F.local_decls():
                if d['id'] in elem:
                    continue
                defs = [x for x in def_exprs(F, d['id']) if not ('v' in strip(x).d or strip(x).get('null'))]
                if not defs:
                    continue
                okd = True
                for x in defs:
                    for n in x.walk():
                        if n.k == 'DeclRefExpr' and n['ref'].get('kind') in ('var', 'parm') and n['ref']['id'] not in elem:
                            okd = False
                        if n.k == 'CallExpr' and n.get('callee') and prog.func(n['callee'], F.tu) is not None:
                            okd = False
                if okd:
                    elem.add(d['id'])
                    changed = True
        verdict = [common.is_result_of(F, x) for x in list(calls) + F.calls(EXISTS)]
        # a result variable that is only ever set behind a DROP verdict (`result = DROP` on the drop edge) is the verdict
        nodrop, _ = C.reach(F, (F.entry, 0), None, edge_filter=lambda b, si: (b.id, si) not in drop_edges)
        from engine.dataflow import def_sites
        for d in F.local_decls():
            sites = [n for k_, n in def_sites(F, d['id']) if k_ == 'assign']
            if sites and all(C.cfg_elem_of(F, n).id not in nodrop for n in sites):
                elem.add(d['id'])

        def allowed(cnd):
            if any(isx(strip(n)) for isx in verdict for n in cnd.walk() if n.k in ('CallExpr', 'DeclRefExpr')):
                return True
            for n in cnd.walk():
                if n.k == 'DeclRefExpr' and n['ref'].get('kind') in ('var', 'parm') and n['ref']['id'] not in elem:
                    return False
                if n.k == 'CallExpr' and n.get('callee') and prog.func(n['callee'], F.tu) is not None:
                    t_ = prog.func(n['callee'], F.tu)
                    if not (t_.internal and all(
                            a is None or not any(m.k == 'DeclRefExpr' and m['ref'].get('kind') in ('var', 'parm') and
                                                 m['ref']['id'] not in elem for m in a.walk()) for a in n.ch[1:])):
                        return False
            return True

        def reaches_call(b, si):
            s_ = b.all_succs[si][0]
            if s_ is None or s_ == head or s_ not in loop:
                return False
            vis, _ = C.reach(F, (s_, 0), lambda e: e.id == c.id,
                             edge_filter=lambda bb, sj: bb.all_succs[sj][0] != head and bb.all_succs[sj][0] in loop)
            return c.id in vis
        region, _ = C.reach(F, (head, 0), lambda e: e.id == c.id,
                            edge_filter=lambda bb, sj: bb.all_succs[sj][0] != head and bb.all_succs[sj][0] in loop)
        bad = None
        nblocks = 0
        for b in loop:
            blk = F.blocks[b]
            if blk.cond is None or len(blk.all_succs) != 2:
                continue
            if b != head and not any(e.id in region for e in blk.elems):
                continue
            nblocks += 1
            r0, r1 = reaches_call(blk, 0), reaches_call(blk, 1)
            if r0 != r1 and not allowed(blk.cond):
                bad = blk.cond
                break
        chk.ob('F2', 'every-known-element-is-consulted', bad is None, (bad if bad is not None else c).where(), F.name,
               'whether the filter of an element is consulted depends on %s, which is neither a test of the element\'s own '
               'text, nor the registry\'s answer for its name, nor an earlier DROP verdict: a known filter that would drop '
               'can be passed over, and the decision depends on more than the set of elements' % (
                   render(bad)[:60] if bad is not None else ''),
               how='%d branch(es) between the start of a turn and the filter call: each one that can lead around the call '
                   'tests the element, the registry answer or the verdict' % nblocks)


def run(ctx):
    chk = ctx.chk
    chk.rule('F1', 'the chain returns DROP only on a path where a filter call returned DROP; every other exit returns '
                   'PASS; an unknown name is skipped without calling anything', floor=4)
    chk.rule('F2', 'each chain element causes at most one filter call, with the name and argument taken from that element', floor=2)
    chk.rule('F5', 'the walk over the chain ends only when the chain is exhausted or a filter dropped: no loop exit depends '
                   'on the text of the current element (empty elements are skipped, not terminating)', floor=1)
    chk.rule('F3', 'filters are pure: they (and everything they reach) write no static storage, do not modify the '
                   'configuration and do not write through their argument', floor=6)
    chk.rule('F4', 'a dropped call is silent: nothing reachable from the DROP outcome emits, and nothing that can emit '
                   'runs before the decision', floor=2)
    chk.explanation = (
        'Conjunction structure by path-sensitive polarity analysis of check_chain (which constant is returned on which '
        'paths), at-most-once-per-element by cycle analysis relative to the tokeniser call, purity of every registered '
        'filter by static-write enumeration and pointer-derivation analysis. With pure filters and a DROP that is '
        'returned iff some filter call returned DROP, the decision cannot depend on order or repetition.')
    chk.assumptions = ['filters are deterministic functions of process state and argument (C14, C15)']
    chk.not_decided = ['tokenisation of the chain text: handling of empty elements, ";" and ":" positions beyond the '
                       'structural clauses above (byte-level string algorithm)']
    prog = ctx.program(facts.AS_CONFIGURED, 'lib')
    cg = ctx.callgraph(facts.AS_CONFIGURED, 'lib')
    summ = Summaries(cg)
    drop = common.macro_value(ctx.repo, 'SNOOPY_FILTER_DROP')
    pas = common.macro_value(ctx.repo, 'SNOOPY_FILTER_PASS')
    F = prog.require_func(CHAIN)
    calls = F.calls(CALL)
    if not calls:
        raise AnalysisBroken('%s does not call %s' % (CHAIN, CALL))
    # ---- F1 ----------------------------------------------------------------------------
    rets = C.return_nodes(F)
    drop_edges = []
    for c in calls:
        isx = common.is_result_of(F, c)
        for b in common.blocks_testing(F, isx):
            ce = common.compare_edges(b, isx)
            if ce is None:
                continue
            v, eq, ne = ce
            if v == drop:
                drop_edges.append((b.id, eq))
            elif v == pas:
                drop_edges.append((b.id, ne))
    chk.ob('F1', 'filter-result-tested', bool(drop_edges), calls[0].where(), F.name,
           'the result of %s is not compared with SNOOPY_FILTER_DROP/PASS' % CALL)
    var_returns = []
    for i, r in enumerate(rets):
        v = strip(r.ch[0]).get('v') if r.ch else None
        if v == drop:
            # unreachable when the drop edges are cut
            visited, _ = C.reach(F, (F.entry, 0), None, edge_filter=lambda b, si: (b.id, si) not in drop_edges)
            el = C.cfg_elem_of(F, r)
            ok = el.id not in visited
            chk.ob('F1', 'drop-only-after-a-filter-dropped[%d]' % i, ok, r.where(), F.name,
                   'return DROP at %s is reachable without any filter call having returned DROP (e.g. for an unknown '
                   'name or an empty chain)' % r.where(),
                   how='with the DROP edges of the filter-result tests removed this return is unreachable')
        elif v == pas:
            chk.ob('F1', 'other-exit-passes[%d]' % i, True, r.where(), F.name, how='returns SNOOPY_FILTER_PASS')
        else:
            # one exit with a result variable: follow the constants along the paths.  Without a DROP edge crossed the
            # value must be PASS; behind a DROP edge it must be DROP (judged below, a-drop-is-final)
            is_r = lambda e, r=r: e.id == r.id
            paths = common.explore_paths(F, (F.entry, 0), {}, is_r, with_env=True,
                                         edge_ok=lambda b, si: (b.id, si) not in drop_edges)
            if paths is None:
                raise AnalysisBroken('%s returns %s and its paths are too many to follow' % (F.name, render(r)))
            vals = {common.const_eval(x.ch[0], env) for ev in paths for x, env in ev}
            chk.ob('F1', 'return-is-a-decision[%d]' % i, bool(vals) and vals <= {pas}, r.where(), F.name,
                   '%s yields %s on paths on which no filter returned DROP: it must be SNOOPY_FILTER_PASS there' % (
                       render(r), sorted(str(v) for v in vals)),
                   how='the result variable holds SNOOPY_FILTER_PASS on every path without a DROP verdict')
            var_returns.append(r)
    # a PASS exit must not be reachable from a DROP edge
    bad = []
    for bid, si in drop_edges:
        visited, _ = common.reach_from_edge(F, F.blocks[bid], si)
        for r in rets:
            if strip(r.ch[0]).get('v') != drop and C.cfg_elem_of(F, r).id in visited:
                if r in var_returns:
                    paths = common.explore_paths(F, (F.entry, 0), {}, lambda e, r=r: e.id == r.id, with_env=True,
                                                 after_edge=(bid, si))
                    if paths is not None and all(common.const_eval(x.ch[0], env) == drop for ev in paths for x, env in ev):
                        continue        # behind this DROP edge the result variable holds DROP at the exit
                bad.append(r)
    chk.ob('F1', 'a-drop-is-final', not bad, bad[0].where() if bad else F.where(), F.name,
           'after a filter returned DROP the chain can still return %s' % (render(bad[0]) if bad else ''),
           how='no non-DROP return is reachable from a DROP edge')
    # unknown names
    ex = F.calls(EXISTS)
    ok = len(ex) >= 1
    detail = 'the chain does not ask the registry whether the name exists'
    for e in ex:
        isx = common.is_result_of(F, e)
        for b in common.blocks_testing(F, isx):
            ce = common.compare_edges(b, isx)
            if ce is None:
                ok = False
                continue
            v, eq, ne = ce
            false_v = common.macro_value(ctx.repo, 'SNOOPY_FALSE')
            unknown_edge = eq if v == false_v else ne
            visited, _ = common.reach_from_edge(F, b, unknown_edge, stop=lambda x: x.k == 'CallExpr' and x.get('callee') == EXISTS)
            hit = [F.nodes[i] for i in visited if F.nodes[i].k == 'CallExpr' and F.nodes[i].get('callee') == CALL]
            rdrop = [r for r in rets if strip(r.ch[0]).get('v') == drop and C.cfg_elem_of(F, r).id in visited]
            if hit or rdrop:
                ok = False
                detail = 'for an unknown filter name the chain still reaches %s' % render((hit or rdrop)[0])
    # every filter call is preceded by the existence test
    for c in calls:
        if not C.always_preceded(F, c, lambda x: x.k == 'CallExpr' and x.get('callee') == EXISTS):
            ok = False
            detail = '%s can be reached without the name having been looked up' % render(c)
    chk.ob('F1', 'unknown-name-skipped', ok, ex[0].where() if ex else F.where(), F.name, detail,
           how='the not-found edge reaches neither the filter call nor a DROP return before the next element')
    # ---- F2 ----------------------------------------------------------------------------
    toks = [c for c in F.calls() if c.get('callee') in ('strtok_r', 'strsep', 'strchr', 'strtok', 'strcspn', 'strspn', 'strpbrk')
            and C.in_loop(F, c)]
    if not toks:
        raise AnalysisBroken('no tokeniser call found in the loop of %s' % CHAIN)
    # what the chain is cut at: ';' between elements and ':' between a name and its argument, nothing else.  A blank
    # or a comma in a separator set ends an element inside its argument (names with spaces, uid lists).
    for t in toks:
        seps = None
        for a in t.ch[2:]:
            sa = strip(a) if a is not None else None
            if sa is None:
                continue
            if sa.k == 'StringLiteral':
                seps = sa.get('s')
            elif sa.k == 'CharacterLiteral' or ('v' in sa.d and sa.k == 'IntegerLiteral'):
                seps = chr(sa['v']) if 0 < sa['v'] < 128 else None
            elif sa.k == 'DeclRefExpr' and seps is None:
                # a local `char delim[] = ";"`
                for d in F.local_decls():
                    if d['id'] == sa['ref'].get('id') and d.get('init', -1) != -1:
                        ini = strip(F.nodes[d['init']])
                        if ini is not None and ini.k == 'StringLiteral':
                            seps = ini.get('s')
        if seps is None:
            continue
        chk.ob('F2', 'chain-cut-only-at-its-separators[%s]' % t.get('callee'), set(seps) <= {';', ':'} and len(set(seps)) == 1,
               t.where(), F.name,
               '%s cuts the chain at any of "%s": the documented syntax is filter1:arg;filter2:arg - elements end at ";" only, '
               'and the name ends at the first ":"; a blank or comma in the set ends an element inside its argument '
               '("exclude_spawns_of:my daemon", "only_uid:1,2")' % (render(t)[:50], seps),
               how='separator set "%s"' % seps)
    # the private copy of the chain: the local array filled from the chain parameter.  Pointers into it are
    # element text as well (a hand-written walk over the copy instead of strtok_r)
    chain_copy = set()
    for cp in F.calls():
        if cp.get('callee') in ('strncpy', 'memcpy', 'strcpy', 'snprintf') and cp.ch[2:]:
            d = decl_of(arg(cp, 0))
            if d is not None and (strip(arg(cp, 0)).get('ct') or '').rstrip().endswith(']') and any(
                    (decl_of(a) or {}).get('kind') == 'parm' and (decl_of(a) or {}).get('index') == 0 for a in cp.ch[2:] if a is not None):
                chain_copy.add(d['id'])
    for c in calls:
        pos = C.elem_positions(F)
        b, i = pos[c.id]
        visited, _ = C.reach(F, (b, i + 1), lambda x: any(x.id == t.id for t in toks))
        again = c.id in visited
        chk.ob('F2', 'one-call-per-element', not again, c.where(), F.name,
               'the filter call can run a second time without the tokeniser having advanced to the next element',
               how='every cycle through the filter call passes the tokeniser %s' % render(toks[0])[:50])
        # name and argument derive from the element just tokenised
        holders = set()
        for t in toks:
            h = common.holder(F, t)
            if h is not None:
                holders.add(h)
        pt = PtrTaint(F, lambda n: any(n is t for t in toks), holders | chain_copy)
        # local name buffer filled from the element counts as derived
        for cp in F.calls():
            if cp.get('callee') in ('strncpy', 'memcpy', 'strcpy', 'snprintf'):
                d = decl_of(arg(cp, 0))
                srcs = [a for a in cp.ch[2:] if a is not None]
                if d is not None and any(pt.is_derived(a) for a in srcs):
                    pt.derived.add(d['id'])
        a0, a1 = arg(c, 0), arg(c, 1)
        okn = pt.is_derived(a0)
        # the argument must be the element's own text (a pointer into the chain copy) or the empty
        # string: a copy into a smaller fixed buffer would silently cut long arguments
        pt_direct = PtrTaint(F, lambda n: any(n is t for t in toks), holders | chain_copy)
        oka = all(pt_direct.is_derived(x) or _is_empty_string_buffer(F, x) for x in _defs_or_self(F, a1))
        chk.ob('F2', 'name-and-arg-from-the-element', okn and oka, c.where(), F.name,
               'filter call %s does not take its name from the chain element just parsed, or its argument is not the '
               'element\'s own text (a copy into a fixed buffer truncates long arguments such as uid lists)' % render(c),
               how='both arguments derive from the tokeniser result')
    # every element with a known name is put to its filter: inside one turn of the loop, the only tests that can lead
    # around the filter call are tests of the element's own text (no more elements, an empty one), the registry's
    # answer for the name, and an earlier DROP verdict.  A memo of "specs seen before", a counter, a flag from
    # another element: each of them makes the decision depend on more than "some known filter drops".
    _consulted_rule(ctx, prog, F, calls, toks, chain_copy, drop_edges)
    # ---- F5: an empty (or otherwise odd) element is skipped, it never ends the evaluation -------------
    live = C.reachable_blocks(F)
    sccs = C._sccs(F, live)
    pos = C.elem_positions(F)
    for c in calls:
        cb = pos[c.id][0]
        loop = None
        for comp in sccs:
            if cb in comp and (len(comp) > 1 or cb in F.blocks[cb].succs):
                loop = set(comp)
        if loop is None:
            chk.ob('F5', 'chain-is-walked-in-a-loop', False, c.where(), F.name, 'the filter call is not inside a loop')
            continue
        holders5 = set()
        for t in toks:
            h = common.holder(F, t)
            if h is not None:
                holders5.add(h)
        # the current element: pointers from which the filter NAME derives
        elem_pt = PtrTaint(F, lambda n: False, set())
        name_arg = arg(c, 0)
        elem_ids = set()
        seen_ids = set()
        todo = [name_arg]
        steps = 0
        while todo and steps < 200:
            steps += 1
            x = todo.pop()
            for n in x.walk():
                if n.k != 'DeclRefExpr' or n['ref']['kind'] != 'var' or n['ref']['id'] in seen_ids:
                    continue
                vid = n['ref']['id']
                seen_ids.add(vid)
                ctn = (n.get('ct') or '').rstrip()
                if ctn.endswith('*'):
                    elem_ids.add(vid)
                todo += def_exprs(F, vid)
                if ctn.endswith(']'):
                    # a buffer: follow what it is filled from
                    for cp in F.calls():
                        if cp.get('callee') in ('strncpy', 'memcpy', 'strcpy', 'snprintf') and \
                                (decl_of(arg(cp, 0)) or {}).get('id') == vid:
                            todo += [a for a in cp.ch[2:] if a is not None]
        # only pointers that are (re)assigned inside the loop are "the current element"
        elem_ids = {i for i in elem_ids if i in holders5 or any(
            pos.get(C.cfg_elem_of(F, n).id, (None,))[0] in loop
            for k, n in __import__('engine.dataflow', fromlist=['def_sites']).def_sites(F, i) if k == 'assign')}
        bad = []
        for b in loop:
            blk = F.blocks[b]
            if blk.cond is None:
                continue
            leaves = [s for s, u in blk.all_succs if s is not None and not u and s not in loop]
            if not leaves:
                continue
            cnd = blk.cond
            reads = False
            for n in cnd.walk():
                if n.k == 'UnaryOperator' and n['op'] == '*' and (decl_of(n.ch[0]) or {}).get('id') in elem_ids:
                    reads = True
                if n.k == 'ArraySubscriptExpr' and (decl_of(n.ch[0]) or {}).get('id') in elem_ids:
                    reads = True
                if n.k == 'CallExpr' and n.get('callee') in ('strlen', 'strcmp', 'strncmp', 'strchr') and \
                        any((decl_of(a) or {}).get('id') in elem_ids for a in n.ch[1:] if a is not None):
                    reads = True
            if reads and not _end_of_chain_test(F, blk, elem_ids):
                bad.append(cnd)
        chk.ob('F5', 'no-loop-exit-on-element-content', not bad, bad[0].where() if bad else c.where(), F.name,
               'the loop over the chain is left when %s holds, a test of the CURRENT element\'s text: an empty or '
               'unusual element then ends the evaluation and the filters after it are never consulted' % (
                   render(bad[0]) if bad else ''),
               how='loop exits depend only on the tokeniser state or a DROP verdict')
    # ---- F3 ----------------------------------------------------------------------------
    filters = common.filter_functions(prog)
    wp = writes_param_factory(prog)
    chk.count('filters', len(filters))
    for f in filters:
        reach = cg.reachable([f])
        w = []
        for key, (g, _, _) in reach.items():
            for a in static_accesses(g, writes_param=wp):
                if a.node.k == 'CallExpr' and (a.node.get('callee') or '').startswith('pthread_'):
                    continue
                if g.name.startswith('snoopy_tsrm_') or g.name.startswith('snoopy_util_list_'):
                    continue  # the per-thread repository is C09's subject (locked, per-thread data)
                w.append((g, a))
        chk.ob('F3', 'no-static-writes[%s]' % f.name, not w, w[0][1].node.where() if w else f.where(), f.name,
               '%s writes static storage (%s): its verdict can depend on earlier calls, so order/repetition of chain '
               'elements matter' % (w[0][0].name if w else '', w[0][1].how if w else ''),
               how='%d reachable functions write no static object' % len(reach))
        cfgw = []
        for key, (g, _, _) in reach.items():
            if g.name in ('snoopy_configuration_setDefaults',):
                continue  # lazy initialisation of a fresh record by the getter
            for n in g.body.walk():
                if n.k in ('BinaryOperator', 'CompoundAssignOperator') and (n['op'] == '=' or n.k == 'CompoundAssignOperator'):
                    l = strip(n.ch[0])
                    if l.k == 'MemberExpr' and l.get('record') == CFG_RECORD:
                        cfgw.append((g, n))
        chk.ob('F3', 'configuration-untouched[%s]' % f.name, not cfgw, cfgw[0][1].where() if cfgw else f.where(), f.name,
               '%s modifies the configuration: %s' % (cfgw[0][0].name if cfgw else '', render(cfgw[0][1]) if cfgw else ''))
        if f.params:
            pt = PtrTaint(f, lambda n: False, {f.params[0]['id']})
            bad = list(pt.stores())
            for call, i, a in pt.pointer_args():
                ptypes = call.get('calleeParamTypes') or []
                pty = ptypes[i] if i < len(ptypes) else (a.get('ct') or '')
                np = call.get('calleeNumParams')
                if np is not None and i >= np:
                    continue
                if not _pointee_const(pty):
                    bad.append(call)
            chk.ob('F3', 'argument-read-only[%s]' % f.name, not bad, bad[0].where() if bad else f.where(), f.name,
                   '%s writes through (or hands out as writable) its argument: %s — the chain text is shared by later '
                   'elements' % (f.name, render(bad[0]) if bad else ''),
                   how='no store through the argument and no writable escape')
    # ---- F4 ----------------------------------------------------------------------------
    r1_action(ctx, prog, cg, summ, drop, rule='F4', silence_only=True)
    # the exec itself proceeds: C01-E5/E6 (the action returns, cleanup and the real call follow)
    A = prog.require_func('snoopy_action_log_syscall_exec')
    chk.ob('F4', 'action-returns-normally', A.d['retCanon'] == 'void' and not any(
        c.get('calleeNoReturn') for c in A.calls()), A.where(), A.name,
           'the action can end the process instead of returning to the interposer', nontrivial=False)


def _defs_or_self(F, a):
    d = decl_of(a)
    if d is None:
        return [a]
    ds = def_exprs(F, d['id'])
    return ds if ds else [a]


def _first_byte_zeroed(F, decl_id):
    for n in F.body.walk():
        if n.k == 'BinaryOperator' and n['op'] == '=':
            l = strip(n.ch[0])
            if l.k == 'ArraySubscriptExpr' and (decl_of(l.ch[0]) or {}).get('id') == decl_id \
                    and strip(l.ch[1]).get('v') == 0 and strip(n.ch[1]).get('v') == 0:
                return True
    return False


def _end_of_chain_test(F, blk, elem_ids):
    """the branch tests `*p` against NUL where, on every path to it, the last change of p was `p += strspn(p, SEPS)`:
    p then rests on the first character that is not a separator, and that is NUL only at the end of the whole chain
    (separators are the only places an element is cut at) - the walk has run out of text, no element is being judged"""
    c = strip(blk.cond)
    isx = lambda n: n.k == 'UnaryOperator' and n.get('op') == '*' and (decl_of(n.ch[0]) or {}).get('id') in elem_ids
    ce = common.compare_edges(blk, isx)
    if ce is None or ce[0] != 0:
        return False
    pid = next((decl_of(n.ch[0])['id'] for n in c.walk() if isx(n)), None)

    def skip(e):
        if e.k == 'CompoundAssignOperator' and e.get('op') == '+=' and (decl_of(e.ch[0]) or {}).get('id') == pid:
            r = strip(e.ch[1])
            return r is not None and r.k == 'CallExpr' and r.get('callee') == 'strspn' and \
                (decl_of(arg(r, 0)) or {}).get('id') == pid
        return False

    def transfer(st, e):
        if skip(e):
            return True
        if common.modifies_var(e, pid):
            return False
        return st
    ins = C.forward_dataflow(F, False, transfer, lambda a, b: a and b)
    st = ins.get(blk.id)
    if st is None:
        return False
    for e in blk.elems:
        st = transfer(st, e)
    return bool(st)


def _is_empty_string_buffer(F, a):
    d = decl_of(a)
    if d is None:
        s = strip(a)
        return s is not None and s.k == 'StringLiteral' and s.get('s') == ''
    if (strip(a).get('ct') or '').rstrip().endswith(']'):
        # a local array whose only content is the terminator stored at [0]
        others = [n for n in F.calls() if n.get('callee') in ('strncpy', 'strcpy', 'memcpy', 'snprintf', 'strcat')
                  and (decl_of(arg(n, 0)) or {}).get('id') == d['id']]
        return _first_byte_zeroed(F, d['id']) and not others
    for x in def_exprs(F, d['id']):
        s = strip(x)
        if s.k == 'StringLiteral' and s.get('s') == '':
            return True
        dd = decl_of(s)
        if dd is not None:
            # pointer to a local buffer whose first byte is set to NUL
            for n in F.body.walk():
                if n.k == 'BinaryOperator' and n['op'] == '=':
                    l = strip(n.ch[0])
                    if l.k == 'ArraySubscriptExpr' and (decl_of(l.ch[0]) or {}).get('id') == dd['id'] \
                            and strip(l.ch[1]).get('v') == 0 and strip(n.ch[1]).get('v') == 0:
                        return True
    return False


def _arg_from_same_element(F, a, pt):
    d = decl_of(a)
    if d is None:
        return False
    return all(pt.is_derived(x) or _is_empty_string_buffer(F, x) or
               (decl_of(x) is not None and _is_empty_string_buffer(F, x)) for x in def_exprs(F, d['id']))
