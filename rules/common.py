"""Helpers shared by rule modules: slots filled from the repository."""
import os
import re

from engine import cfg as C
from engine.callgraph import func_refs
from engine.dataflow import decl_of
from engine.facts import AnalysisBroken, render, strip

ENTRY_POINTS = ('execv', 'execve')
EMIT_APIS = {'fprintf', 'fputs', 'fwrite', 'printf', 'puts', 'putc', 'putchar', 'fputc', 'write', 'send',
             'sendto', 'sendmsg', 'syslog', 'vsyslog', 'dprintf', 'writev', 'perror', 'vfprintf', 'vprintf',
             'pwrite', 'psignal', 'error', 'warn', 'warnx'}


def entry_points(prog):
    return [prog.require_func(n) for n in ENTRY_POINTS]


def table_functions(prog, table):
    g = prog.global_var(table)
    if g is None or g.init is None:
        raise AnalysisBroken('registry table %s not found' % table)
    out = []
    for n in func_refs(g.init):
        f = prog.func(n)
        if f is None:
            raise AnalysisBroken('%s lists %s, which has no definition in scope' % (table, n))
        out.append(f)
    return out


def output_functions(prog):
    return table_functions(prog, 'snoopy_outputregistry_ptrs')


def filter_functions(prog):
    return table_functions(prog, 'snoopy_filterregistry_ptrs')


def datasource_functions(prog):
    return table_functions(prog, 'snoopy_datasourceregistry_ptrs')


def table_names(prog, names_table):
    g = prog.global_var(names_table)
    if g is None or g.init is None:
        raise AnalysisBroken('registry table %s not found' % names_table)
    out = []
    for c in strip(g.init).ch:
        s = strip(c)
        if s is not None and s.k == 'StringLiteral':
            out.append(s['s'])
    return out


def macro_value(repo, name, header='src/snoopy.h'):
    txt = open(os.path.join(repo, header)).read()
    m = re.search(r'^\s*#\s*define\s+%s\s+(\(?-?\d+\)?)\s*(?://.*|/\*.*?\*/\s*)?$' % re.escape(name), txt, re.M)
    if not m:
        raise AnalysisBroken('constant %s not found in %s' % (name, header))
    return int(m.group(1).strip('()'))


def arg(call, i):
    a = call.ch[1:]
    return a[i] if i < len(a) else None


def holder(func, call):
    """decl id of the variable that receives the call's result, if any"""
    p = call.parent
    while p is not None and p.k in ('ImplicitCastExpr', 'ParenExpr', 'CStyleCastExpr'):
        p = p.parent
    if p is not None and p.k == 'BinaryOperator' and p['op'] == '=':
        r = decl_of(p.ch[0])
        return r['id'] if r is not None else None
    if p is not None and p.k == 'DeclStmt':
        for d in p['decls']:
            if d.get('init', -1) != -1 and strip(func.nodes[d['init']]) is call:
                return d['id']
    return None


def _is_unsigned(n):
    t = (n.get('ct') or '')
    return t.startswith('unsigned') or t in ('size_t', 'uintptr_t', 'uint32_t', 'uint64_t', 'uint16_t', 'uint8_t')


def compare_edges(block, is_x):
    """For a two-way branch whose (effective) condition compares X (recognised by
    is_x on stripped nodes) with an integer constant c: returns (c, eq_edge, ne_edge)
    where eq_edge is the successor index (0 true / 1 false) taken when X == c.
    Relational tests of an unsigned X against 0/1 count as (in)equality with 0; other `<`/`>=`
    tests return None.  A bare `X` / `!X` is X != 0 / X == 0."""
    c = strip(block.cond) if block.cond is not None else None
    if c is None or len(block.all_succs) != 2:
        return None
    neg = False
    while c is not None and c.k == 'UnaryOperator' and c['op'] == '!':
        neg = not neg
        c = strip(c.ch[0])
    if c is None:
        return None
    if c.k == 'BinaryOperator' and c['op'] in ('==', '!='):
        l, r = strip(c.ch[0]), strip(c.ch[1])
        if is_x(r) and not is_x(l):
            l, r = r, l
        if not is_x(l) or 'v' not in r.d:
            return None
        eq_true = (c['op'] == '==') != neg
        return (r['v'], 0 if eq_true else 1, 1 if eq_true else 0)
    if c.k == 'BinaryOperator' and c['op'] in ('<', '>', '<=', '>='):
        # an unsigned X against 0/1 is an (in)equality with 0: X>0, X>=1, 0<X, 1<=X  <=>  X != 0
        l, r = strip(c.ch[0]), strip(c.ch[1])
        op = c['op']
        if is_x(r) and not is_x(l):
            l, r = r, l
            op = {'<': '>', '>': '<', '<=': '>=', '>=': '<='}[op]
        if not is_x(l) or 'v' not in r.d or not _is_unsigned(l):
            return None
        if (op, r['v']) in (('>', 0), ('>=', 1)):
            ne_true = True
        elif (op, r['v']) in (('<', 1), ('<=', 0)):
            ne_true = False
        else:
            return None
        eq_true = (not ne_true) != neg
        return (0, 0 if eq_true else 1, 1 if eq_true else 0)
    if is_x(c):
        # `if (X)`: true edge X != 0
        eq_true = neg
        return (0, 0 if eq_true else 1, 1 if eq_true else 0)
    return None


def blocks_testing(func, is_x):
    out = []
    for b in func.blocks.values():
        if b.cond is None or len(b.all_succs) != 2:
            continue
        if any(is_x(n) for n in b.cond.walk()):
            out.append(b)
    return out


def reach_from_edge(func, block, succ_index, stop=None):
    s, unr = block.all_succs[succ_index]
    if s is None or unr:
        return set(), False
    return C.reach(func, (s, 0), stop)


def value_holders(func, call):
    """ids of variables that hold the call's result"""
    h = holder(func, call)
    return {h} if h is not None else set()


def is_result_of(func, call):
    hs = value_holders(func, call)

    def pred(n):
        if n is call:
            return True
        return n.k == 'DeclRefExpr' and n['ref']['kind'] in ('var', 'parm') and n['ref']['id'] in hs
    return pred


REACH_FLOOR = 150   # functions reachable from execv/execve on the pinned tree (155), confirmed by hand


def checked_reach(cg, prog, floor=REACH_FLOOR):
    """reachable set from the interposers; a count below the confirmed floor means the call graph
    lost edges (e.g. a table or callback is no longer resolved): analysis broken, not a pass"""
    reach = cg.reachable(entry_points(prog))
    if len(reach) < floor and 'SNOOPY_CONF_THREAD_SAFETY_ENABLED' in prog.macros and \
            'SNOOPY_CONF_CONFIGFILE_ENABLED' in prog.macros and 'SNOOPY_CONF_FILTERING_ENABLED' in prog.macros:
        raise AnalysisBroken('only %d functions are reachable from the interposers (floor %d): the call graph is '
                             'incomplete' % (len(reach), floor))
    return reach


_never = {}


def never_returns(prog, f):
    """every path of f ends in a call that does not return (exit, abort, another such function)"""
    if f.key in _never:
        return _never[f.key]
    _never[f.key] = False
    if f.cfg_error:
        return False
    if f.d.get('noreturn'):
        _never[f.key] = True
        return True

    def stop(e):
        return is_noreturn_call(prog, f, e)
    _, ex = C.reach(f, (f.entry, 0), stop)
    # reach() reports exit when a path arrives there without being stopped
    _never[f.key] = not ex
    return _never[f.key]


def is_noreturn_call(prog, func, e):
    if e.k != 'CallExpr':
        return False
    if e.get('calleeNoReturn'):
        return True
    name = e.get('callee')
    if name in ('exit', '_exit', 'abort', '_Exit', 'quick_exit'):
        return True
    t = prog.func(name, func.tu) if name else None
    return t is not None and t is not func and never_returns(prog, t)


def ctype_test(c):
    """recognise isdigit(X) & co in either form glibc gives them: a call, or the macro expansion
    (*__ctype_b_loc())[(int)(X)] & _ISdigit.  Returns (class name such as 'digit', X node) or None."""
    c = strip(c)
    if c is None:
        return None
    if c.k == 'CallExpr' and (c.get('callee') or '').startswith('is') and c.get('callee') in (
            'isdigit', 'isalpha', 'isspace', 'isalnum', 'isupper', 'islower', 'isxdigit', 'ispunct', 'isprint'):
        return c['callee'][2:], strip(arg(c, 0))
    if c.k == 'BinaryOperator' and c.get('op') == '&':
        tab, cls = None, None
        for x in c.ch:
            sx = strip(x)
            if sx is None:
                continue
            if sx.k == 'ArraySubscriptExpr' and any(n.k == 'CallExpr' and n.get('callee') == '__ctype_b_loc' for n in sx.ch[0].walk()):
                tab = sx
            else:
                for n in sx.walk():
                    if n.k == 'DeclRefExpr' and (n['ref'].get('name') or '').startswith('_IS'):
                        cls = n['ref']['name'][3:]
        if tab is not None and cls is not None:
            x = tab.ch[1]
            # peel the (int)((X)) wrapper of the macro
            while x is not None and x.k in ('ImplicitCastExpr', 'ParenExpr', 'CStyleCastExpr'):
                x = x.ch[0]
            return cls, x
    return None


def guarded_at(func, target, guard_edge, kills):
    """True when on every path to `target` (a node) a guard edge has been crossed after the last
    killing element.  guard_edge(block) -> successor index that establishes the guard, or None;
    kills(elem) -> True when elem invalidates it (e.g. the index variable changes)."""
    def transfer(st, e):
        return False if kills(e) else st

    def edge(st, blk, si):
        g = guard_edge(blk)
        if g is not None and si == g:
            return True
        return st
    ins = C.forward_dataflow(func, False, transfer, lambda a, b: a and b, edge_transfer=edge)
    for bid, st in ins.items():
        if st is None:
            continue
        for e in func.blocks[bid].elems:
            if e is target or any(x is target for x in e.walk()):
                return st
            st = transfer(st, e)
    return False


def modifies_var(e, var_id):
    if e.k == 'UnaryOperator' and e.get('op') in ('++', '--'):
        return (decl_of(e.ch[0]) or {}).get('id') == var_id and strip(e.ch[0]).k == 'DeclRefExpr'
    if e.k in ('BinaryOperator', 'CompoundAssignOperator') and (e.get('op') == '=' or e.k == 'CompoundAssignOperator'):
        return strip(e.ch[0]).k == 'DeclRefExpr' and (decl_of(e.ch[0]) or {}).get('id') == var_id
    if e.k == 'DeclStmt':
        return any(d['id'] == var_id for d in e['decls'])
    return False


def not_empty_string_edge(blk, mentions):
    """successor index of blk taken when the string expression tested is NOT the empty string:
    strcmp(X, "") != 0, X[0] != 0, *X -- for an X for which mentions(X node) holds; else None"""
    c = strip(blk.cond) if blk.cond is not None else None
    if c is None or len(blk.all_succs) != 2:
        return None

    def is_x(n):
        if n.k == 'CallExpr' and n.get('callee') in ('strcmp', 'strncmp', 'strlen'):
            if n['callee'] == 'strlen':
                return mentions(n)
            lits = [a for a in n.ch[1:] if a is not None and strip(a).k == 'StringLiteral' and strip(a).get('s') == '']
            return bool(lits) and mentions(n)
        if n.k == 'ArraySubscriptExpr' and strip(n.ch[1]).get('v') == 0 and 'char' in (n.get('ct') or '') and \
                not (n.get('ct') or '').rstrip().endswith('*'):
            return mentions(n)
        if n.k == 'UnaryOperator' and n.get('op') == '*' and (n.get('ct') or '').replace('const ', '').strip() == 'char':
            return mentions(n)
        return False
    ce = compare_edges(blk, is_x)
    if ce is None or ce[0] != 0:
        return None
    return ce[2]     # the edge where X != 0: strcmp differs / first character is not NUL


def const_eval(n, env):
    """value of an integer/pointer expression under env {decl id: int}; None when unknown"""
    n = strip(n)
    if n is None:
        return None
    if n.get('null'):
        return 0
    if 'v' in n.d and n.k != 'DeclRefExpr':
        return n['v']
    if n.k == 'CallExpr':
        return env.get(('call', n.id))      # the outcome of a call under study, pinned by the rule
    if n.k == 'DeclRefExpr':
        if n['ref'].get('kind') == 'enum' and 'v' in n.d:
            return n['v']
        return env.get(n['ref'].get('id'))
    if n.k == 'ConditionalOperator':
        c = const_eval(n.ch[0], env)
        if c is None:
            a, b = const_eval(n.ch[1], env), const_eval(n.ch[2], env)
            return a if a is not None and a == b else None
        return const_eval(n.ch[1] if c else n.ch[2], env)
    if n.k == 'UnaryOperator':
        v = const_eval(n.ch[0], env)
        if v is None:
            return None
        return {'!': int(not v), '-': -v, '+': v, '~': ~v}.get(n['op'])
    if n.k == 'BinaryOperator':
        op = n['op']
        a, b = const_eval(n.ch[0], env), const_eval(n.ch[1], env)
        if op == '&&':
            if a == 0 or b == 0:
                return 0
            return None if a is None or b is None else 1
        if op == '||':
            if (a is not None and a != 0) or (b is not None and b != 0):
                return 1
            return None if a is None or b is None else 0
        if a is None or b is None:
            return None
        import operator as o
        f = {'==': o.eq, '!=': o.ne, '<': o.lt, '>': o.gt, '<=': o.le, '>=': o.ge, '+': o.add, '-': o.sub, '*': o.mul}.get(op)
        return int(f(a, b)) if f else None
    return None


def explore_paths(func, start, env, want, edge_ok=None, limit=4000, force=None, after_edge=None, stop=None, with_env=False):
    """enumerate the paths from CFG position `start` to the function's exits under a constant environment that
    is updated along each path (x = constant sets it, any other write to x forgets it) and prunes the branches
    it decides.  stop(e): the path ends at element e (reported with e as its last event).  Returns a list of paths, each the list of elements e with want(e) in execution order.
    edge_ok(block, successor index) -> False drops paths through that edge; force {element id: (var, value)}
    pins a variable right after that element (the outcome of a call under study).  after_edge (block id, successor
    index): only paths that cross that edge are returned, and only the events behind the crossing."""
    out = []
    count = [0]
    overflow = [False]

    def upd(env, e):
        tgt = None
        if e.k == 'BinaryOperator' and e.get('op') == '=' and strip(e.ch[0]).k == 'DeclRefExpr':
            tgt = (decl_of(e.ch[0]) or {}).get('id')
            v = const_eval(e.ch[1], env)
        elif e.k == 'DeclStmt':
            new = dict(env)
            for d in e['decls']:
                if d.get('init', -1) != -1:
                    v = const_eval(func.nodes[d['init']], env)
                    if v is None:
                        new.pop(d['id'], None)
                    else:
                        new[d['id']] = v
                else:
                    new.pop(d['id'], None)
            return new
        elif e.k in ('CompoundAssignOperator',) or (e.k == 'UnaryOperator' and e.get('op') in ('++', '--')):
            tgt = (decl_of(e.ch[0]) or {}).get('id')
            v = None
        elif e.k == 'CallExpr':
            new = None
            for a in e.ch[1:]:
                sa = strip(a) if a is not None else None
                if sa is not None and sa.k == 'UnaryOperator' and sa.get('op') == '&':
                    d = decl_of(sa.ch[0])
                    if d is not None and d['id'] in env:
                        new = dict(new if new is not None else env)
                        new.pop(d['id'], None)
            return new if new is not None else env
        else:
            return env
        if tgt is None:
            return env
        new = dict(env)
        if v is None:
            new.pop(tgt, None)
        else:
            new[tgt] = v
        return new

    def walk(b, i, env, events, seen, crossed=(after_edge is None)):
        count[0] += 1
        if count[0] > limit:
            overflow[0] = True
            return
        key = (b, i, tuple(sorted(env.items(), key=str)))
        if key in seen:
            return
        seen = seen | {key}
        blk = func.blocks[b]
        for n_, e in enumerate(blk.elems[i:]):
            if stop is not None and stop(e):
                out.append(events + [e])
                return
            if crossed and want(e):
                events = events + [(e, dict(env)) if with_env else e]
            env = upd(env, e)
            if force and e.id in force:
                env = dict(env)
                env[force[e.id][0]] = force[e.id][1]     # e.g. "this search found nothing"
            if e.k == 'ReturnStmt':
                if crossed:
                    out.append(events)
                return
        succs = [(k, s) for k, (s, u) in enumerate(blk.all_succs) if s is not None and not u]
        if blk.cond is not None and len(blk.all_succs) == 2:
            v = const_eval(blk.cond, env)
            if v is not None:
                succs = [(k, s) for k, s in succs if k == (0 if v else 1)]
        if not succs:
            if crossed:
                out.append(events)
            return
        for k, s in succs:
            if edge_ok is not None and not edge_ok(blk, k):
                continue
            walk(s, 0, env, events, seen, crossed or (after_edge is not None and after_edge == (b, k)))
    walk(start[0], start[1], dict(env), [], frozenset())
    if overflow[0]:
        return None if after_edge is not None else out
    return out


def with_helpers(prog, f, depth=3):
    """f followed by the file-local (static) functions it calls, transitively: the unit a maintainer may split a
    function into without changing what it does.  Rules tied to "the function that does X" look at all of them."""
    out, todo = [f], [(f, 0)]
    while todo:
        g, d = todo.pop(0)
        if d >= depth:
            continue
        for c in g.calls():
            t = prog.func(c.get('callee'), g.tu) if c.get('callee') else None
            if t is not None and t.internal and t not in out and not t.cfg_error:
                out.append(t)
                todo.append((t, d + 1))
    return out


def release_rule(ctx, reach, rule, consequence):
    """A10 over the given reachable functions: no block is released twice, returned or used after free()"""
    from engine import uaf
    from engine.facts import AnalysisBroken
    chk = ctx.chk
    nsites = 0
    for key, (f, _, _) in sorted(reach.items(), key=lambda kv: str(kv[0])):
        fs, n = uaf.analyse(f)
        nsites += n
        if n:
            chk.ob(rule, 'released-blocks-left-alone[%s]' % f.name, not fs, (fs[0].node if fs else f.body).where(), f.name,
                   '%s is %s by %s after free() at %s: %s' % (
                       fs[0].name if fs else '', fs[0].kind if fs else '', render(fs[0].node)[:50] if fs else '',
                       fs[0].freed_at.where() if fs else '', consequence),
                   how='%d release site(s); no read of a released pointer before it is assigned again' % n)
    chk.count('release_sites', nsites)
    if nsites < 10:
        raise AnalysisBroken('only %d free() sites found in the reachable code (expected about 45)' % nsites)


RETRYABLE_IO = {'read', 'recv', 'recvfrom', 'pread', 'write', 'send', 'pwrite', 'readlink'}


def failed_io_ends_loop_rule(ctx, reach, rule):
    """a read()/write()-class call inside a loop: when it FAILS (-1) the loop must not come back to the same call,
    except through a test of errno for an interruption (EINTR/EAGAIN retry).  A failure that persists (EISDIR, EIO,
    EBADF) would otherwise be retried for ever and the exec never happens."""
    from engine import cfg as Cg
    chk = ctx.chk
    n = 0
    for key, (f, _, _) in sorted(reach.items(), key=lambda kv: str(kv[0])):
        if f.cfg_error:
            continue
        for c in f.calls():
            if c.get('callee') not in RETRYABLE_IO or not Cg.in_loop(f, c):
                continue
            hv = holder(f, c)
            pos = Cg.elem_positions(f)
            el = Cg.cfg_elem_of(f, c)
            if el is None or el.id not in pos:
                continue
            n += 1
            b0, i0 = pos[el.id]
            # the element that assigns the result
            blk = f.blocks[b0]
            j = i0
            for k in range(i0, len(blk.elems)):
                if any(x is c for x in blk.elems[k].walk()):
                    j = k

            def errno_retry_edge(bb, k):
                # edges taken when errno == EINTR / EAGAIN are the accepted retries
                cnd = strip(bb.cond) if bb.cond is not None else None
                if cnd is None:
                    return True
                if any(x.k == 'CallExpr' and x.get('callee') == '__errno_location' for x in cnd.walk()):
                    return False
                return True
            paths = explore_paths(f, (b0, j + 1), ({hv: -1} if hv is not None else {('call', c.id): -1}), lambda e: False, edge_ok=errno_retry_edge,
                                  stop=lambda e: e.id == c.id)
            again = [p for p in (paths or []) if p and p[-1].id == c.id]
            chk.ob(rule, 'failed-io-ends-loop[%s:%s]' % (f.name, c['callee']), not again, c.where(), f.name,
                   'when %s fails (-1) the loop comes back to the same call without the failure having been looked at: a '
                   'failure that persists (EISDIR, EIO, EBADF, ...) is retried for ever and the calling process never '
                   'reaches its exec' % render(c)[:50],
                   how='with the result forced to -1 no path leads back to the call (errno-tested retries aside)')
    chk.count('io_calls_in_loops', n)
    return n


def alias_root(func, decl_id, depth=0):
    """the variable a pointer variable is a plain copy of: follows `p = q` / `T *p = q` when that is p's only non-null
    definition (parameters of inlined helpers, result variables); the id itself otherwise"""
    from engine.dataflow import def_exprs, def_sites
    if depth > 8:
        return decl_id
    sites = def_sites(func, decl_id)
    if any(k in ('incdec', 'addr') for k, _ in sites):
        return decl_id
    defs = [strip(x) for x in def_exprs(func, decl_id)]
    defs = [x for x in defs if x is not None and not (x.get('null') or x.get('v') == 0)]
    if len(defs) != 1:
        return decl_id
    x = defs[0]
    while x is not None and x.k == 'ImplicitCastExpr':
        x = strip(x.ch[0]) if x.ch else None
    if x is not None and x.k == 'DeclRefExpr' and x['ref'].get('kind') in ('var', 'parm') and x['ref']['id'] != decl_id:
        return alias_root(func, x['ref']['id'], depth + 1)
    return decl_id


def thread_data_maker(prog):
    """the function that allocates and initialises a thread's record: snoopy_tsrm_createNewThreadData, or - when that
    small helper has been merged into its only caller - the constructor itself (inlined view)"""
    from engine import inline
    f = prog.func('snoopy_tsrm_createNewThreadData')
    if f is None:
        f = prog.require_func('snoopy_tsrm_ctor')
    return inline.inlined(prog, f)


def pointer_flow(prog, seed):
    """where the pointers designated by `seed` (a predicate on nodes) travel between functions:
    ({function key: ids of the parameters that can receive one}, seed predicate extended by the calls of program
    functions that return one).  Flow-insensitive fixed point over PtrTaint."""
    from engine.dataflow import PtrTaint
    params = {}
    returns = set()

    def seed2(n):
        return seed(n) or (n.k == 'CallExpr' and n.get('callee') in returns)
    changed = True
    rounds = 0
    while changed and rounds < 10:
        changed = False
        rounds += 1
        for f in prog.functions:
            if f.cfg_error:
                continue
            pt = PtrTaint(f, seed2, params.get(f.key, ()))
            for c in f.calls():
                t = prog.func(c.get('callee'), f.tu) if c.get('callee') else None
                if t is None:
                    continue
                for i, a in enumerate(c.ch[1:]):
                    if a is not None and i < len(t.params) and pt.is_derived(a):
                        s_ = params.setdefault(t.key, set())
                        if t.params[i]['id'] not in s_:
                            s_.add(t.params[i]['id'])
                            changed = True
            if f.name not in returns:
                for r in C.return_nodes(f):
                    if r.ch and r.ch[0] is not None and pt.is_derived(r.ch[0]):
                        returns.add(f.name)
                        changed = True
                        break
    return params, seed2
