"""C02 — no configuration or exec input can crash or corrupt the calling process
(memory-safety discipline: A4 bounded writes / termination / overflow, A5 nullable results)."""
import json
import os
import re

from engine import cfg as C
from engine import facts, terminate
from engine.bounds import BoundsAnalysis, _FuncAnalysis
from engine.dataflow import decl_of, def_exprs
from engine.facts import AnalysisBroken, render, strip, VERIF
from engine.linear import Lin
from engine.nullness import NullAnalysis, ent_name
from rules import common
from rules.common import arg
from rules.C03 import load_exceptions

LEVEL = 'other'

LIMIT_FIELDS = {
    'datasource_message_max_length': ('SNOOPY_DATASOURCE_MESSAGE_MAX_LENGTH_HARDMIN', 'SNOOPY_DATASOURCE_MESSAGE_MAX_LENGTH_HARDMAX',
                                      'SNOOPY_DATASOURCE_MESSAGE_MAX_LENGTH_DEFAULT'),
    'log_message_max_length': ('SNOOPY_LOG_MESSAGE_MAX_LENGTH_HARDMIN', 'SNOOPY_LOG_MESSAGE_MAX_LENGTH_HARDMAX',
                               'SNOOPY_LOG_MESSAGE_MAX_LENGTH_DEFAULT'),
}
TEXT_TO_INT = {'atoi', 'atol', 'atoll', 'strtol', 'strtoll', 'strtoul', 'strtoull', 'sscanf'}


def ini_max_line(ctx):
    mk = ctx.bm.mk.get('lib/inih/src')
    if mk is None:
        raise AnalysisBroken('lib/inih/src/Makefile.am not found')
    for cond, w in mk.vars.get('AM_CFLAGS', []):
        m = re.match(r'^-DINI_MAX_LINE=(\d+)$', w)
        if m:
            return int(m.group(1))
    raise AnalysisBroken('-DINI_MAX_LINE not set in lib/inih/src/Makefile.am (the line cap bounds every config value)')


def derive_limits(ctx, prog, cg, ba):
    """D1: the two length limits can only take values in [HARDMIN, HARDMAX]."""
    chk = ctx.chk
    P = prog.require_func('snoopy_util_parser_strByteLength')
    pv = {p['name']: Lin.sym(('var', p['id'], p['name'])) for p in P.params}
    # every call site passes constants with min <= max (checked below per field), which the clamp
    # argument needs on the path that assigns valMax
    A = _FuncAnalysis(ba, P, [pv['valMax'] - pv['valMin']] if 'valMax' in pv and 'valMin' in pv else [])
    ok_all = True
    nret = 0
    orig = A.transfer

    def transfer(st, e):
        nonlocal ok_all, nret
        if e.k == 'ReturnStmt' and e.ch:
            nret += 1
            v = A.lin(e.ch[0], st)
            ps = {p['name']: Lin.sym(('var', p['id'], p['name'])) for p in P.params}
            inr = v is not None and A.entails(st, v - ps['valMin']) and A.entails(st, ps['valMax'] - v)
            isdef = v is not None and A.entails(st, v - ps['valDefault']) and A.entails(st, ps['valDefault'] - v)
            if not (inr or isdef):
                ok_all = False
                chk.ob('D1', 'clamp[return@%s]' % render(e)[:30], False, e.where(), P.name,
                       '%s is neither within [valMin, valMax] nor the default on some path' % render(e))
        return orig(st, e)
    A.transfer = transfer
    A.run()
    chk.ob('D1', 'byte-length-parser-clamps', ok_all and nret >= 1, P.where(), P.name,
           'a return of the byte-length parser escapes the clamp',
           how='%d return statements: each yields valDefault or a value proved in [valMin, valMax]' % nret)
    bounds = {}
    for fld, (mn, mx, df) in LIMIT_FIELDS.items():
        lo, hi, d = (common.macro_value(ctx.repo, m) for m in (mn, mx, df))
        okd = lo <= d <= hi
        # every store to the field: the default constant or strByteLength(x, MIN, MAX, DEFAULT)
        good = True
        detail = ''
        n = 0
        for f in prog.functions:
            for node in f.body.walk():
                if node.k in ('BinaryOperator', 'CompoundAssignOperator') and (node['op'] == '=' or node.k == 'CompoundAssignOperator'):
                    l = strip(node.ch[0])
                    if l.k == 'MemberExpr' and l.get('member') == fld and l.get('record') == 'snoopy_configuration_t':
                        n += 1
                        r = strip(node.ch[1])
                        if node.k == 'CompoundAssignOperator':
                            good, detail = False, '%s is modified by %s' % (fld, render(node))
                        elif r.get('v') is not None:
                            if not (lo <= r['v'] <= hi):
                                good, detail = False, '%s is set to %d outside [%d, %d]' % (fld, r['v'], lo, hi)
                        elif r.k == 'CallExpr' and r.get('callee') == P.name:
                            vals = [strip(a).get('v') for a in r.ch[2:5]]
                            if vals != [lo, hi, d]:
                                good, detail = False, '%s parsed with limits %s instead of (%d, %d, %d)' % (fld, vals, lo, hi, d)
                        else:
                            good, detail = False, '%s assigned from %s at %s' % (fld, render(r), node.where())
        chk.ob('D1', 'limit-range[%s]' % fld, okd and good and n >= 1, '', fld,
               detail or 'default %d outside [%d, %d]' % (d, lo, hi),
               how='%d store(s): the default %d or the clamped parser result, so %s in [%d, %d] always' % (n, d, fld, lo, hi))
        if okd and good and ok_all:
            bounds[fld] = (lo, hi)
    return bounds


def run(ctx):
    chk = ctx.chk
    chk.rule('A4', 'every load from a character object of known extent and every write (library writer with a size, unbounded writer, subscript/pointer store, (buffer,size) '
                   'contract at call sites) stays inside its destination object for all values the linear facts admit', floor=120)
    chk.rule('A4T', 'after a non-terminating writer a terminating store reaches every later use as a string', floor=8)
    chk.rule('A4R', 'every data source leaves its result buffer NUL-terminated on every return path', floor=20)
    chk.rule('A4O', 'no signed arithmetic on integers converted from input text without a dominating range check', floor=1)
    chk.rule('H1', 'every loop changes, on every way round, something one of its exit conditions depends on '
                   '(necessary for termination; not a termination proof)', floor=20)
    chk.rule('A10', 'no heap block is released twice, returned or otherwise used after free() (typestate over local pointers '
                    'and parameters, every path)', floor=15)
    chk.rule('A9', 'an automatic char array or malloc()ed buffer is written (store, or a callee that may write it) on every '
                   'path before it is read (load, const-pointee / %s argument, strcat destination, reading callee)', floor=30)
    chk.rule('A5', 'results that may be NULL / buffers only valid on success are tested before use', floor=40)
    chk.rule('D1', 'derived facts the bounds rely on: the clamp of the length parser and the range of the two limits; '
                   'the INI line cap covers the fixed filter-name buffer', floor=4)
    chk.explanation = (
        'Every sink in the library code reachable from execv/execve generates an obligation that is discharged by a '
        'forward analysis over conjunctions of linear inequalities (Fourier-Motzkin projection/entailment, loop '
        'invariants by join + relaxation candidates + widening), with symbolic buffer sizes: the result is valid for '
        'every result-buffer size and every input length, not for sampled ones. Non-linear or content-dependent '
        'arguments are not attempted: such sites are listed, reasoned exceptions with machine-checked side conditions.')
    chk.assumptions = ['invalid pointers and memory exhaustion are outside the domain',
                       'libc writers respect their size argument; snprintf returns the untruncated length (>= 0)',
                       'a string passed in by the caller is NUL-terminated inside its object']
    chk.not_decided = ['termination proper (H1 decides only that no loop can spin without touching its exit condition)', 'uninitialised scalars (left to the compiler warnings the build already enables); initialisation of buffers at byte granularity (A9 decides whole-object written-before-read)', 'UB kinds outside the rules',
                       'over-reads through pointers whose object is not known to the analysis (argv/envp vectors, library results); loads from character objects of known extent are A4 obligations']
    prog = ctx.program(facts.AS_CONFIGURED, 'lib')
    cg = ctx.callgraph(facts.AS_CONFIGURED, 'lib')
    roots = common.entry_points(prog)
    reach = common.checked_reach(cg, prog) if roots else {}
    cg.require_resolved(within=set(reach))
    ba = BoundsAnalysis(prog, cg)
    # every data source is given a result buffer of at least DS_MIN_BUF bytes: assumed inside the data sources (whose
    # arithmetic on the size - "size - 4 for the dots" - would wrap around for tiny buffers), demanded from every call
    # site, the registry's indirect call included
    for f_ in common.datasource_functions(prog) + [x for x in (prog.func('snoopy_datasourceregistry_callById'),
                                                               prog.func('snoopy_datasourceregistry_callByName')) if x is not None]:
        szi = next((i for i, p_ in enumerate(f_.params) if 'size_t' in (p_.get('t') or '') or (p_.get('ct') or '').strip() == 'unsigned long'), None)
        if szi is not None:
            ba.size_floor[f_.key] = (szi, DS_MIN_BUF)
    GF = prog.func('snoopy_message_generateFromFormat')
    if GF is not None:
        # the limit from which it sizes the buffer it hands to the data sources (limit + 1 bytes)
        gi = next((i for i, p_ in enumerate(GF.params) if i >= 2 and 'char' not in (p_.get('ct') or '')), None)
        if gi is not None:
            ba.size_floor[GF.key] = (gi, DS_MIN_BUF - 1)
    BA[0] = ba
    ba.field_bounds = derive_limits(ctx, prog, cg, ba)
    # ---- side conditions of the exceptions -------------------------------------------------------
    exc = {(r['function'], r['entity']): r for r in load_exceptions('A4')}
    maxline = ini_max_line(ctx)
    name_buf = common.macro_value(ctx.repo, 'SNOOPY_FILTER_NAME_MAX_SIZE')
    NAME_BUF[0] = name_buf
    chain_default = prog.macros.get('SNOOPY_CONF_FILTER_CHAIN', '""').strip('"')
    ok = maxline <= name_buf and len(chain_default) < name_buf
    chk.ob('D1', 'ini-line-cap-covers-filter-name-buffer', ok, 'lib/inih/src/Makefile.am', '',
           'INI_MAX_LINE=%d (every filter_chain from snoopy.ini is shorter) and the compiled-in chain (%d chars) must fit '
           'SNOOPY_FILTER_NAME_MAX_SIZE=%d: raising the line cap lets a long filter name overflow filterName[]' % (
               maxline, len(chain_default), name_buf),
           how='INI_MAX_LINE=%d <= %d and default chain length %d < %d' % (maxline, name_buf, len(chain_default), name_buf))
    chain_writers = []
    for f in prog.functions:
        for node in f.body.walk():
            if node.k == 'BinaryOperator' and node['op'] == '=':
                l = strip(node.ch[0])
                if l.k == 'MemberExpr' and l.get('member') == 'filter_chain':
                    chain_writers.append((f, node))
    okw = all(strip(n.ch[1]).k == 'StringLiteral' or
              (strip(n.ch[1]).k == 'CallExpr' and strip(n.ch[1]).get('callee') == 'strdup' and f.name.startswith('snoopy_configfile_parseValue_'))
              for f, n in chain_writers)
    chk.ob('D1', 'filter-chain-sources', okw and bool(chain_writers), '', '',
           'filter_chain is also assigned from something else than the compiled-in literal or a snoopy.ini value',
           how='%d stores: compiled-in literal or strdup of an ini value (<= INI_MAX_LINE-1 chars)' % len(chain_writers))
    inil = prog.require_func('snoopy_ini_parse_stream')
    linebuf = [d for d in inil.local_decls() if d['name'] == 'line']
    okl = bool(linebuf) and linebuf[0].get('arrayLen') == maxline
    chk.ob('D1', 'ini-line-buffer', okl, inil.where(), inil.name,
           'inih does not read lines into a stack buffer of INI_MAX_LINE bytes (INI_USE_STACK)',
           how='char line[%d]; the reader is handed max_line = %d' % (maxline, maxline), nontrivial=False)
    # ---- A4 ---------------------------------------------------------------------------------------
    nfun = 0
    nreads = 0
    # callers before callees: a file-local helper is analysed under what all of its call sites guarantee
    for f in ba.order_callers_first([v[0] for _, v in sorted(reach.items(), key=lambda kv: str(kv[0]))]):
        nfun += 1
        obls = ba.analyse(f)
        nreads += sum(1 for o in obls if o.kind == 'read')
        seen = {}
        for o in obls:
            i = seen.get((o.kind, o.text), 0)
            seen[(o.kind, o.text)] = i + 1
            k = '%s[%s:%s#%d]' % (o.kind, f.name, o.text, i)
            if not o.ok:
                row = exc.get((f.name, o.text)) or semantic_row(exc, prog, f, o)
                if row is not None:
                    sc_ok, sc_how = side_condition(ctx, prog, f, o, row)
                    if sc_ok:
                        if row not in chk.exceptions_used:
                            chk.exceptions_used.append(row)
                        chk.ob('A4', k, True, o.node.where(), f.name,
                               how='reasoned exception: %s [%s]' % (row['reason'], sc_how))
                        continue
                    chk.ob('A4', k, False, o.node.where(), f.name,
                           'exception for %s no longer applies: %s' % (o.text, sc_how))
                    continue
            if not o.ok and f.internal:
                okc, howc = proved_in_callers(prog, ba, f, o)
                if okc:
                    chk.ob('A4', k, True, o.node.where(), f.name, how=howc)
                    continue
            if not o.ok:
                okc, howc = proved_in_own_view(prog, ba, f, o)
                if okc:
                    chk.ob('A4', k, True, o.node.where(), f.name, how=howc)
                    continue
            chk.ob('A4', k, o.ok, o.node.where(), f.name, o.missing, how=o.how)
    chk.count('functions_analysed', nfun)
    chk.count('read_obligations', nreads)
    if ba.check_reads and nreads < 30:
        raise AnalysisBroken('only %d load obligations were generated (expected the ~50 character loads of the parsers)' % nreads)
    chk.count('contract_call_sites', ba.contract_sites)
    # ---- A4T --------------------------------------------------------------------------------------
    nsites = 0
    for key, (f, _, _) in sorted(reach.items(), key=lambda kv: str(kv[0])):
        fs, n = terminate.analyse(prog, f)
        nsites += n
        bad = {}
        for x in fs:
            bad.setdefault(x.origin.id, x)
        seen = {}
        for c in f.calls():
            if c.get('callee') in terminate.NON_TERMINATING:
                i = seen.get(c['callee'], 0)
                seen[c['callee']] = i + 1
                x = bad.get(c.id)
                chk.ob('A4T', 'terminated[%s:%s#%d]' % (f.name, c['callee'], i), x is None, (x.node if x else c).where(),
                       f.name, x.detail if x else '',
                       how='a terminator is stored (or the destination is not used as a string) on every path after %s' % render(c)[:50])
    # ---- A4R: data sources leave their result terminated ---------------------------------------------
    memo = {}
    for ds in common.datasource_functions(prog):
        okr, node = terminate.result_terminated(prog, ds, 0, memo)
        chk.ob('A4R', 'result-terminated[%s]' % ds.name, okr, (node or ds.body).where(), ds.name,
               '%s can return at %s after filling its result buffer without a terminator: the message then continues '
               'with whatever the (reused) buffer held before, e.g. text of an earlier exec' % (
                   ds.name, node.where() if node is not None else ''),
               how='on every path to a return the last write to the result buffer is a terminating one (or none)')
    # ---- A4O --------------------------------------------------------------------------------------
    nconv = 0
    for key, (f, _, _) in sorted(reach.items(), key=lambda kv: str(kv[0])):
        for c in f.calls():
            if c.get('callee') not in TEXT_TO_INT:
                continue
            nconv += 1
            h = common.holder(f, c)
            bad = None
            if h is not None:
                bad = unchecked_signed_arith(f, c, h)
            chk.ob('A4O', 'converted[%s:%s]' % (f.name, c['callee']), bad is None, (bad or c).where(), f.name,
                   'the value converted by %s takes part in signed arithmetic %s without a range check before it: '
                   'large numbers overflow (undefined behaviour, values wrap to the minimum)' % (
                       render(c)[:40], render(bad) if bad is not None else ''),
                   how='no signed +,-,* on the converted value before a dominating comparison, or the arithmetic is unsigned')
    chk.count('text_to_int_conversions', nconv)
    # ---- H1: loops make progress ---------------------------------------------------------------------
    from engine import cfg as Cfg
    nloops = 0
    for key, (f, _, _) in sorted(reach.items(), key=lambda kv: str(kv[0])):
        live = Cfg.reachable_blocks(f)
        loops = [c for c in Cfg._sccs(f, live) if len(c) > 1 or c[0] in f.blocks[c[0]].succs]
        if not loops:
            continue
        stuck = Cfg.stuck_cycles(f)
        for i, comp in enumerate(sorted(loops, key=min)):
            nloops += 1
            # a stuck cycle may be an inner loop (or a `continue` path) of this loop
            hit = next(((conds, w) for c, conds, w in stuck if set(c) <= set(comp)), None)
            at = f.body
            for b in sorted(comp):
                blk = f.blocks[b]
                if blk.cond is not None:
                    at = blk.cond
                    break
            chk.ob('H1', 'loop-progress[%s#%d]' % (f.name, i), hit is None, at.where(), f.name,
                   'the loop can go round without changing anything its exit condition%s depends on (%s): once entered '
                   'on that path it never ends and the exec never happens' % (
                       's' if hit and len(hit[0]) != 1 else '', '; '.join(render(c)[:60] for c in hit[0]) if hit else ''),
                   how='every cycle assigns a variable of an exit condition, or the condition itself advances state')
    chk.count('loops_checked', nloops)
    # ---- A10: released blocks are left alone ------------------------------------------------------------------
    common.release_rule(ctx, reach, 'A10', 'a double free or a use after free corrupts the allocator state; glibc usually '
                        'detects it and aborts the process')
    # ---- A9: buffers are written before they are read -------------------------------------------------
    from engine.uninit import UninitAnalysis
    ua = UninitAnalysis(prog)
    for key, (f, _, _) in sorted(reach.items(), key=lambda kv: str(kv[0])):
        seen9 = {}
        for bname, node, bad in ua.analyse(f):
            i = seen9.get(bname, 0)
            seen9[bname] = i + 1
            chk.ob('A9', 'written-before-read[%s:%s#%d]' % (f.name, bname, i), bad is None, (bad or node).where(), f.name,
                   '%s is read by %s while, on some path from its declaration/allocation, nothing has been written to it: '
                   'the bytes are indeterminate (stale stack or heap contents end up in the record, or the read runs past '
                   'the buffer)' % (bname, render(bad)[:60] if bad is not None else ''),
                   how='every load / const-pointee or %s use is preceded by a store or a writing callee on all paths')
    chk.count('buffers_tracked', ua.buffers)
    # ---- A5 ---------------------------------------------------------------------------------------
    exc5 = load_exceptions('A5')
    na = NullAnalysis(prog, cg)
    nuses = 0
    for key, (f, _, _) in sorted(reach.items(), key=lambda kv: str(kv[0])):
        vs = na.analyse(f)
        by_ent = {}
        for v in vs:
            en = ent_name(f, v.ent)
            row = [r for r in exc5 if r['function'] == f.name and r['entity'] == en]
            if row:
                if row[0] not in chk.exceptions_used:
                    chk.exceptions_used.append(row[0])
                continue
            by_ent.setdefault((en, v.kind), v)
        for (en, kind), v in by_ent.items():
            chk.ob('A5', '%s[%s:%s]' % (kind, f.name, en), False, v.node.where(), f.name, v.detail)
        # one passing obligation per fallible source in the function
        seen = {}
        from engine.nullness import NULL_RESULT, OUT_BUFFERS
        for c in f.calls():
            cn = c.get('callee')
            if cn in NULL_RESULT or cn in OUT_BUFFERS:
                i = seen.get(cn, 0)
                seen[cn] = i + 1
                if not any(v.origin is c for v in vs):
                    chk.ob('A5', 'tested[%s:%s#%d]' % (f.name, cn, i), True, c.where(), f.name,
                           how='result of %s is tested before every dependent use' % render(c)[:60])
    chk.count('pointer_uses_checked', na.uses)
    # function pointers taken from tables: a row with NULL pointers (the option table's terminator) must
    # never be selected, whatever name the configuration file supplies
    from rules.C08 import sentinel_rule
    real_ob = chk.ob

    def ob(rule, key, ok, *a, **k):
        return real_ob('A5' if rule == 'T1' else rule, 'null-table-slot:' + key if rule == 'T1' else key, ok, *a, **k)
    chk.ob = ob
    try:
        sentinel_rule(ctx, prog)
    finally:
        chk.ob = real_ob


DS_MIN_BUF = 16


def csv_slot_array(f):
    """(decl of the slot array, countChars call, character counted) of a function that allocates its result array
    from the number of separator characters in its input, or None"""
    cnt = f.calls('snoopy_util_string_countChars')
    if len(cnt) != 1:
        return None
    h = common.holder(f, cnt[0])
    for m in f.calls('malloc') + f.calls('calloc'):
        refs = {(decl_of(x) or {}).get('id') for a in m.ch[1:] if a is not None for x in a.walk() if x.k == 'DeclRefExpr'}
        # the count reaches the size expression directly or through one local (argCount = commaCount + 1)
        via = {d['id'] for d in f.local_decls() if any(
            any((decl_of(x) or {}).get('id') == h for x in e.walk() if x.k == 'DeclRefExpr') for e in def_exprs(f, d['id']))}
        if h is not None and (h in refs or refs & via):
            arr = common.holder(f, m)
            if arr is not None:
                return arr, cnt[0], strip(arg(cnt[0], 1)).get('v')
    return None


def store_base(o):
    n = o.node
    if n is None or n.k != 'BinaryOperator' or n.get('op') != '=':
        return None
    l = strip(n.ch[0])
    while l is not None and l.k in ('ArraySubscriptExpr',) or (l is not None and l.k == 'UnaryOperator' and l.get('op') == '*'):
        l = strip(l.ch[0])
    d = decl_of(l) if l is not None else None
    return d['id'] if d is not None else None


BA = [None]
NAME_BUF = [None]


def semantic_row(exc, prog, f, o):
    """exceptions that name their entity by role instead of by source text, so that renaming a variable,
    rewriting an index expression or moving the statement into a file-local helper does not change what the
    exception is about"""
    for (fn, _), row in exc.items():
        if row.get('entity_by') == 'filter-name-buffer' and o.kind == 'write':
            owner = prog.func(fn)
            if owner is not None and f in common.with_helpers(prog, owner):
                # the destination is the local array of SNOOPY_FILTER_NAME_MAX_SIZE bytes
                n_ = o.node
                dst = None
                if n_.k == 'CallExpr' and n_.get('callee') in ('strncpy', 'memcpy', 'memmove', '__builtin_strncpy', '__builtin_memcpy'):
                    dst = decl_of(arg(n_, 0))
                elif n_.k == 'BinaryOperator' and n_.get('op') == '=' and strip(n_.ch[0]).k == 'ArraySubscriptExpr':
                    dst = decl_of(strip(n_.ch[0]).ch[0])
                if dst is not None:
                    size_ = next((x.get('size') for x in f.local_decls() if x['id'] == dst['id'] and 'arrayLen' in x), None)
                    if size_ is not None and size_ == NAME_BUF[0]:
                        return row
        if row.get('entity_by') == 'fread-chunks' and o.kind == 'write' and o.node.k == 'CallExpr' and \
                o.node.get('callee') == 'fread':
            owner = prog.func(fn)
            if owner is not None and f in common.with_helpers(prog, owner):
                return row
        if fn != f.name or row.get('entity_by') != 'csv-slots' or o.kind != 'write':
            continue
        sa = csv_slot_array(f)
        if sa is not None and store_base(o) == sa[0]:
            return row
        if sa is None and not f.calls('snoopy_util_string_countChars') and any(
                common.holder(f, m) == store_base(o) for m in f.calls('malloc') + f.calls('calloc')):
            # the list splitter counts its separators itself: that the second walk meets as many as the first one
            # counted is not a linear fact, and the argument accepted for countChars()/strchr() does not carry over
            raise AnalysisBroken('%s sizes its slot array from a count it computes itself (%s): the slots-per-separator '
                                 'argument is only implemented for a snoopy_util_string_countChars() count' % (
                                     f.name, render(o.node)[:50]))
    return None


def csv_side_condition(f, o):
    sa = csv_slot_array(f)
    if sa is None:
        return False, 'the slot array is no longer allocated from one countChars() result'
    arr, cnt, ch = sa
    src = render(arg(cnt, 0))
    # the allocation really has count+2 slots: evaluate its size for two values of the count
    h = common.holder(f, cnt)
    alloc = next(m for m in f.calls('malloc') + f.calls('calloc') if common.holder(f, m) == arr)

    def slots(k):
        env = {h: k}
        for d in f.local_decls():
            ds = def_exprs(f, d['id'])
            if d['id'] != h and len(ds) >= 1:
                v = common.const_eval(ds[0], env)     # the first assignment: the one the allocation sees
                if v is not None:
                    env[d['id']] = v
        if alloc.get('callee') == 'calloc':
            a_, b_ = common.const_eval(arg(alloc, 0), env), common.const_eval(arg(alloc, 1), env)
            tot = a_ * b_ if a_ is not None and b_ is not None else None
        else:
            tot = common.const_eval(arg(alloc, 0), env)
        return None if tot is None else tot // 8
    s0, s5 = slots(0), slots(5)
    if s0 is None or s5 is None or s0 < 2 or s5 - s0 < 5:
        return False, 'the slot array is not provably count+2 pointers large (size for count 0: %s, for count 5: %s slots)' % (s0, s5)
    if not C.in_loop(f, o.node):
        # stores outside the scan: at most one before it and one behind it (the two extra slots)
        outside = [e for b in f.blocks.values() for e in b.elems
                   if e.k == 'BinaryOperator' and e.get('op') == '=' and not C.in_loop(f, e) and
                   store_base(type('O', (), {'node': e})) == arr and strip(e.ch[0]).k != 'DeclRefExpr']
        mn, mx = C.count_on_paths(f, lambda e: any(e.id == x.id for x in outside))
        return mx <= 2, 'at most two stores outside the scan (%s on the longest path) into the countChars()+2 slots' % mx
    # a store inside the scan: one per separator met
    st = f.calls('strchr')
    if st and render(arg(st[0], 0)) is not None and any(
            strip(arg(c, 1)).get('v') == ch for c in st) and any(C.in_loop(f, c) for c in st):
        return True, 'slots are allocated from countChars(%s, c)+2 and the loop advances with strchr(.., c) over the same string' % src
    is_cur = lambda x: (x.k == 'UnaryOperator' and x.get('op') == '*' and decl_of(x.ch[0]) is not None) or \
        (x.k == 'ArraySubscriptExpr' and decl_of(x.ch[0]) is not None)

    def guard_edge(blk):
        ce = common.compare_edges(blk, is_cur) if blk.cond is not None else None
        return ce[1] if ce is not None and ce[0] == ch else None
    ok = common.guarded_at(f, o.node, guard_edge,
                           lambda e: e.k == 'BinaryOperator' and e.get('op') == '=' and e is not o.node and
                           store_base(type('O', (), {'node': e})) == arr)
    return ok, ('the store in the scan is reached only through the test of the current character against the counted one'
                if ok else 'a store into the slot array inside the scan is not tied to meeting the counted character')


_INL_OBLS = {}


def proved_in_callers(prog, ba, f, o):
    """an obligation of a file-local helper that cannot be proved from the helper alone (its parameters are anonymous
    there) is proved if it holds in the inlined view of every function that calls the helper: there the arguments
    are the callers' own buffers and lengths"""
    from engine import inline
    callers = [g for g in prog.functions if g.tu is f.tu and g is not f and g.calls(f.name)]
    if not callers:
        return False, ''
    n = 0
    for g in callers:
        gi = inline.inlined(prog, g)
        if gi is g or f.name not in getattr(gi, 'inlined_from', ()):
            return False, ''
        if g.key not in _INL_OBLS:
            from engine.bounds import BoundsAnalysis
            b2 = BoundsAnalysis(prog, ba.cg)
            b2.field_bounds = ba.field_bounds
            b2.global_facts = ba.global_facts
            b2.size_floor = ba.size_floor
            _INL_OBLS[g.key] = b2.analyse(gi)
        same = [x for x in _INL_OBLS[g.key] if x.kind == o.kind and x.text == o.text and x.node.line == o.node.line and
                f.name in (x.node.get('_chain') or ())]
        if not same or not all(x.ok for x in same):
            return False, ''
        n += len(same)
    return True, 'proved in the inlined view of every caller (%s): %d instance(s)' % (', '.join(g.name for g in callers), n)


def _inl_obligations(prog, ba, g):
    from engine import inline
    gi = inline.inlined(prog, g)
    if gi is g:
        return None, None
    if g.key not in _INL_OBLS:
        from engine.bounds import BoundsAnalysis
        b2 = BoundsAnalysis(prog, ba.cg)
        b2.field_bounds = ba.field_bounds
        b2.global_facts = ba.global_facts
        b2.size_floor = ba.size_floor
        _INL_OBLS[g.key] = b2.analyse(gi)
    return gi, _INL_OBLS[g.key]


def proved_in_own_view(prog, ba, f, o):
    """an obligation of a function that hands part of its work to file-local helpers (what a helper returned is
    unknown to it; a (buffer, size) contract was guessed for a helper that takes an offset) is proved if it holds in
    the function's inlined view, where the helpers' statements stand in place of the calls"""
    gi, obls = _inl_obligations(prog, ba, f)
    if gi is None:
        return False, ''
    if o.text.startswith('contract '):
        callee = o.text[len('contract '):].split('(')[0]
        if callee not in getattr(gi, 'inlined_from', ()):
            return False, ''
        inside = [x for x in obls if callee in (x.node.get('_chain') or ())]
        if all(x.ok for x in inside):
            return True, 'the call is expanded in the inlined view: the %d obligation(s) of %s hold there' % (len(inside), callee)
        return False, ''
    same = [x for x in obls if x.kind == o.kind and x.text == o.text and x.node.line == o.node.line and not x.node.get('_chain')]
    if same and all(x.ok for x in same):
        return True, 'proved in the inlined view of %s (helpers: %s)' % (f.name, ', '.join(sorted(set(gi.inlined_from))))
    return False, ''


def side_condition(ctx, prog, f, o, row):
    sc = row.get('side_condition')
    if sc == 'ini-line-cap':
        bad = [x for x in ctx.chk.obls if x.rule == 'D1' and not x.ok]
        return (not bad, 'D1 side conditions hold' if not bad else 'a D1 side condition failed')
    if sc == 'fread-chunks':
        call = o.node
        n = (strip(arg(call, 1)).get('v') or 0) * (strip(arg(call, 2)).get('v') or 0)
        cap = None
        d = decl_of(arg(call, 0)) or decl_of(strip(arg(call, 0)).ch[0] if strip(arg(call, 0)).ch else None)
        if d is not None and d.get('kind') == 'parm' and BA[0] is not None:
            # the loop lives in a file-local helper: the capacity is what every call site hands in
            cap = BA[0].preconditions(f)[1].get(d.get('index'))
        else:
            for m in f.calls('malloc'):
                v = strip(arg(m, 0)).get('v')
                if v is not None and common.holder(f, m) is not None and (d is None or common.holder(f, m) == d['id']):
                    cap = v if cap is None else max(cap, v)
        short_break = any(b.cond is not None and any(x.k == 'BinaryOperator' and x['op'] == '<' and
                                                       strip(x.ch[1]).get('v') == n for x in b.cond.walk())
                          for b in f.blocks.values())
        # the loop is entered only while the running total is below the capacity
        bounded = any(b.cond is not None and strip(b.cond).k == 'BinaryOperator' and strip(b.cond)['op'] == '<' and
                      strip(strip(b.cond).ch[1]).get('v') == cap and C.in_loop(f, b.cond) for b in f.blocks.values())
        ok = bool(n) and cap is not None and cap % n == 0 and short_break and bounded and C.in_loop(f, call)
        return ok, 'chunk %s divides capacity %s, the loop runs while the total is below it and leaves on a short read' % (n, cap)
    if sc == 'csv-count':
        return csv_side_condition(f, o)
    return True, 'no side condition'


def unchecked_signed_arith(f, call, holder_id):
    """first signed +,-,* on the variable holding the converted value that is not dominated by a
    comparison of that variable"""
    tests = []
    for b in f.blocks.values():
        if b.cond is not None and any(n.k == 'DeclRefExpr' and n['ref'].get('id') == holder_id for n in b.cond.walk()):
            c = strip(b.cond)
            if c.k == 'BinaryOperator' and c['op'] in ('<', '>', '<=', '>='):
                tests.append(b)
    for n in f.body.walk():
        if n.k in ('BinaryOperator', 'CompoundAssignOperator') and n['op'] in ('*', '+', '-', '*=', '+=', '-=', '<<'):
            if not any(x.k == 'DeclRefExpr' and x['ref'].get('id') == holder_id for x in n.walk()):
                continue
            ct = n.get('ct') or ''
            if 'unsigned' in ct or ct.rstrip().endswith('*'):
                continue
            if not ('int' in ct or 'long' in ct):
                continue
            if n['op'] in ('+', '-') and any('v' in strip(c).d and abs(strip(c)['v']) <= 4096 for c in n.ch):
                # adding a small constant to an int/long converted from at most ~20 digits cannot
                # overflow a 64-bit long; int is the risky width
                if 'long' in ct:
                    continue
            dominated = any(C.always_preceded(f, n, lambda e, b=b: b.elems and e.id == b.elems[-1].id) for b in tests)
            if not dominated:
                return n
    return None
