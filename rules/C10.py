"""C10 — exec in a forked child of a multithreaded process never deadlocks.

Fork-safety protocol for every process-wide mutex acquired on the interposers' path:
a pthread_atfork registration must be in force before the first acquisition, whose
prepare handler acquires the mutex (so no other thread is inside a locked region at
the instant of the fork and the protected data is consistent), whose parent handler
releases it and whose child handler releases or re-initialises it."""
from engine import cfg as C
from engine import facts
from engine.dataflow import Summaries, decl_of
from engine.facts import AnalysisBroken, render, strip
from rules import common

LEVEL = 'other'
LOCK = {'pthread_mutex_lock', 'pthread_mutex_trylock', 'pthread_mutex_timedlock',
        'pthread_rwlock_rdlock', 'pthread_rwlock_wrlock', 'pthread_spin_lock', 'sem_wait'}
UNLOCK = {'pthread_mutex_unlock'}
REINIT = {'pthread_mutex_init'}


OTHER_LOCKS = {'flock', 'lockf', 'lockf64', 'sem_wait', 'sem_timedwait', 'pthread_rwlock_rdlock', 'pthread_rwlock_wrlock',
               'pthread_spin_lock', 'pthread_cond_wait', 'pthread_cond_timedwait', 'flockfile'}
FCNTL_LOCK_CMDS = {6, 7, 37, 38}     # F_SETLK, F_SETLKW, F_OFD_SETLK, F_OFD_SETLKW (Linux)


def mutex_of(call):
    """name of the global whose address is the first argument, or rendered text."""
    a = strip(call.ch[1]) if len(call.ch) > 1 else None
    if a is not None and a.k == 'UnaryOperator' and a['op'] == '&':
        a = strip(a.ch[0])
    r = decl_of(a) if a is not None else None
    if r is not None and r.get('staticStorage'):
        return r['name']
    return None


def handler(prog, f, arg):
    s = strip(arg)
    if s is None:
        return None
    if s.k == 'UnaryOperator' and s['op'] == '&':
        s = strip(s.ch[0])
    if s.k == 'DeclRefExpr' and s['ref']['kind'] == 'func':
        return prog.func(s['ref']['name'], f.tu)
    return None


def must_do(summ, fn, apis, mutex):
    """every path of handler fn executes a call of one of `apis` on `mutex`."""
    if fn is None:
        return False

    def pred(e):
        if e.k != 'CallExpr':
            return False
        if e.get('callee') in apis and mutex_of(e) == mutex:
            return True
        # through a helper that must do it
        cs = summ.site(fn, e)
        if cs is None:
            return False
        ts = [t for t in cs.targets if not isinstance(t, str)]
        return bool(ts) and all(must_do(summ, t, apis, mutex) for t in ts) and len(ts) == len(cs.targets)
    return C.must_pass_through(fn, pred)


def run(ctx):
    chk = ctx.chk
    chk.rule('FK1', 'a process-wide lock is acquired on the exec path (rule instances exist)', floor=1)
    chk.rule('FK2', 'every mutex acquired on the exec path is covered by a pthread_atfork registration: prepare '
                    'acquires it, parent releases it, child releases or re-initialises it', floor=1)
    chk.rule('FK3', 'the registration is in force before the first acquisition and is made once per process', floor=0)
    chk.rule('FK5', 'the mutex locked by the prepare handler tolerates a second lock by its owner (handlers registered from a '
                    'pthread_once routine can be registered twice across a fork)', floor=1)
    chk.rule('FK4', 'no lock of a kind the fork handlers cannot release in the child (file locks on inherited descriptors, '
                    'semaphores, rwlocks, spinlocks, condition waits) is taken on the exec path', floor=1)
    chk.explanation = (
        'Pure protocol property: schedules are quantified away. If some thread can hold the mutex at the instant of '
        'fork() the child inherits a locked mutex that no thread of the child will ever release, and its first '
        'pthread_mutex_lock on the exec path blocks forever. The only remedies are fork handlers; the rule finds all '
        'lock sites reachable from execv/execve through the resolved call graph and checks the handlers by CFG '
        'must-pass-through.')
    chk.assumptions = ['fork() is the only way a child with a copied address space is created (vfork/clone(CLONE_VM) '
                       'share the lock with the parent)',
                       'pthread_atfork handlers run in the forking thread, as POSIX specifies']
    for variant in (facts.AS_CONFIGURED,):
        prog = ctx.program(variant, 'lib')
        cg = ctx.callgraph(variant, 'lib')
        summ = Summaries(cg)
        roots = [prog.require_func('execv'), prog.require_func('execve')]
        reach = common.checked_reach(cg, prog) if roots else {}
        locks = {}
        for key, (f, _, _) in reach.items():
            for c in f.calls():
                if c.get('callee') in LOCK:
                    m = mutex_of(c)
                    if m is None:
                        raise AnalysisBroken('lock on a non-global object at %s: %s' % (c.where(), render(c)))
                    locks.setdefault(m, []).append((f, c))
        chk.count('lock_sites', sum(len(v) for v in locks.values()))
        # FK4: lock kinds the fork handlers cannot cover.  A lock on an open file description
        # (flock / lockf / F_SETLK*) is shared with every fork child that inherits the descriptor: a child
        # forked while another thread holds it keeps it alive after that thread's close(); semaphores,
        # rwlocks, spinlocks and condition waits are copied in their locked state like a mutex.
        foreign = []
        for key, (f, _, _) in reach.items():
            for c in f.calls():
                if c.get('callee') in OTHER_LOCKS:
                    foreign.append((f, c))
                if c.get('callee') in ('fcntl', 'fcntl64') and len(c.ch) > 2 and strip(c.ch[2]).get('v') in FCNTL_LOCK_CMDS:
                    foreign.append((f, c))
        for f, c in foreign:
            chk.ob('FK4', 'uncovered-lock[%s:%s]' % (f.name, c['callee']), False, c.where(), f.name,
                   '%s takes a lock that no fork handler releases in the child: a child forked from another thread while it '
                   'is held inherits it (an flock()/lockf() lock even stays held through the inherited descriptor after the '
                   'parent thread closed its own), and the child\'s first wrapped exec blocks on it forever' % render(c)[:60])
        chk.ob('FK4', 'only-mutexes-are-held', not foreign, '', '', '%d other lock site(s)' % len(foreign),
               how='no flock/lockf/fcntl lock, semaphore, rwlock, spinlock or condition wait reachable from execv/execve')
        special = owner_checked_mutexes(prog, reach)
        regs = []
        for key, (f, _, _) in reach.items():
            for c in f.calls('pthread_atfork'):
                regs.append((f, c))
        for m, sites in sorted(locks.items()):
            chk.ob('FK1', 'mutex[%s]' % m, True, sites[0][1].where(), sites[0][0].name,
                   how='%d acquisition site(s) reachable from execv/execve: %s' % (
                       len(sites), ', '.join('%s@%s' % (f.name, c.where()) for f, c in sites[:6])),
                   nontrivial=False)
            good = None
            why = []
            for f, c in regs:
                args = c.ch[1:]
                if len(args) != 3:
                    continue
                prep, par, child = (handler(prog, f, a) for a in args)
                p_ok = must_do(summ, prep, LOCK, m)
                a_ok = must_do(summ, par, UNLOCK, m)
                # a recursive / error-checking mutex records its owner's kernel thread id, which
                # differs in the child: unlocking there fails (EPERM) and the mutex stays locked,
                # so the child handler must re-initialise it
                owner_checked = m in special
                c_ok = must_do(summ, child, REINIT if owner_checked else (UNLOCK | REINIT), m)
                if p_ok and a_ok and c_ok:
                    good = (f, c, prep, par, child)
                else:
                    why.append('%s at %s: prepare %s, parent %s, child %s' % (
                        render(c), c.where(),
                        'acquires' if p_ok else 'does not acquire it on every path',
                        'releases' if a_ok else 'does not release it on every path',
                        'releases/re-initialises' if c_ok else (
                            'does not re-initialise it (the mutex is recursive/error-checking: an unlock in the '
                            'child fails with EPERM)' if owner_checked else 'neither releases nor re-initialises it')))
            detail = ('no pthread_atfork registration is reachable from the interposers: a child forked while another '
                      'thread holds %s (sites: %s) blocks forever in its first wrapped exec' % (
                          m, ', '.join('%s@%s' % (f.name, c.where()) for f, c in sites[:4]))) if not regs else \
                '; '.join(why)
            chk.ob('FK2', 'atfork-covers[%s]' % m, good is not None,
                   sites[0][1].where(), sites[0][0].name, detail,
                   how='' if good is None else 'pthread_atfork(%s, %s, %s) in %s' % (
                       good[2].name, good[3].name, good[4].name, good[0].name))
            if good is not None:
                f, c, _, _, _ = good
                # before first acquisition: on every path of each interposer, any lock of m is
                # preceded by the registration (pthread_once callbacks count as completed calls)
                allok = True
                w = ''
                for r in roots:
                    ok, w1 = ordered_lock_after_reg(summ, r, m)
                    if not ok:
                        allok = False
                        w = w1
                chk.ob('FK3', 'registered-before-first-lock[%s]' % m, allok, c.where(), f.name, w,
                       how='every acquisition is preceded by the pthread_atfork call on all paths')
                # once per process: the registering function is only reachable as a pthread_once
                # initialiser (or a constructor)
                once = registered_once(cg, reach, f)
                chk.ob('FK3', 'registered-once[%s]' % m, once, c.where(), f.name,
                       '%s can run on every call: fork handlers would accumulate (and run N times per fork)' % f.name,
                       how='%s is only invoked through pthread_once' % f.name)
                # pthread_once does not make the registration unique across fork: a child forked while another
                # thread is inside the once routine (after the pthread_atfork call) finds the once control reset and
                # runs the routine again on its first call - the handlers are then registered twice and the prepare
                # handler locks the mutex twice in one thread on the child's next fork.  Only a mutex that tolerates
                # re-locking by its owner survives that.
                chk.ob('FK5', 'relock-tolerant[%s]' % m, m in special, sites[0][1].where(), sites[0][0].name,
                       'the mutex the fork handlers lock is not recursive: with the handlers registered from a pthread_once '
                       'routine a child forked during that routine registers them a second time, and its next fork() '
                       'deadlocks in the prepare handler (second lock of a default mutex by its owner)',
                       how='initialised with a PTHREAD_MUTEX_RECURSIVE attribute')
        if not locks:
            # nothing to protect: the property holds trivially in this variant; still require the
            # rule to have seen the code
            raise AnalysisBroken('no lock acquisition found on the exec path (thread safety disabled?)')
    chk.not_decided = ['children created with vfork()/clone(CLONE_VM)',
                       'stale per-thread entries of the parent\'s other threads in the child (memory only, see C09/C16)']


def ordered_lock_after_reg(summ, root, mutex):
    return summ.ordered(root, {'pthread_atfork'}, LOCK)


def registered_once(cg, reach, f):
    """f is reached only as a callback of pthread_once (never called directly)."""
    direct = False
    via_once = False
    for cs in cg.sites:
        if cs.caller.key not in reach:
            continue
        for t in cs.targets:
            if not isinstance(t, str) and t.key == f.key:
                direct = True
        for cb in cs.callbacks:
            if cb.key == f.key:
                if cs.node.get('callee') == 'pthread_once':
                    via_once = True
                else:
                    direct = True
    if f.d.get('ctorAttr'):
        return not direct
    return via_once and not direct


def owner_checked_mutexes(prog, reach):
    """mutexes initialised with an attribute object whose type was set to something other than
    the default (RECURSIVE, ERRORCHECK): names of the mutex globals."""
    def attr_key(f, node):
        """identity of the attribute object: a global by name, a local by (function, decl id)"""
        s = strip(node)
        if s is not None and s.k == 'UnaryOperator' and s['op'] == '&':
            s = strip(s.ch[0])
        r = decl_of(s) if s is not None else None
        if r is None:
            return None
        if r.get('staticStorage') and r.get('kind') != 'parm' and not r.get('local'):
            return ('global', r['name'])
        return ('local', f.key, r['id'])
    typed_attrs = set()
    for f in prog.functions:
        for c in f.calls('pthread_mutexattr_settype'):
            a = attr_key(f, c.ch[1]) if len(c.ch) > 1 else None
            kind = strip(c.ch[2])
            # PTHREAD_MUTEX_NORMAL / DEFAULT == 0
            if a is not None and kind.get('v') != 0:
                typed_attrs.add(a)
    out = set()
    for f in prog.functions:
        for c in f.calls('pthread_mutex_init'):
            m = mutex_of(c)
            attr = c.ch[2] if len(c.ch) > 2 else None
            an = attr_key(f, attr) if attr is not None else None
            if m is not None and an in typed_attrs:
                out.add(m)
    return out
