"""C18 / C19 shared machinery and the C18 rule — snoopyctl enable adds exactly one entry and
preserves the file (control-flow clauses, entry-recognition table, append position, bounded copies)."""
from engine import cfg as C
from engine import facts
from engine.bounds import BoundsAnalysis
from engine.dataflow import Summaries, decl_of, def_exprs
from engine.facts import AnalysisBroken, render, strip
from engine.linear import Lin
from rules import common
from rules.common import arg

LEVEL = 'other'
WRITER = 'etcLdSoPreload_writeFile'
READER = 'etcLdSoPreload_readFile'
FIND_ENTRY = 'etcLdSoPreload_findEntry'
FIND_FOREIGN = 'etcLdSoPreload_findNonCommentLineContainingString'
ENABLE = 'snoopy_cli_action_enable'
DISABLE = 'snoopy_cli_action_disable'
# "followed by end, newline, '#', space or tab"
FOLLOWERS = {0, 10, 35, 32, 9}
PROG = [None]
ISSPACE = {9, 10, 11, 12, 13, 32}


def q1_sole_writer(ctx, prog, cg, rule='Q1'):
    chk = ctx.chk
    W = prog.require_func(WRITER)
    callers = sorted({cs.caller.name for cs in cg.callers_of(WRITER)})
    chk.ob(rule, 'writer-callers', callers == sorted([ENABLE, DISABLE]), W.where(), WRITER,
           '%s is called from %s, expected exactly enable and disable' % (WRITER, callers),
           how='callers: %s' % ', '.join(callers))
    # nothing else in the CLI opens the preload path for writing (C20-AT1 decides the open modes)
    from rules.C20 import is_final_seed
    from engine.dataflow import PtrTaint
    others = []
    for f in prog.functions:
        if f.name == WRITER:
            continue
        pt = PtrTaint(f, is_final_seed)
        for c in f.calls():
            if c.get('callee') in ('fopen', 'open', 'rename', 'unlink', 'truncate', 'creat', 'remove'):
                for i, a in enumerate(c.ch[1:]):
                    if a is not None and pt.is_derived(a):
                        if c['callee'] == 'fopen':
                            m = strip(arg(c, 1))
                            if m is not None and m.get('s') in ('r', 'rb'):
                                continue
                        others.append((f, c))
    chk.ob(rule, 'no-other-writer', not others, others[0][1].where() if others else '', '',
           '%s also touches the preload path: %s' % (others[0][0].name if others else '', render(others[0][1]) if others else ''),
           how='only %s opens the preload path other than read-only' % WRITER)


def edges_of_test(F, call, null_means):
    """(block, edge index taken when the pointer result of `call` is NULL / non-NULL)"""
    isx = common.is_result_of(F, call)
    out = []
    for b in common.blocks_testing(F, isx):
        c = strip(b.cond)
        neg = False
        while c is not None and c.k == 'UnaryOperator' and c['op'] == '!':
            neg = not neg
            c = strip(c.ch[0])
        if c is None:
            continue
        if c.k == 'BinaryOperator' and c['op'] in ('==', '!='):
            l, r = strip(c.ch[0]), strip(c.ch[1])
            if not ((r.get('null') or c.ch[1].get('null') or r.get('v') == 0) and isx(l) or
                    (l.get('null') or c.ch[0].get('null') or l.get('v') == 0) and isx(r)):
                continue
            null_true = (c['op'] == '==') != neg
        elif isx(c):
            null_true = neg
        else:
            continue
        null_edge = 0 if null_true else 1
        out.append((b, null_edge if null_means else 1 - null_edge))
    return out


def path_outcome(F, b, e, write_call):
    """what a path starting at edge e of block b can do: reaches the write? returns which
    constants? ends in a no-return call?"""
    prog = F.tu and PROG[0]
    visited, _ = common.reach_from_edge(F, b, e, stop=lambda x: common.is_noreturn_call(prog, F, x))
    nodes = [F.nodes[i] for i in visited]
    writes = any(n.id == write_call.id for n in nodes)
    rets = {strip(n.ch[0]).get('v') for n in nodes if n.k == 'ReturnStmt' and n.ch}
    noret = any(common.is_noreturn_call(prog, F, n) for n in nodes)
    return writes, rets, noret


def follower_test(ctx, prog, rule):
    """the own-entry search accepts the entry only when the character after it is one of the
    documented followers"""
    chk = ctx.chk
    FE = prog.require_func(FIND_ENTRY)
    ep = FE.params[1]['id']
    consts = set()
    unknown = []

    def follower_expr(n):
        # entryPos[strlen(entry)]  /  *(entryPos + strlen(entry))
        s = strip(n)
        if s is None:
            return False
        idx = None
        if s.k == 'ArraySubscriptExpr':
            idx = strip(s.ch[1])
        elif s.k == 'UnaryOperator' and s['op'] == '*':
            t = strip(s.ch[0])
            if t.k == 'BinaryOperator' and t['op'] == '+':
                idx = strip(t.ch[1])
        if idx is None:
            return False
        if idx.k == 'CallExpr' and idx.get('callee') == 'strlen' and (decl_of(arg(idx, 0)) or {}).get('id') == ep:
            return True
        d = decl_of(idx)
        if d is not None:
            return any(strip(x).k == 'CallExpr' and strip(x).get('callee') == 'strlen' and
                       (decl_of(arg(strip(x), 0)) or {}).get('id') == ep for x in def_exprs(FE, d['id']))
        return False

    def collect(func, is_fol, depth=0):
        for n in func.body.walk():
            if n.k == 'BinaryOperator' and n['op'] == '==':
                for x, y in ((n.ch[0], n.ch[1]), (n.ch[1], n.ch[0])):
                    if is_fol(x) and 'v' in strip(y).d:
                        consts.add(strip(y)['v'])
            elif n.k == 'CallExpr':
                fa = [i for i, a in enumerate(n.ch[1:]) if a is not None and (is_fol(a) or
                      any(is_fol(z) for z in a.walk() if z.k in ('ArraySubscriptExpr', 'UnaryOperator')))]
                if not fa:
                    continue
                name = n.get('callee')
                if name == 'isspace':
                    consts.update(ISSPACE)
                elif name in ('isblank',):
                    consts.update({9, 32})
                elif name == 'strlen':
                    continue
                else:
                    t = prog.func(name, func.tu) if name else None
                    if t is not None and depth < 2:
                        pid = t.params[fa[0]]['id']
                        collect(t, lambda z, pid=pid: (decl_of(z) or {}).get('id') == pid, depth + 1)
                    else:
                        unknown.append(n)
    collect(FE, follower_expr)
    # a search over the REST of the content instead of a test of that one character
    searches = [c for c in FE.calls() if c.get('callee') in ('strpbrk', 'strcspn', 'strspn', 'strchr', 'strstr') and
                any(z.k == 'CallExpr' and z.get('callee') == 'strlen' and (decl_of(arg(z, 0)) or {}).get('id') == ep
                    for z in arg(c, 0).walk()) and c.get('callee') != 'strstr']
    ok = consts == FOLLOWERS and not unknown and not searches
    detail = 'the character after a candidate entry is accepted when it is one of %s; documented: %s' % (
        sorted(consts), sorted(FOLLOWERS))
    if searches:
        detail = '%s searches the rest of the content instead of testing the single character after the entry: any ' \
                 'line merely starting with the library path counts as the entry' % render(searches[0])[:60]
    elif unknown:
        detail = 'the character after the entry is classified by %s, whose accepted set is unknown' % render(unknown[0])[:50]
    chk.ob(rule, 'entry-follower-set', ok, FE.where(), FE.name, detail,
           how='accepted followers = {NUL, LF, #, space, tab}')
    # start-of-line test: content start or preceded by '\n'
    prev = set()
    for n in FE.body.walk():
        if n.k == 'BinaryOperator' and n['op'] == '==':
            for x, y in ((n.ch[0], n.ch[1]), (n.ch[1], n.ch[0])):
                sx = strip(x)
                if sx.k == 'ArraySubscriptExpr' and strip(sx.ch[1]).get('v') == -1 and 'v' in strip(y).d:
                    prev.add(strip(y)['v'])
    chk.ob(rule, 'entry-at-line-start', prev == {10}, FE.where(), FE.name,
           'an entry must start the content or follow a newline; the preceding character is compared with %s' % sorted(prev),
           how='entryPos == content || entryPos[-1] == LF')


def run(ctx):
    chk = ctx.chk
    chk.rule('Q1', 'etcLdSoPreload_writeFile is the only function that opens the preload path for writing and its callers '
                   'are exactly enable and disable', floor=2)
    chk.rule('Q2', 'enable: every path to the write passes the "own entry not found" and the "no foreign active line" '
                   'outcomes; "already enabled" returns 0 and "foreign instance" ends in the fatal exit, both without '
                   'writing; the write happens at most once', floor=5)
    chk.rule('Q3', 'the new content buffer is sized old length + path length + 2, every store into it is bounded, the old '
                   'content is copied whole and the entry is appended at or after its end', floor=4)
    chk.rule('Q6', 'own-entry recognition: the entry starts a line and is followed by NUL, newline, "#", space or tab '
                   '(exactly the documented follower set, tested on that single character)', floor=2)
    chk.explanation = (
        'Control-flow clauses by branch-polarity reachability over the enable action, the follower-character set of the '
        'entry search compared with the documented set, and linear-inequality obligations for the buffer arithmetic: '
        'the copy of the old content covers strlen(old) bytes and the append position is proved >= new + strlen(old), so '
        'nothing of the old content is overwritten, for every file content.')
    chk.assumptions = ['C20 holds (the write replaces the file atomically with the buffer given)']
    chk.not_decided = ['byte-level result beyond these clauses: comment-line classification by the foreign-instance '
                       'search, agreement with `snoopyctl status`']
    prog = ctx.program(facts.AS_CONFIGURED, 'cli')
    PROG[0] = prog
    cg = ctx.callgraph(facts.AS_CONFIGURED, 'cli')
    q1_sole_writer(ctx, prog, cg)
    F = prog.require_func(ENABLE)
    wc = F.calls(WRITER)
    if len(wc) != 1:
        chk.ob('Q2', 'write-at-most-once', False, F.where(), F.name, '%d calls of %s in enable' % (len(wc), WRITER))
        return
    wc = wc[0]
    mn, mx = C.count_on_paths(F, lambda e: e.id == wc.id)
    chk.ob('Q2', 'write-at-most-once', mx == 1, wc.where(), F.name, 'the write can execute %s times' % mx)
    fe, ff = F.calls(FIND_ENTRY), F.calls(FIND_FOREIGN)
    if not fe or not ff:
        raise AnalysisBroken('enable does not call %s / %s' % (FIND_ENTRY, FIND_FOREIGN))
    # what is searched
    rd = F.calls(READER)
    content = common.holder(F, rd[0]) if rd else None
    okc = bool(rd) and (decl_of(arg(fe[0], 0)) or {}).get('id') == content and (decl_of(arg(ff[0], 0)) or {}).get('id') == content
    chk.ob('Q2', 'searches-the-current-content', okc, fe[0].where(), F.name,
           'the entry / foreign-instance searches are not applied to the content just read')
    for call, label, expect in ((fe[0], 'already-enabled', 'return0'), (ff[0], 'foreign-instance', 'fatal')):
        found_edges = edges_of_test(F, call, null_means=False)
        absent_edges = edges_of_test(F, call, null_means=True)
        ok = bool(found_edges)
        detail = 'the result of %s is not tested' % call.get('callee')
        for b, e in found_edges:
            writes, rets, noret = path_outcome(F, b, e, wc)
            if writes:
                ok, detail = False, 'when %s the write is still reachable: the file is rewritten' % label
            elif expect == 'return0' and rets != {0}:
                ok, detail = False, 'the %s path returns %s, expected 0 without writing' % (label, sorted(map(str, rets)))
            elif expect == 'fatal' and (rets or not noret):
                ok, detail = False, 'the %s path does not end in the fatal exit (returns %s)' % (label, sorted(map(str, rets)))
        chk.ob('Q2', '%s-leaves-file-untouched' % label, ok, call.where(), F.name, detail,
               how='the "found" edge cannot reach the write and %s' % ('returns 0' if expect == 'return0' else 'ends in fatalError'))
        dom = C.always_preceded(F, wc, lambda x: any(b.elems and x.id == b.elems[-1].id for b, _ in absent_edges + found_edges))
        chk.ob('Q2', '%s-tested-before-write' % label, dom and bool(absent_edges), wc.where(), F.name,
               'a path reaches the write without the %s test' % label)
    follower_test(ctx, prog, 'Q6')
    # ---- Q3 ------------------------------------------------------------------------------------------
    ba = BoundsAnalysis(prog, cg)
    newbuf = decl_of(arg(wc, 0))
    libp = None
    for c in F.calls():
        if c.get('callee') in ('libsnoopySo_getFilePath', 'libsnoopySo_getFilePathNoCheck'):
            libp = common.holder(F, c)
    queries = {}
    copies = [c for c in F.calls() if c.get('callee') in ('strncpy', 'memcpy', 'strcpy', 'snprintf')]
    if newbuf is None or content is None or libp is None:
        raise AnalysisBroken('cannot identify the new buffer / old content / library path variables in enable')

    def sym(did, name):
        return Lin.sym(('var', did, name))
    names = {d['id']: d['name'] for d in F.local_decls()}
    NEW, CUR, LIB = sym(newbuf['id'], names.get(newbuf['id'], 'new')), sym(content, names.get(content, 'cur')), sym(libp, names.get(libp, 'lib'))
    Lcur = Lin.sym(('strlen', ('decl', content), names.get(content, 'cur')))
    Llib = Lin.sym(('strlen', ('decl', libp), names.get(libp, 'lib')))
    for c in copies:
        src = decl_of(arg(c, 1))
        if src is not None and src['id'] == libp:
            def q(A, st, c=c):
                d = A.lin(arg(c, 0), st)
                ok = d is not None and A.entails(st, d - NEW - Lcur)
                return ok, 'the library path is copied to %s, which is not proved to lie at or after new + strlen(old ' \
                           'content): part of the old content (e.g. a last line without newline) is overwritten' % render(arg(c, 0))
            queries.setdefault(c.id, []).append(('entry-appended-after-old-content', q))
        if src is not None and src['id'] == content:
            def q2(A, st, c=c):
                n = A.lin(arg(c, 2), st) if c.get('callee') != 'strcpy' else Lcur
                d = A.lin(arg(c, 0), st)
                ok = n is not None and d is not None and A.entails(st, n - Lcur) and A.entails(st, NEW - d) and A.entails(st, d - NEW)
                return ok, 'the old content is not copied whole to the start of the new buffer (count %s)' % n
            queries.setdefault(c.id, []).append(('old-content-copied-whole', q2))
    obls = ba.analyse(F, queries=queries)
    seen = {}
    nq = 0
    for o in obls:
        i = seen.get((o.kind, o.text), 0)
        seen[(o.kind, o.text)] = i + 1
        if o.kind == 'query':
            nq += 1
        chk.ob('Q3', '%s[%s#%d]' % (o.kind, o.text, i), o.ok, o.node.where(), F.name, o.missing, how=o.how)
    if nq < 2:
        chk.ob('Q3', 'copies-identified', False, F.where(), F.name,
               'enable does not copy the old content and the library path into the new buffer with recognisable copies')
    # buffer size
    size = None
    for d in def_exprs(F, newbuf['id']):
        s = strip(d)
        if s.k == 'CallExpr' and s.get('callee') == 'malloc':
            from engine.linear import LinEnv
            size = LinEnv(F).lin(arg(s, 0))
    want = Lcur + Llib + Lin.const(3)
    chk.ob('Q3', 'buffer-size', size is not None and size == want, wc.where(), F.name,
           'the new buffer holds %s bytes, expected strlen(old) + strlen(path) + 2 (+1 terminator)' % size,
           how='malloc(%s)' % size)
