"""C18 / C19 shared machinery and the C18 rule — snoopyctl enable adds exactly one entry and
preserves the file (control-flow clauses, entry-recognition table, append position, bounded copies)."""
from engine import cfg as C
from engine import facts
from engine.bounds import BoundsAnalysis
from engine.dataflow import Summaries, decl_of, def_exprs
from engine.facts import AnalysisBroken, render, strip
from engine.linear import Lin
from rules import common
from rules.common import arg

LEVEL = 'other'
WRITER = 'etcLdSoPreload_writeFile'
READER = 'etcLdSoPreload_readFile'
FIND_ENTRY = 'etcLdSoPreload_findEntry'
FIND_FOREIGN = 'etcLdSoPreload_findNonCommentLineContainingString'
ENABLE = 'snoopy_cli_action_enable'
DISABLE = 'snoopy_cli_action_disable'
# "followed by end, newline, '#', space or tab"
FOLLOWERS = {0, 10, 35, 32, 9}
PROG = [None]
ISSPACE = {9, 10, 11, 12, 13, 32}


def q1_sole_writer(ctx, prog, cg, rule='Q1'):
    chk = ctx.chk
    W = prog.require_func(WRITER)
    callers = sorted({cs.caller.name for cs in cg.callers_of(WRITER)})
    chk.ob(rule, 'writer-callers', callers == sorted([ENABLE, DISABLE]), W.where(), WRITER,
           '%s is called from %s, expected exactly enable and disable' % (WRITER, callers),
           how='callers: %s' % ', '.join(callers))
    # nothing else in the CLI opens the preload path for writing (C20-AT1 decides the open modes)
    from rules.C20 import is_final_seed
    from engine.dataflow import PtrTaint
    others = []
    live_params, live_seed = common.pointer_flow(prog, is_final_seed)
    mine = {g.key for g in common.with_helpers(prog, W)}
    for f in prog.functions:
        if f.name == WRITER or f.key in mine:
            continue
        pt = PtrTaint(f, live_seed, live_params.get(f.key, ()))
        for c in f.calls():
            if c.get('callee') in ('fopen', 'open', 'rename', 'unlink', 'truncate', 'creat', 'remove'):
                for i, a in enumerate(c.ch[1:]):
                    if a is not None and pt.is_derived(a):
                        if c['callee'] == 'fopen':
                            m = strip(arg(c, 1))
                            if m is not None and m.get('s') in ('r', 'rb'):
                                continue
                        others.append((f, c))
    chk.ob(rule, 'no-other-writer', not others, others[0][1].where() if others else '', '',
           '%s also touches the preload path: %s' % (others[0][0].name if others else '', render(others[0][1]) if others else ''),
           how='only %s opens the preload path other than read-only' % WRITER)


def edges_of_test(F, call, null_means):
    """(block, edge index taken when the pointer result of `call` is NULL / non-NULL)"""
    isx = common.is_result_of(F, call)
    out = []
    for b in common.blocks_testing(F, isx):
        c = strip(b.cond)
        neg = False
        while c is not None and c.k == 'UnaryOperator' and c['op'] == '!':
            neg = not neg
            c = strip(c.ch[0])
        if c is None:
            continue
        if c.k == 'BinaryOperator' and c['op'] in ('==', '!='):
            l, r = strip(c.ch[0]), strip(c.ch[1])
            if not ((r.get('null') or c.ch[1].get('null') or r.get('v') == 0) and isx(l) or
                    (l.get('null') or c.ch[0].get('null') or l.get('v') == 0) and isx(r)):
                continue
            null_true = (c['op'] == '==') != neg
        elif isx(c):
            null_true = neg
        else:
            continue
        null_edge = 0 if null_true else 1
        out.append((b, null_edge if null_means else 1 - null_edge))
    return out


def path_outcome(F, b, e, write_call):
    """what a path starting at edge e of block b can do: reaches the write? returns which
    constants? ends in a no-return call?"""
    prog = F.tu and PROG[0]
    visited, _ = common.reach_from_edge(F, b, e, stop=lambda x: common.is_noreturn_call(prog, F, x))
    nodes = [F.nodes[i] for i in visited]
    writes = any(n.id == write_call.id for n in nodes)
    rets = {strip(n.ch[0]).get('v') for n in nodes if n.k == 'ReturnStmt' and n.ch}
    noret = any(common.is_noreturn_call(prog, F, n) for n in nodes)
    return writes, rets, noret


def follower_test(ctx, prog, rule):
    """the own-entry search accepts the entry only when the character after it is one of the
    documented followers"""
    chk = ctx.chk
    FE = prog.require_func(FIND_ENTRY)
    ep = FE.params[1]['id']
    consts = set()
    unknown = []

    def follower_expr(n):
        # entryPos[strlen(entry)]  /  *(entryPos + strlen(entry))
        s = strip(n)
        if s is None:
            return False
        idx = None
        if s.k == 'ArraySubscriptExpr':
            idx = strip(s.ch[1])
        elif s.k == 'UnaryOperator' and s['op'] == '*':
            t = strip(s.ch[0])
            if t.k == 'BinaryOperator' and t['op'] == '+':
                idx = strip(t.ch[1])
        if idx is None:
            return False
        if idx.k == 'CallExpr' and idx.get('callee') == 'strlen' and (decl_of(arg(idx, 0)) or {}).get('id') == ep:
            return True
        d = decl_of(idx)
        if d is not None:
            return any(strip(x).k == 'CallExpr' and strip(x).get('callee') == 'strlen' and
                       (decl_of(arg(strip(x), 0)) or {}).get('id') == ep for x in def_exprs(FE, d['id']))
        return False

    def collect_switch(func, is_fol):
        """switch (follower) { case K: ... }: K is accepted when its case runs straight into a return of a non-zero
        (or non-constant, i.e. pointer) value, rejected when into `return 0`; anything else is not judged"""
        for b in func.blocks.values():
            if b.termKind != 'SwitchStmt' or b.cond is None or not is_fol(b.cond):
                continue
            for s_, unr in b.all_succs:
                if s_ is None or unr:
                    continue
                lab = func.blocks[s_].label
                cur = func.blocks[s_]
                hops = 0
                while not cur.elems and len(cur.succs) == 1 and hops < 20:
                    cur = func.blocks[cur.succs[0]]
                    hops += 1
                ret = next((e for e in cur.elems if e.k == 'ReturnStmt'), None)
                val = common.const_eval(ret.ch[0], {}) if ret is not None and ret.ch else None
                accepted = ret is not None and ret.ch and (val is None or val != 0)
                rejected = ret is not None and ret.ch and val == 0
                if lab is not None and lab.k == 'CaseStmt':
                    if accepted:
                        consts.add(lab.get('caseValue'))
                    elif not rejected:
                        unknown.append(b.term or b.cond)
                elif accepted or not rejected:
                    # default (or no label: the switch falls through without a default) that accepts
                    if lab is not None and lab.k == 'DefaultStmt':
                        unknown.append(b.term or b.cond)

    def collect(func, is_fol, depth=0):
        collect_switch(func, is_fol)
        for n in func.body.walk():
            if n.k == 'BinaryOperator' and n['op'] == '==':
                for x, y in ((n.ch[0], n.ch[1]), (n.ch[1], n.ch[0])):
                    if is_fol(x) and 'v' in strip(y).d:
                        consts.add(strip(y)['v'])
            elif n.k == 'CallExpr':
                fa = [i for i, a in enumerate(n.ch[1:]) if a is not None and (is_fol(a) or
                      any(is_fol(z) for z in a.walk() if z.k in ('ArraySubscriptExpr', 'UnaryOperator')))]
                if not fa:
                    continue
                name = n.get('callee')
                if name == 'isspace':
                    consts.update(ISSPACE)
                elif name in ('isblank',):
                    consts.update({9, 32})
                elif name == 'strlen':
                    continue
                elif name in ('strchr', 'index', 'memchr') and 1 in fa and strip(n.ch[1]).k == 'StringLiteral':
                    # strchr(SET, follower): accepted when the follower is one of SET's characters - or the terminator of
                    # SET, which strchr finds as well
                    lit = strip(n.ch[1]).get('s') or ''
                    import re as _re
                    lit = _re.sub(r'\\x([0-9a-fA-F]{2})', lambda m_: chr(int(m_.group(1), 16)), lit).replace('\\\\', '\\')
                    consts.update(ord(ch_) for ch_ in lit)
                    if name != 'memchr':
                        consts.add(0)
                else:
                    t = prog.func(name, func.tu) if name else None
                    if t is not None and depth < 2:
                        pid = t.params[fa[0]]['id']
                        collect(t, lambda z, pid=pid: (decl_of(z) or {}).get('id') == pid, depth + 1)
                    else:
                        unknown.append(n)
    collect(FE, follower_expr)
    # a search over the REST of the content instead of a test of that one character
    searches = [c for c in FE.calls() if c.get('callee') in ('strpbrk', 'strcspn', 'strspn', 'strchr', 'strstr') and
                any(z.k == 'CallExpr' and z.get('callee') == 'strlen' and (decl_of(arg(z, 0)) or {}).get('id') == ep
                    for z in arg(c, 0).walk()) and c.get('callee') != 'strstr']
    ok = consts == FOLLOWERS and not unknown and not searches
    detail = 'the character after a candidate entry is accepted when it is one of %s; documented: %s' % (
        sorted(consts), sorted(FOLLOWERS))
    if searches:
        detail = '%s searches the rest of the content instead of testing the single character after the entry: any ' \
                 'line merely starting with the library path counts as the entry' % render(searches[0])[:60]
    elif unknown:
        detail = 'the character after the entry is classified by %s, whose accepted set is unknown' % render(unknown[0])[:50]
    chk.ob(rule, 'entry-follower-set', ok, FE.where(), FE.name, detail,
           how='accepted followers = {NUL, LF, #, space, tab}')
    # start-of-line test: content start or preceded by '\n'
    prev = set()
    from engine import inline as _inl
    for n in _inl.inlined(prog, FE).body.walk():      # a file-local "is at line start" predicate is looked at in place
        if n.k == 'BinaryOperator' and n['op'] in ('==', '!='):     # `p[-1] != LF -> not this one` is the same test
            for x, y in ((n.ch[0], n.ch[1]), (n.ch[1], n.ch[0])):
                sx = strip(x)
                if sx.k == 'ArraySubscriptExpr' and strip(sx.ch[1]).get('v') == -1 and 'v' in strip(y).d:
                    prev.add(strip(y)['v'])
    chk.ob(rule, 'entry-at-line-start', prev == {10}, FE.where(), FE.name,
           'an entry must start the content or follow a newline; the preceding character is compared with %s' % sorted(prev),
           how='entryPos == content || entryPos[-1] == LF')


LIBC_WRITES_ARG0 = {'strtok', 'strtok_r', 'strsep', 'strcpy', 'strncpy', 'stpcpy', 'strcat', 'strncat', 'memcpy', 'memmove',
                    'memset', 'sprintf', 'snprintf', 'fgets', 'bzero', '__builtin_memcpy', '__builtin_memset',
                    '__builtin_strcpy', '__builtin_strncpy'}


def old_content_intact_rule(ctx, prog, cg, root_name, rule):
    """The text read from the file is what the new content is built from, so nothing may change it on the way: no
    function the action reaches stores through a pointer into it - in the action itself or in a helper it is handed
    to - unless the store is undone on every path (`saved = *p; *p = 0; ...; *p = saved;`), and no libc function
    that writes through its first argument is given one."""
    from engine.dataflow import PtrTaint
    chk = ctx.chk
    root = prog.require_func(root_name)
    reach = cg.reachable([root])
    seed = lambda n: n.k == 'CallExpr' and n.get('callee') == READER
    params, seed2 = common.pointer_flow(prog, seed)
    n = 0
    for key, (f, _, _) in sorted(reach.items(), key=lambda kv: str(kv[0])):
        if f.name == READER or f.cfg_error:
            continue
        pt = PtrTaint(f, seed2, params.get(f.key, ()))
        bad = None
        stores = pt.stores()
        for st in stores:
            if st.k != 'BinaryOperator' or st.get('op') != '=':
                bad = (st, 'is modified in place by %s' % render(st)[:50])
                break
            if _is_restore(f, st, stores) or _is_undone(f, st, stores):
                continue
            bad = (st, 'is modified in place by %s and not put back on every path' % render(st)[:50])
            break
        if bad is None:
            for cl, i, a in pt.pointer_args():
                if i == 0 and cl.get('callee') in LIBC_WRITES_ARG0:
                    bad = (cl, 'is written to by %s' % render(cl)[:50])
                    break
        touched = bool(stores) or any(True for _ in pt.pointer_args()) or any(seed2(x) for x in f.body.walk())
        if not touched:
            continue
        n += 1
        chk.ob(rule, 'old-content-left-intact[%s]' % f.name, bad is None, (bad[0] if bad else f).where(), f.name,
               'the content read from the file %s: everything the action does afterwards - the searches, the copy into the '
               'new content - works on a different text than the file holds' % (bad[1] if bad else ''),
               how='no store through a pointer into the text read from the file (or saved and restored on every path)')
    if n == 0:
        raise AnalysisBroken('no function reachable from %s handles the text returned by %s' % (root_name, READER))


def _lvalue_text(st):
    return render(strip(st.ch[0]))


def _is_restore(f, st, stores):
    """`*p = saved` where saved was loaded from the same lvalue"""
    r = decl_of(st.ch[1])
    if r is None or r.get('kind') != 'var':
        return False
    from engine.dataflow import def_exprs
    return any(render(strip(d)) == _lvalue_text(st) for d in def_exprs(f, r['id']))


def _is_undone(f, st, stores):
    """every path from the store to the function's exit passes a restore of the same lvalue, and the variables the
    lvalue is made of do not change in between"""
    lv = _lvalue_text(st)
    ids = {x['ref']['id'] for x in strip(st.ch[0]).walk() if x.k == 'DeclRefExpr' and x['ref'].get('kind') in ('var', 'parm')}
    rest = [o for o in stores if o is not st and o.k == 'BinaryOperator' and _lvalue_text(o) == lv and _is_restore(f, o, stores)]
    if not rest:
        return False
    rid = {C.cfg_elem_of(f, o).id for o in rest}
    moved = {'hit': False}

    def stop(e):
        if e.id in rid:
            return True
        for x in e.walk():
            if any(common.modifies_var(x, i) for i in ids):
                moved['hit'] = True
        return False
    pos = C.elem_positions(f)
    el = C.cfg_elem_of(f, st)
    b, i = pos[el.id]
    _, ex = C.reach(f, (b, i + 1), stop)
    return not ex and not moved['hit']


def cli_memory_rules(ctx, prog, cg, root_name, rule):
    """A9 and H1 of C02, applied to the CLI code the action reaches: buffers are written before they are
    read, loops make progress (a garbage byte or a hang here ends up in, or in front of, /etc/ld.so.preload)"""
    from engine.uninit import UninitAnalysis
    chk = ctx.chk
    root = prog.require_func(root_name)
    reach = cg.reachable([root])
    ua = UninitAnalysis(prog)
    n = 0
    for key, (f, _, _) in sorted(reach.items(), key=lambda kv: str(kv[0])):
        seen = {}
        for bname, node, bad in ua.analyse(f):
            i = seen.get(bname, 0)
            seen[bname] = i + 1
            n += 1
            chk.ob(rule, 'written-before-read[%s:%s#%d]' % (f.name, bname, i), bad is None, (bad or node).where(), f.name,
                   '%s is read by %s before anything has been written to it on some path' % (
                       bname, render(bad)[:60] if bad is not None else ''),
                   how='every read use is preceded by a store or a writing callee')
        stuck = C.stuck_cycles(f)
        live = C.reachable_blocks(f)
        loops = [c for c in C._sccs(f, live) if len(c) > 1 or c[0] in f.blocks[c[0]].succs]
        for i, comp in enumerate(sorted(loops, key=min)):
            n += 1
            hit = next((conds for c, conds, w in stuck if set(c) <= set(comp)), None)
            chk.ob(rule, 'loop-progress[%s#%d]' % (f.name, i), hit is None, f.where(), f.name,
                   'a loop of %s can go round without changing what its exit condition%s depend%s on (%s)' % (
                       f.name, '' if hit and len(hit) == 1 else 's', 's' if hit and len(hit) == 1 else '',
                       '; '.join(render(c)[:50] for c in (hit or []))),
                   how='every cycle changes a variable of an exit condition')
    chk.count('cli_memory_obligations', n)


def whole_file_read_rule(ctx, prog, cg, rule):
    """the preload file is read whole, whatever its size: the buffer that receives it is sized from the measured
    file size (ftell / lseek / st_size).  A reader with a fixed capacity makes enable/disable refuse (or cut) files
    that the writer itself can produce, e.g. a file that enable has just pushed over the cap cannot be disabled."""
    from engine.dataflow import def_exprs
    chk = ctx.chk
    R = prog.require_func(READER)
    reach = cg.reachable([R])
    reads = []
    for key, (f, _, _) in reach.items():
        for c in f.calls():
            if c.get('callee') in ('fread', 'read', 'fgets', 'getline', 'getdelim'):
                reads.append((f, c))
    if not reads:
        raise AnalysisBroken('%s reads the file by means the rule does not know' % READER)
    ok, why = False, ''
    for f, c in reads:
        if c['callee'] in ('getline', 'getdelim'):
            ok = True
            continue
        dst = decl_of(arg(c, 0 if c['callee'] != 'read' else 1))
        if dst is None:
            continue
        sized = False
        for d in def_exprs(f, dst['id']):
            sd = strip(d)
            if sd is None or sd.k != 'CallExpr' or sd.get('callee') not in ('malloc', 'calloc', 'realloc'):
                continue
            # variables the size is computed from
            seen, work = set(), [n['ref']['id'] for a in sd.ch[1:] if a is not None for n in a.walk()
                                 if n.k == 'DeclRefExpr' and n['ref']['kind'] in ('var', 'parm')]
            while work:
                v = work.pop()
                if v in seen:
                    continue
                seen.add(v)
                for e in def_exprs(f, v):
                    for n in e.walk():
                        if n.k == 'CallExpr' and n.get('callee') in ('ftell', 'ftello', 'lseek', 'lseek64'):
                            sized = True
                        if n.k == 'MemberExpr' and n.get('member') == 'st_size':
                            sized = True
                        if n.k == 'DeclRefExpr' and n['ref']['kind'] in ('var', 'parm'):
                            work.append(n['ref']['id'])
        if sized:
            ok = True
        else:
            why = '%s in %s fills a buffer whose size does not depend on the size of the file' % (render(c)[:50], f.name)
    chk.ob(rule, 'preload-file-read-whole', ok, reads[0][1].where(), R.name,
           '%s: files above a fixed capacity are refused or cut, although the writer produces them (enable on a file just '
           'below the capacity succeeds, the disable that follows fails and the entry stays)' % why,
           how='the receiving buffer is allocated from the measured file size')


def line_start_rule(ctx, prog, rule):
    """In the active-line search: a loop that steps a pointer backwards to find the beginning of the line must
    be able to reach it, i.e. its lower bound is the (never modified) start of the content.  A bound that is
    advanced behind each comment hit makes a second hit on the same comment line stop in mid-line, and the
    character tested for '#' is then not the first of the line: the comment counts as an active entry."""
    from engine.dataflow import def_sites
    chk = ctx.chk
    F = prog.require_func(FIND_FOREIGN)
    n = 0
    for comp in C._sccs(F, C.reachable_blocks(F)):
        if not (len(comp) > 1 or comp[0] in F.blocks[comp[0]].succs):
            continue
        decs = [e for b in comp for e in F.blocks[b].elems
                if e.k == 'UnaryOperator' and e.get('op') == '--' and decl_of(e.ch[0]) is not None]

        def fixed(d, depth=0):
            # a parameter never assigned, or a variable only ever holding such a parameter
            sites = [k for k, _ in def_sites(F, d['id'])]
            if d.get('kind') == 'parm':
                return all(k == 'decl' for k in sites)
            defs = def_exprs(F, d['id'])
            return depth < 3 and bool(defs) and all(
                decl_of(x) is not None and strip(x).k == 'DeclRefExpr' and fixed(decl_of(x), depth + 1) for x in defs)
        for dnode in decs:
            walker = decl_of(dnode.ch[0])['id']
            is_index = not (strip(dnode.ch[0]).get('ct') or '').rstrip().endswith('*')
            for b in comp:
                c = strip(F.blocks[b].cond) if F.blocks[b].cond is not None else None
                if c is None or c.k != 'BinaryOperator' or c['op'] not in ('>', '>=', '!=', '<', '<='):
                    continue
                ids = [(decl_of(x) or {}).get('id') for x in c.ch]
                if walker not in ids:
                    continue
                bnode = c.ch[1] if ids[0] == walker else c.ch[0]
                if is_index:
                    # an offset into the content walked down: its lower bound must be offset 0 of a base that is the
                    # start of the content (content[offset] with content never modified)
                    bases = [decl_of(x.ch[0]) for x in F.body.walk() if x.k == 'ArraySubscriptExpr' and
                             (decl_of(x.ch[1]) or {}).get('id') == walker]
                    if not bases or any(bd is None for bd in bases):
                        continue
                    bv = common.const_eval(bnode, {})
                    bd = decl_of(bnode)
                    if bv is None and bd is None:
                        continue
                    n += 1
                    if bv is not None:
                        ok = bv in (0, 1) and all(fixed(x) for x in bases)
                        bname = '%s[%s]' % (bases[0]['name'], bv)
                    else:
                        dv = [common.const_eval(x, {}) for x in def_exprs(F, bd['id'])]
                        ok = bool(dv) and all(v == 0 for v in dv) and all(fixed(x) for x in bases)
                        bname = bd['name']
                    chk.ob(rule, 'line-start-search-bounded-by-content-start[%s]' % bname, ok, c.where(), F.name,
                           'the backward search for the start of the line stops at %s, which is not (only) the start of the '
                           'content: a comment mentioning the library twice ("# libsnoopy.so libsnoopy.so") is entered in '
                           'mid-line, the character tested for "#" is not the first of the line, and the comment counts as an '
                           'active entry (enable refuses, status reports a duplicate)' % bname,
                           how='the offset is walked down to 0 of a base that only ever holds the start of the content')
                    continue
                if None in ids:
                    continue
                bound = decl_of(bnode)
                if bound is None or bound['id'] == walker or not (strip(bnode).get('ct') or '').rstrip().endswith('*'):
                    continue
                n += 1
                ok = fixed(bound)
                chk.ob(rule, 'line-start-search-bounded-by-content-start[%s]' % bound['name'], ok, c.where(), F.name,
                       'the backward search for the start of the line stops at %s, which is moved forward behind every hit '
                       'in a comment: a comment mentioning the library twice ("# libsnoopy.so libsnoopy.so") is entered in '
                       'mid-line, the character tested for "#" is not the first of the line, and the comment counts as an '
                       'active entry (enable refuses, status reports a duplicate)' % bound['name'],
                       how='the bound %s only ever holds the start of the content' % bound['name'])
    if n == 0:
        raise AnalysisBroken('no backward line-start search found in %s' % FIND_FOREIGN)
    # the character classified as "#" or not is the first one of the line: when it is read, the walker is known
    # not to rest on the newline that ended the previous line
    walkers = {decl_of(e.ch[0])['id'] for b in F.blocks.values() for e in b.elems
               if e.k == 'UnaryOperator' and e.get('op') == '--' and decl_of(e.ch[0]) is not None}

    def char_test(cond, wid, ch):
        """(is a test of *walker against character ch, successor index taken when they are equal)"""
        isx = lambda x: (x.k == 'UnaryOperator' and x.get('op') == '*' and (decl_of(x.ch[0]) or {}).get('id') == wid) or \
            (x.k == 'ArraySubscriptExpr' and (decl_of(x.ch[0]) or {}).get('id') == wid and strip(x.ch[1]).get('v') == 0) or \
            (x.k == 'ArraySubscriptExpr' and (decl_of(x.ch[1]) or {}).get('id') == wid and strip(x.ch[1]).k == 'DeclRefExpr')
        return isx
    for wid in sorted(walkers):
        isx = char_test(None, wid, None)
        classify = []
        for b in F.blocks.values():
            ce = common.compare_edges(b, isx) if b.cond is not None else None
            if ce is not None and ce[0] == 35:      # '#'
                classify.append(b)
        if not classify:
            continue
        U, N, G = 'unknown', 'on-newline', 'first-of-line'

        def transfer(st, e, wid=wid):
            if e.k == 'UnaryOperator' and e.get('op') == '++' and (decl_of(e.ch[0]) or {}).get('id') == wid:
                return G if st == N else U
            if common.modifies_var(e, wid):
                return U
            return st

        def edge(st, blk, si, isx=isx):
            ce = common.compare_edges(blk, isx) if blk.cond is not None else None
            if ce is not None and ce[0] == 10:      # newline
                return N if si == ce[1] else G
            return st
        ins = C.forward_dataflow(F, U, transfer, lambda a, b_: a if a == b_ else U, edge_transfer=edge)
        for b in classify:
            st = ins.get(b.id)
            if st is None:
                continue
            for e in b.elems:
                st = transfer(st, e)
            chk.ob(rule, 'classified-character-is-first-of-line', st == G, b.cond.where(), F.name,
                   'when the line is classified by its first character, the pointer may still rest on the newline that ends '
                   'the previous line (or on a leading newline of the content): a comment after a blank first line, or the '
                   're-scan that starts on a newline, is then taken for an active entry',
                   how='on every path the pointer was last found not to be on a newline, or stepped over one')


def own_occurrence_rule(ctx, prog, rule):
    """The two searches judge one occurrence of the text per iteration.  The verdict on an occurrence must not
    depend on what was found at earlier occurrences: a flag that is set to one constant inside the search loop,
    never set back inside it, and read by a condition of the loop carries the verdict on one occurrence ("sits in
    a comment") over to all later ones.  (A flag with two in-loop values is a state machine and is not judged;
    a flag set right before leaving the loop is not in the loop.)"""
    from engine.dataflow import contains
    chk = ctx.chk
    n = 0
    for fname in (FIND_ENTRY, FIND_FOREIGN):
        F = prog.require_func(fname)
        for comp in C._sccs(F, C.reachable_blocks(F)):
            if not (len(comp) > 1 or comp[0] in F.blocks[comp[0]].succs):
                continue
            mods = {}
            for b in comp:
                for e in F.blocks[b].elems:
                    d = None
                    if e.k == 'DeclStmt':
                        for dd in e['decls']:
                            mods.setdefault(dd['id'], []).append(('decl', e, dd.get('name')))
                        continue
                    if e.k in ('BinaryOperator', 'CompoundAssignOperator', 'UnaryOperator') and e.ch:
                        d = decl_of(e.ch[0]) if strip(e.ch[0]).k == 'DeclRefExpr' else None
                    if d is not None and d.get('kind') != 'parm' and common.modifies_var(e, d['id']):
                        mods.setdefault(d['id'], []).append(('set', e, d.get('name')))
            latches = []
            for vid, ms in mods.items():
                if any(k == 'decl' for k, _, _ in ms):
                    continue            # declared inside the loop body: a new object per iteration
                vals = set()
                for _, e, _ in ms:
                    v = common.const_eval(e.ch[1], {}) if (e.k == 'BinaryOperator' and e.get('op') == '=') else None
                    vals.add(v)
                if None in vals or len(vals) != 1:
                    continue
                readers = [F.blocks[b].cond for b in comp if F.blocks[b].cond is not None and contains(
                    F.blocks[b].cond, lambda x, vid=vid: x.k == 'DeclRefExpr' and (x.get('ref') or {}).get('id') == vid)]
                if readers:
                    latches.append((ms[0][2], ms[0][1], readers[0]))
            n += 1
            head = F.blocks[min(comp)]
            where = (latches[0][1] if latches else (head.cond if head.cond is not None else F.body)).where()
            chk.ob(rule, 'occurrence-judged-on-its-own[%s#%d]' % (fname, n), not latches, where, F.name,
                   '%s is set to a constant inside the search loop (%s), never set back in it, and read by the loop\'s '
                   'condition %s: once one occurrence has set it, every later occurrence gets the same verdict - e.g. a '
                   'comment mentioning the library makes the active entries behind it invisible to the duplicate check' % (
                       latches[0][0] if latches else '', render(latches[0][1])[:40] if latches else '',
                       render(latches[0][2])[:50] if latches else ''),
                   how='no flag of the loop is set to a single constant in the loop and read by its conditions')
    if n == 0:
        raise AnalysisBroken('no search loop in %s / %s' % (FIND_ENTRY, FIND_FOREIGN))


def foreign_needle_rule(ctx, prog, rule):
    """enable, disable and status recognise "another Snoopy instance" by the same text: the needle handed to the
    active-line search is one and the same literal at every call (siblings of one interface must agree: an instance
    that status and disable count but enable does not see is installed next to)"""
    chk = ctx.chk
    calls = [(f, c) for f in prog.functions for c in f.calls(FIND_FOREIGN)]
    lits = []
    for f, c in calls:
        a = strip(arg(c, 1))
        if a is not None and a.k == 'StringLiteral':
            lits.append((a.get('s'), f, c))
    if len(lits) < 3:
        raise AnalysisBroken('fewer than three active-line searches with a literal needle (found %d)' % len(lits))
    vals = sorted({l[0] for l in lits})
    major = max(vals, key=lambda v: sum(1 for l in lits if l[0] == v))
    odd = [l for l in lits if l[0] != major]
    chk.ob(rule, 'foreign-instance-needle-agrees', not odd, (odd[0][2] if odd else lits[0][2]).where(),
           (odd[0][1] if odd else lits[0][1]).name,
           '%s looks for "%s" where the other %d searches look for "%s": a line that the one command takes for another '
           'Snoopy instance is invisible to the other (e.g. a bare "libsnoopy.so" or "/opt/x/old-libsnoopy.so" entry is '
           'not refused by enable but makes status and disable stop)' % (
               odd[0][1].name if odd else '', odd[0][0] if odd else '', len(lits) - len(odd), major),
           how='%d searches, all for "%s"' % (len(lits), major))


def run(ctx):
    chk = ctx.chk
    chk.rule('Q1', 'etcLdSoPreload_writeFile is the only function that opens the preload path for writing and its callers '
                   'are exactly enable and disable', floor=2)
    chk.rule('Q2', 'enable: every path to the write passes the "own entry not found" and the "no foreign active line" '
                   'outcomes; "already enabled" returns 0 and "foreign instance" ends in the fatal exit, both without '
                   'writing; the write happens at most once', floor=5)
    chk.rule('Q3', 'the new content buffer is sized old length + path length + 2, every store into it is bounded, the old '
                   'content is copied whole and the entry is appended at or after its end', floor=4)
    chk.rule('Q6', 'own-entry recognition: the entry starts a line and is followed by NUL, newline, "#", space or tab '
                   '(exactly the documented follower set, tested on that single character)', floor=2)
    chk.rule('Q8', 'in the code enable reaches, buffers are written before they are read and every loop changes something '
                   'its exit condition depends on', floor=5)
    chk.rule('Q7', 'comment classification reads the first character of the line: the backward search for the line start is '
                   'bounded by the start of the content, not by a cursor that moves with the search', floor=1)
    chk.explanation = (
        'Control-flow clauses by branch-polarity reachability over the enable action, the follower-character set of the '
        'entry search compared with the documented set, and linear-inequality obligations for the buffer arithmetic: '
        'the copy of the old content covers strlen(old) bytes and the append position is proved >= new + strlen(old), so '
        'nothing of the old content is overwritten, for every file content.')
    chk.assumptions = ['C20 holds (the write replaces the file atomically with the buffer given)']
    chk.not_decided = ['byte-level result beyond these clauses; agreement with `snoopyctl status`']
    prog = ctx.program(facts.AS_CONFIGURED, 'cli')
    PROG[0] = prog
    cg = ctx.callgraph(facts.AS_CONFIGURED, 'cli')
    q1_sole_writer(ctx, prog, cg)
    F = prog.require_func(ENABLE)
    wc = F.calls(WRITER)
    if len(wc) != 1:
        chk.ob('Q2', 'write-at-most-once', False, F.where(), F.name, '%d calls of %s in enable' % (len(wc), WRITER))
        return
    wc = wc[0]
    mn, mx = C.count_on_paths(F, lambda e: e.id == wc.id)
    chk.ob('Q2', 'write-at-most-once', mx == 1, wc.where(), F.name, 'the write can execute %s times' % mx)
    fe, ff = F.calls(FIND_ENTRY), F.calls(FIND_FOREIGN)
    if not ff and not fe:
        raise AnalysisBroken('enable calls neither %s nor %s' % (FIND_ENTRY, FIND_FOREIGN))
    chk.ob('Q6', 'already-enabled-decided-by-the-entry-search', bool(fe), F.where(), F.name,
           'enable no longer decides "our entry is already there" with %s (start of line + documented follower set): a '
           'looser search also accepts lines that merely contain the path ("<path>.bak", "/chroot<path>"), reports '
           '"already enabled" for them and disagrees with status/disable' % FIND_ENTRY,
           how='%s(content, library path)' % FIND_ENTRY)
    chk.ob('Q2', 'foreign-instance-search-present', bool(ff), F.where(), F.name,
           'enable no longer looks for another active line mentioning the library with %s' % FIND_FOREIGN, nontrivial=False)
    if not fe or not ff:
        return
    # what is searched
    rd = F.calls(READER)
    content = common.holder(F, rd[0]) if rd else None
    okc = bool(rd) and (decl_of(arg(fe[0], 0)) or {}).get('id') == content and (decl_of(arg(ff[0], 0)) or {}).get('id') == content
    chk.ob('Q2', 'searches-the-current-content', okc, fe[0].where(), F.name,
           'the entry / foreign-instance searches are not applied to the content just read')
    for call, label, expect in ((fe[0], 'already-enabled', 'return0'), (ff[0], 'foreign-instance', 'fatal')):
        found_edges = edges_of_test(F, call, null_means=False)
        absent_edges = edges_of_test(F, call, null_means=True)
        ok = bool(found_edges)
        detail = 'the result of %s is not tested' % call.get('callee')
        for b, e in found_edges:
            writes, rets, noret = path_outcome(F, b, e, wc)
            if writes:
                ok, detail = False, 'when %s the write is still reachable: the file is rewritten' % label
            elif expect == 'return0' and rets != {0}:
                ok, detail = False, 'the %s path returns %s, expected 0 without writing' % (label, sorted(map(str, rets)))
            elif expect == 'fatal' and (rets or not noret):
                ok, detail = False, 'the %s path does not end in the fatal exit (returns %s)' % (label, sorted(map(str, rets)))
        chk.ob('Q2', '%s-leaves-file-untouched' % label, ok, call.where(), F.name, detail,
               how='the "found" edge cannot reach the write and %s' % ('returns 0' if expect == 'return0' else 'ends in fatalError'))
        dom = C.always_preceded(F, wc, lambda x: any(b.elems and x.id == b.elems[-1].id for b, _ in absent_edges + found_edges))
        chk.ob('Q2', '%s-tested-before-write' % label, dom and bool(absent_edges), wc.where(), F.name,
               'a path reaches the write without the %s test' % label)
    follower_test(ctx, prog, 'Q6')
    foreign_needle_rule(ctx, prog, 'Q2')
    line_start_rule(ctx, prog, 'Q7')
    own_occurrence_rule(ctx, prog, 'Q7')
    cli_memory_rules(ctx, prog, cg, ENABLE, 'Q8')
    old_content_intact_rule(ctx, prog, cg, ENABLE, 'Q3')
    whole_file_read_rule(ctx, prog, cg, 'Q1')
    # ---- Q3 ------------------------------------------------------------------------------------------
    ba = BoundsAnalysis(prog, cg)
    newbuf = decl_of(arg(wc, 0))
    libp = None
    for c in F.calls():
        if c.get('callee') in ('libsnoopySo_getFilePath', 'libsnoopySo_getFilePathNoCheck'):
            libp = common.holder(F, c)
    queries = {}
    copies = [c for c in F.calls() if c.get('callee') in ('strncpy', 'memcpy', 'strcpy', 'snprintf')]
    if newbuf is None or content is None or libp is None:
        raise AnalysisBroken('cannot identify the new buffer / old content / library path variables in enable')

    def sym(did, name):
        return Lin.sym(('var', did, name))
    names = {d['id']: d['name'] for d in F.local_decls()}
    NEW, CUR, LIB = sym(newbuf['id'], names.get(newbuf['id'], 'new')), sym(content, names.get(content, 'cur')), sym(libp, names.get(libp, 'lib'))
    Lcur = Lin.sym(('strlen', ('decl', content), names.get(content, 'cur')))
    Llib = Lin.sym(('strlen', ('decl', libp), names.get(libp, 'lib')))
    for c in copies:
        src = decl_of(arg(c, 1))
        if src is not None and src['id'] == libp:
            def q(A, st, c=c):
                d = A.lin(arg(c, 0), st)
                ok = d is not None and A.entails(st, d - NEW - Lcur)
                return ok, 'the library path is copied to %s, which is not proved to lie at or after new + strlen(old ' \
                           'content): part of the old content (e.g. a last line without newline) is overwritten' % render(arg(c, 0))
            queries.setdefault(c.id, []).append(('entry-appended-after-old-content', q))
        if src is not None and src['id'] == content:
            def q2(A, st, c=c):
                n = A.lin(arg(c, 2), st) if c.get('callee') != 'strcpy' else Lcur
                d = A.lin(arg(c, 0), st)
                ok = n is not None and d is not None and A.entails(st, n - Lcur) and A.entails(st, NEW - d) and A.entails(st, d - NEW)
                return ok, 'the old content is not copied whole to the start of the new buffer (count %s)' % n
            queries.setdefault(c.id, []).append(('old-content-copied-whole', q2))
    obls = ba.analyse(F, queries=queries)
    seen = {}
    nq = 0
    for o in obls:
        i = seen.get((o.kind, o.text), 0)
        seen[(o.kind, o.text)] = i + 1
        if o.kind == 'query':
            nq += 1
        chk.ob('Q3', '%s[%s#%d]' % (o.kind, o.text, i), o.ok, o.node.where(), F.name, o.missing, how=o.how)
    if nq < 2:
        chk.ob('Q3', 'copies-identified', False, F.where(), F.name,
               'enable does not copy the old content and the library path into the new buffer with recognisable copies')
    # buffer size
    size = None
    for d in def_exprs(F, newbuf['id']):
        s = strip(d)
        if s.k == 'CallExpr' and s.get('callee') == 'malloc':
            from engine.linear import LinEnv
            size = LinEnv(F).lin(arg(s, 0))
    want = Lcur + Llib + Lin.const(3)
    chk.ob('Q3', 'buffer-size', size is not None and size == want, wc.where(), F.name,
           'the new buffer holds %s bytes, expected strlen(old) + strlen(path) + 2 (+1 terminator)' % size,
           how='malloc(%s)' % size)
