"""Owning configuration fields: pointer fields of snoopy_configuration_t that have a
`<field>_malloced` companion flag.  Typestate per field, per function, on all paths:

  owned?   the field may hold a heap string that has not been released
  flag     what the companion flag says (TRUE / FALSE / unknown)

Rules (used by C16-O2 and C11-N3):
  OW1  a store to an owning field never happens while the old value may still be owned
  OW2  after every store, the flag agrees with the kind of value stored (heap <-> TRUE,
       literal/default <-> FALSE) on every path to the function's exit
  OW3  free(field) only happens under flag == TRUE (never frees a literal, never twice)
"""
from engine import cfg as C
from engine.facts import render, strip
from engine.dataflow import decl_of

CFG_RECORD = 'snoopy_configuration_t'
HEAP_CALLS = {'strdup', 'strndup', 'malloc', 'calloc', 'realloc'}


def owning_fields(prog):
    r = prog.record(CFG_RECORD)
    if r is None:
        return {}
    names = [f['name'] for f in r['fields']]
    out = {}
    for n in names:
        if n + '_malloced' in names:
            out[n] = n + '_malloced'
    return out


def is_field(n, name):
    return n is not None and n.k == 'MemberExpr' and n.get('member') == name and n.get('record') == CFG_RECORD


def field_of(n, fields):
    s = strip(n)
    if s is not None and s.k == 'MemberExpr' and s.get('record') == CFG_RECORD:
        return s.get('member')
    return None


class Result:
    def __init__(self):
        self.violations = []   # (rule, func, node, field, detail)
        self.stores = 0
        self.frees = 0
        self.functions = 0


def _defaults_only(func, fld, fields):
    for n in func.body.walk():
        if n.k == 'BinaryOperator' and n['op'] == '=' and field_of(n.ch[0], fields) == fld:
            if value_kind(func, n.ch[1]) != 'static':
                return False
    return True


def value_kind(func, rhs):
    """'heap' / 'static' / 'unknown' for the right-hand side of a store"""
    r = strip(rhs)
    if r is None:
        return 'unknown'
    if r.k == 'CallExpr' and r.get('callee') in HEAP_CALLS:
        return 'heap'
    if r.k == 'StringLiteral':
        return 'static'
    if r.get('null') or r.get('v') == 0:
        return 'static'
    if r.k == 'DeclRefExpr':
        ref = r['ref']
        if ref['kind'] == 'var' and ref.get('staticStorage'):
            return 'static'
        if ref['kind'] in ('var', 'parm'):
            from engine.dataflow import def_exprs
            ds = def_exprs(func, ref['id'])
            kinds = {value_kind(func, d) for d in ds}
            if kinds == {'heap'}:
                return 'heap'
            if ref['kind'] == 'parm':
                return 'param'
            if kinds and kinds <= {'static'}:
                return 'static'
    if r.k == 'ConditionalOperator':
        ks = {value_kind(func, r.ch[1]), value_kind(func, r.ch[2])}
        if len(ks) == 1:
            return ks.pop()
    return 'unknown'


def analyse(prog, cg, true_value, functions=None):
    fields = owning_fields(prog)
    res = Result()
    flags = {v: k for k, v in fields.items()}
    funcs = functions if functions is not None else prog.functions
    # file-local helpers that are handed the ADDRESS of a field (free-and-reset helpers) are looked at inside the
    # inlined view of their callers, where the dereferences read as the fields themselves
    from engine import inline
    funcs = [inline.inlined(prog, f) for f in funcs]
    # the address of an owning field (or of its flag) kept in a table or a variable: what is then written through that
    # address is not a store this typestate can follow
    from engine.facts import AnalysisBroken
    for f in funcs:
        for n in f.body.walk():
            if n.k == 'UnaryOperator' and n.get('op') == '&' and n.ch:
                fld = field_of(n.ch[0], fields) or field_of(n.ch[0], flags)
                if fld in fields or fld in flags:
                    par = n.parent
                    while par is not None and par.k in ('ImplicitCastExpr', 'ParenExpr', 'CStyleCastExpr'):
                        par = par.parent
                    if par is not None and par.k == 'DeclStmt' and par.get('decls') and par['decls'][0].get('_param_of'):
                        continue        # parameter of an inlined helper: its dereferences read as the field itself
                    if par is not None and par.k in ('InitListExpr', 'DeclStmt') or (
                            par is not None and par.k == 'BinaryOperator' and par.get('op') == '='):
                        raise AnalysisBroken('%s keeps the address of the configuration field %s in a table or variable (%s): the '
                                             'owning-field typestate does not follow stores made through it' % (
                                                 f.name, fld, n.where()))
    # summaries: which owning fields does a function store to (transitively)?
    direct = {}
    for f in [inline.inlined(prog, f) for f in prog.functions]:
        s = set()
        for n in f.body.walk():
            if n.k == 'BinaryOperator' and n['op'] == '=':
                fld = field_of(n.ch[0], fields)
                if fld in fields:
                    s.add(fld)
        direct[f.key] = s
    todo = []
    for f in funcs:
        touches = direct.get(f.key)
        frees_any = any(n.k == 'CallExpr' and n.get('callee') == 'free' and field_of(n.ch[1], fields) in fields
                        for n in f.body.walk())
        calls_storer = any(not isinstance(t, str) and direct.get(t.key)
                           for cs in cg.callees(f) for t in cs.targets)
        if not touches and not frees_any and not calls_storer:
            continue
        todo.append(f)
    res.functions = len(todo)
    # entry state of a function that is called directly from analysed code = join of the states at
    # its call sites; functions reached only through tables / from outside start from "may be owned"
    called_directly = set()
    for f in todo:
        for cs in cg.callees(f):
            if cs.indirect:
                continue
            for t in cs.targets:
                if not isinstance(t, str) and direct.get(t.key):
                    called_directly.add(t.key)
    externally = set()
    for cs in cg.sites:
        for t in cs.targets:
            if not isinstance(t, str) and t.key in called_directly and \
                    (cs.indirect or cs.caller.key not in {g.key for g in todo}):
                externally.add(t.key)
    entry = {}
    for it in range(6):
        collected = {}
        scratch = Result()
        for f in todo:
            _analyse_function(prog, cg, f, fields, flags, true_value, direct, scratch, entry, collected,
                              called_directly - externally)
        if collected == entry:
            break
        entry = collected
    for f in todo:
        _analyse_function(prog, cg, f, fields, flags, true_value, direct, res, entry, {},
                          called_directly - externally)
    return res


def _analyse_function(prog, cg, func, fields, flags, true_value, direct, res, entry, collected, ctx_only):
    if func.cfg_error:
        return
    # state: field -> (owned: bool, flag: 'T'/'F'/'?'/pending)  encoded as frozenset of tuples
    if func.key in ctx_only:
        if func.key not in entry:
            return  # no call site state known yet
        init = entry[func.key]
    else:
        init = frozenset((f, True, '?') for f in fields)
    seen = set()
    site_targets = {}
    for cs in cg.callees(func):
        site_targets[cs.node.id] = cs

    def get(st, fld):
        for t in st:
            if t[0] == fld:
                return t
        return (fld, True, '?')

    def put(st, fld, owned, flag):
        return frozenset(t for t in st if t[0] != fld) | {(fld, owned, flag)}

    def report(rule, node, fld, detail):
        k = (rule, node.id, fld)
        if k in seen:
            return
        seen.add(k)
        res.violations.append((rule, func, node, fld, detail))

    def transfer(st, e):
        if e.k == 'BinaryOperator' and e['op'] == '=':
            fld = field_of(e.ch[0], fields)
            if fld in fields:
                res.stores += 1
                _, owned, flag = get(st, fld)
                kind = value_kind(func, e.ch[1])
                if owned and flag != 'F':
                    report('OW1', e, fld,
                           '%s is overwritten by %s while it may still hold a heap string (flag %s not known to be '
                           'false and no free() on this path): the old value leaks, e.g. when the option occurs twice '
                           'in snoopy.ini' % (fld, render(e.ch[1]), fields[fld]))
                if (kind == 'heap' and flag == 'T') or (kind == 'static' and flag == 'F'):
                    return put(st, fld, kind == 'heap', flag)
                return put(st, fld, kind == 'heap', '!' + kind)
            flg = field_of(e.ch[0], flags)
            if flg in flags:
                fld = flags[flg]
                v = strip(e.ch[1]).get('v')
                _, owned, flag = get(st, fld)
                newflag = 'T' if v == true_value else ('F' if v is not None else '?')
                if isinstance(flag, str) and flag.startswith('!'):
                    kind = flag[1:]
                    if kind == 'heap' and newflag != 'T':
                        report('OW2', e, fld, '%s was just given a heap value but %s is set to %s: the destructor '
                                              'will never free it' % (fld, flg, render(e.ch[1])))
                    if kind == 'static' and newflag != 'F':
                        report('OW2', e, fld, '%s was just given a literal/default but %s is set to %s: the destructor '
                                              'will free() a non-heap pointer' % (fld, flg, render(e.ch[1])))
                    return put(st, fld, kind == 'heap', newflag)
                return put(st, fld, owned if newflag != 'F' else False, newflag)
            return st
        if e.k == 'CallExpr':
            if e.get('callee') == 'free':
                fld = field_of(e.ch[1], fields) if len(e.ch) > 1 else None
                if fld in fields:
                    res.frees += 1
                    _, owned, flag = get(st, fld)
                    if flag != 'T' and not (isinstance(flag, str) and flag == '!heap'):
                        report('OW3', e, fld,
                               'free(%s) is reached while %s is not known to be true: a literal/default may be freed, '
                               'or the same string twice' % (fld, fields[fld]))
                    return put(st, fld, False, 'freed')
                return st
            cs = site_targets.get(e.id)
            if cs is not None:
                for t in cs.targets:
                    if isinstance(t, str) or not direct.get(t.key):
                        continue
                    if t.key in ctx_only and not cs.indirect:
                        # analysed in the context of its call sites
                        old_e = collected.get(t.key)
                        collected[t.key] = st if old_e is None else join(old_e, st)
                    for fld in direct.get(t.key, ()):
                        st = put(st, fld, False, 'F' if _defaults_only(t, fld, fields) else '?')
            return st
        return st

    def edge(st, block, si):
        c = strip(block.cond) if block.cond is not None else None
        if c is None or len(block.all_succs) != 2:
            return st
        neg = False
        while c is not None and c.k == 'UnaryOperator' and c['op'] == '!':
            neg = not neg
            c = strip(c.ch[0])
        if c is None:
            return st
        if c.k == 'BinaryOperator' and c['op'] in ('==', '!='):
            l, r = strip(c.ch[0]), strip(c.ch[1])
            m, k = (l, r) if l.k == 'MemberExpr' else ((r, l) if r.k == 'MemberExpr' else (None, None))
            if m is not None and m.get('record') == CFG_RECORD and 'v' in k.d:
                name = m.get('member')
                eq_true = (c['op'] == '==') != neg
                is_eq_edge = (si == 0) == eq_true
                if name in flags:
                    fld = flags[name]
                    _, owned, flag = get(st, fld)
                    val_true = (k['v'] == true_value)
                    holds_true = (is_eq_edge and val_true) or ((not is_eq_edge) and not val_true and k['v'] in (0,))
                    holds_false = (is_eq_edge and not val_true and k['v'] == 0) or ((not is_eq_edge) and val_true)
                    if holds_true:
                        return put(st, fld, True if owned else owned, 'T')
                    if holds_false:
                        return put(st, fld, False, 'F')
                if name == 'initialized':
                    # record not initialised yet: raw memory, nothing is owned
                    val_true = (k['v'] == true_value)
                    uninit = (is_eq_edge and not val_true) or ((not is_eq_edge) and val_true)
                    if uninit:
                        return frozenset((f, False, 'F') for f in fields)
        return st

    def join(a, b):
        out = set()
        for f in fields:
            _, o1, g1 = get(a, f)
            _, o2, g2 = get(b, f)
            if g1 == g2:
                g = g1
            else:
                # a store whose companion flag has not been written yet stays pending when paths meet: otherwise a
                # branch that forgets the flag would hide behind a sibling branch that sets it
                pend = {x for x in (g1, g2) if isinstance(x, str) and x.startswith('!')}
                g = (pend.pop() if len(pend) == 1 else '!mixed') if pend else '?'
            out.add((f, o1 or o2, g))
        return frozenset(out)

    instates = C.forward_dataflow(func, init, transfer, join, edge_transfer=edge)
    end = instates.get(func.exit)
    if end:
        for t in end:
            fld, owned, flag = t
            if isinstance(flag, str) and flag.startswith('!'):
                # a store whose companion flag was never set afterwards on some path
                kind = flag[1:]
                if kind in ('heap', 'static', 'mixed'):
                    # find a store node for the report
                    node = None
                    for n in func.body.walk():
                        if n.k == 'BinaryOperator' and n['op'] == '=' and field_of(n.ch[0], fields) == fld:
                            node = n
                    report('OW2', node or func.body, fld,
                           '%s is given a %s value but %s is not updated on some path to the exit of %s' % (
                               fld, kind, fields[fld], func.name))
