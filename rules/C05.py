"""C05 — message format expansion is length-bounded (the exactness of the expansion is not
decided)."""
from engine import cfg as C
from engine import facts
from engine.bounds import BoundsAnalysis
from engine.dataflow import decl_of, def_exprs, PtrTaint
from engine.facts import AnalysisBroken, render, strip
from engine.linear import Lin, LinEnv
from rules import common
from rules.common import arg

LEVEL = 'other'
GEN = 'snoopy_message_generateFromFormat'
APPEND = 'snoopy_message_append'
STRAPPEND = 'snoopy_util_string_append'
ACTION = 'snoopy_action_log_syscall_exec'
DS_CALL = 'snoopy_datasourceregistry_callByName'


def subst_params(lin, func, call, caller_env):
    """express `lin` (over parameters of func) in the caller's terms at `call`"""
    out = Lin.const(lin.c)
    for s, c in lin.t.items():
        if s[0] == 'var':
            idx = [i for i, p in enumerate(func.params) if p['id'] == s[1]]
            if not idx:
                return None
            a = caller_env.lin(arg(call, idx[0]))
            if a is None:
                return None
            out = out + a.scale(c)
        else:
            out = out + Lin({s: c}, 0)
    return out


def ds_failure_rule(chk, G, dsc, rule):
    for c in dsc:
        hv = common.holder(G, c)
        tests = []
        if hv is not None:
            isx = lambda n, hv=hv: n.k == 'DeclRefExpr' and (n.get('ref') or {}).get('id') == hv
            tests = [b for b in common.blocks_testing(G, isx) if len(b.all_succs) == 2]
        if not tests:
            raise AnalysisBroken('the result of %s is not tested in %s' % (DS_CALL, GEN))
        for b in tests:
            vals = {v: common.const_eval(b.cond, {hv: v}) for v in (-1, 0, 1, 5, 2047)}
            if any(x is None for x in vals.values()):
                continue
            okf = vals[0] == vals[1] == vals[5] == vals[2047] and vals[-1] != vals[0]
            chk.ob(rule, 'failure-means-negative', okf, b.cond.where(), G.name,
                   'the test %s of the data source result treats %s like a failure: a data source that produced the empty '
                   'string (0 characters: an empty command line or file name) is then reported as "[ERROR: Data source ... '
                   'failed ...]" instead of contributing nothing' % (
                       render(b.cond)[:60], ', '.join(str(v) for v in (0, 1, 5, 2047) if vals[v] == vals[-1]) or 'a success value'),
                   how='the branch is the same for 0, 1, 5 and 2047 and differs for -1')


def run(ctx):
    chk = ctx.chk
    chk.rule('L1', 'a data source is handed a buffer of exactly datasource_message_max_length + 1 bytes (and that size), '
                   'reset to the empty string before every call: it cannot contribute more than the limit, nor stale text', floor=3)
    chk.rule('L2', 'the message buffer has capacity log_message_max_length + 1, is only extended through the bounded '
                   'append, and the append keeps strlen <= capacity - 1', floor=4)
    chk.rule('L4', 'literal text of the format is not routed through the buffer sized by the data-source limit (it would be '
                   'cut to that limit)', floor=1)
    chk.rule('L5', 'the name and argument buffers of a tag are rebuilt for every tag (nothing of the previous tag is reused)', floor=1)
    chk.rule('L6', 'the name looked up for a tag starts at the first character of the tag (an empty name is an unknown data source)', floor=1)
    chk.rule('L7', 'a data source result counts as a failure only when it is negative: the empty value (0 characters) and '
                   'every longer value take the same branch', floor=1)
    chk.rule('L3', 'the ident and path templates are expanded into fixed buffers with their own size as the limit', floor=2)
    chk.explanation = (
        'Decides only the two length clauses. Sizes are composed symbolically across the three call levels (action -> '
        'generateFromFormat -> registry -> data source): linear forms over the configuration fields are substituted '
        'through the parameters, so the equalities hold for every value of the two limits in [255, 1048575].')
    chk.assumptions = ['every data source keeps to the (buffer, size) contract and terminates its result (C02)']
    chk.not_decided = ['exactness of the expansion beyond L4: left-to-right replacement, byte-for-byte copy of literals, the '
                       '[ERROR: ...] texts, "emitted exactly whenever it fits" — statements about the output string for '
                       'every format string, for which no structural rule is a necessary and refactoring-stable condition']
    prog = ctx.program(facts.AS_CONFIGURED, 'lib')
    cg = ctx.callgraph(facts.AS_CONFIGURED, 'lib')
    A = prog.require_func(ACTION)
    from engine import inline as _inlA
    A = _inlA.inlined(prog, A)      # the action may hand the filter test and the composing/sending to file-local helpers
    G = prog.require_func(GEN)
    from engine import inline as _inl
    G = _inl.inlined(prog, G)      # the expansion loop may hand parts of its work to file-local helpers
    genv, aenv = LinEnv(G), LinEnv(A)
    gcalls = A.calls(GEN)
    if len(gcalls) != 1:
        raise AnalysisBroken('%s calls %s %d times' % (ACTION, GEN, len(gcalls)))
    gc = gcalls[0]
    # ---- L1 ------------------------------------------------------------------------------------
    dsc = G.calls(DS_CALL)
    if not dsc:
        raise AnalysisBroken('%s does not call %s' % (GEN, DS_CALL))
    F_DS = Lin.sym(('field', 'CFG->datasource_message_max_length'))
    F_LOG = Lin.sym(('field', 'CFG->log_message_max_length'))
    for i, c in enumerate(dsc):
        buf = decl_of(arg(c, 1))
        if buf is not None:
            buf = dict(buf, id=common.alias_root(G, buf['id']))    # a helper's parameter stands for the caller's buffer
        size_in_g = genv.lin(arg(c, 2))
        size = subst_params(size_in_g, G, gc, aenv) if size_in_g is not None else None
        ok = size is not None and size == F_DS + Lin.const(1)
        chk.ob('L1', 'datasource-size-is-limit-plus-one[%d]' % i, ok, c.where(), G.name,
               'the size handed to a data source is %s, expected datasource_message_max_length + 1: a data source can '
               'contribute %s bytes' % (size, (size - Lin.const(1)) if size is not None else '?'),
               how='%s in %s = %s at the call in %s' % (render(arg(c, 2)), G.name, size, A.name))
        # buffer capacity equals that size
        cap = None
        if buf is not None:
            for d in def_exprs(G, buf['id']):
                s = strip(d)
                if s.k == 'CallExpr' and s.get('callee') == 'malloc':
                    cg_ = genv.lin(arg(s, 0))
                    cap = subst_params(cg_, G, gc, aenv) if cg_ is not None else None
        chk.ob('L1', 'datasource-buffer-is-limit-plus-one[%d]' % i, cap is not None and cap == F_DS + Lin.const(1),
               c.where(), G.name,
               'the data-source buffer holds %s bytes, expected datasource_message_max_length + 1' % cap,
               how='malloc(%s)' % cap)
        # reset before the call
        def resets(e, bid=buf['id'] if buf else None):
            if e.k == 'BinaryOperator' and e['op'] == '=':
                l = strip(e.ch[0])
                return l.k == 'ArraySubscriptExpr' and (decl_of(l.ch[0]) or {}).get('id') == bid and \
                    strip(l.ch[1]).get('v') == 0 and strip(e.ch[1]).get('v') == 0
            return False
        # the reset must be the last write to the buffer before the call on every path
        okr = False
        if buf is not None:
            okr = last_write_is_reset(G, c, buf['id'], resets)
        chk.ob('L1', 'buffer-emptied-before-call[%d]' % i, okr, c.where(), G.name,
               'the data-source buffer is not reset to "" right before %s: a data source that writes nothing (or does not '
               'terminate) contributes text of an earlier tag' % render(c)[:50],
               how='buf[0] = 0 is the last write to the buffer on every path to the call')
    # ---- L4: text of the format itself never passes through a buffer bounded by the data-source limit ---
    from engine.statics import _pointee_const as _pc
    for i, c in enumerate(dsc[:1]):
        buf = decl_of(arg(c, 1))
        if buf is None:
            break
        pt = PtrTaint(G, lambda n: False, {buf['id']})
        foreign = []
        for n in pt.stores():
            # the reset  buf[0] = 0  is the only direct store the rule accepts
            l = strip(n.ch[0])
            if n.k == 'BinaryOperator' and n['op'] == '=' and l.k == 'ArraySubscriptExpr' and \
                    strip(l.ch[1]).get('v') == 0 and strip(n.ch[1]).get('v') == 0:
                continue
            foreign.append(n)
        for call, ai, a in pt.pointer_args():
            if call.get('callee') in (DS_CALL, 'free'):
                continue
            ptypes = call.get('calleeParamTypes') or []
            if ai < len(ptypes) and _pc(ptypes[ai]):
                continue
            if ai >= len(ptypes) and call.get('calleeVariadic'):
                continue       # read as a %s argument
            foreign.append(call)
        chk.ob('L4', 'limit-sized-buffer-holds-only-datasource-output', not foreign,
               foreign[0].where() if foreign else c.where(), G.name,
               'the buffer of datasource_message_max_length + 1 bytes is also filled by %s: text of the format string copied '
               'through it is cut to the data-source limit although it is no data source output (a literal longer than '
               'the limit loses its tail even when the whole message fits)' % (render(foreign[0])[:70] if foreign else ''),
               how='written only by %s and by the reset to ""' % DS_CALL)
    # ---- L5: name and argument handed to a data source are those of THIS tag ---------------------------------
    from engine.uninit import UninitAnalysis
    ua = UninitAnalysis(prog)
    live = C.reachable_blocks(G)
    for i, c in enumerate(dsc[:1]):
        el = C.cfg_elem_of(G, c)
        pos = C.elem_positions(G)
        cb = pos[el.id][0]
        loop = None
        for comp in C._sccs(G, live):
            if cb in comp and (len(comp) > 1 or cb in G.blocks[cb].succs):
                loop = set(comp)
        if loop is None:
            break
        preds = {}
        for b in G.blocks.values():
            for s_ in b.succs:
                preds.setdefault(s_, set()).add(b.id)
        headers = [b for b in loop if any(p_ not in loop for p_ in preds.get(b, ()))]
        if not headers or not G.blocks[headers[0]].elems:
            break
        hdr = headers[0]
        arrays = [x for x in G.local_decls() if 'arrayLen' in x and (x.get('ct') or '').startswith('char')]
        for x in arrays:
            pt = PtrTaint(G, lambda n: False, {x['id']})
            if not any(a is not None and pt.is_derived(a) for a in (arg(c, 0), arg(c, 3))):
                continue
            pt2 = PtrTaint(G, lambda n: False, {x['id']})
            bad = ua._first_read(G, pt2, (hdr, 1), 0, base=x['id'])
            chk.ob('L5', 'tag-text-rebuilt-for-every-tag[%s]' % x['name'], bad is None, (bad or c).where(), G.name,
                   '%s reaches %s with what an earlier tag left in it: on some way round the expansion loop nothing is '
                   'written into it before it is used, so a tag without an argument inherits the previous tag\'s argument '
                   '(%%{env:X}|%%{datetime} expands datetime with the format "X")' % (x['name'], render(bad)[:50] if bad is not None else ''),
                   how='written on every path from the loop head to its use')
    # ---- L6: the data source name is the text of the tag from its first character ----------------------------
    for i, c in enumerate(dsc[:1]):
        nm = arg(c, 0)
        d = decl_of(nm)
        if d is not None:
            d = dict(d, id=common.alias_root(G, d['id']))
        okn, why = False, 'the name handed to the registry is not a variable'
        if d is not None:
            arrays_ = {x['id'] for x in G.local_decls() if 'arrayLen' in x}
            if d['id'] in arrays_:
                okn, why = True, 'the tag buffer itself'
            else:
                defs = [strip(x) for x in def_exprs(G, d['id'])]
                defs = [x for x in defs if not (x.get('null') or x.get('v') == 0)]
                okn = bool(defs) and all(x.k == 'DeclRefExpr' and (decl_of(x) or {}).get('id') in arrays_ for x in defs)
                why = 'assigned %s' % ', '.join(render(x)[:40] for x in defs)
        chk.ob('L6', 'name-is-the-tag-from-its-first-character', okn, c.where(), G.name,
               'the data source name is %s: a splitter such as strtok()/strtok_r() skips leading separators, so "%%{:filename}" '
               'or "%%{::env:X}" runs a data source instead of giving the "not found" error for the empty name' % why,
               how='the name pointer is the tag buffer (the argument is split off behind the first ":")')
    # what is appended after the call is the buffer itself
    # ---- L7: which results of a data source are treated as failures ----------------------------------------------
    ds_failure_rule(chk, G, dsc, 'L7')
    # ---- L2 ------------------------------------------------------------------------------------
    msg = decl_of(arg(gc, 0))
    cap = None
    if msg is not None:
        for d in def_exprs(A, msg['id']):
            s = strip(d)
            if s.k == 'CallExpr' and s.get('callee') == 'malloc':
                cap = aenv.lin(arg(s, 0))
    size = aenv.lin(arg(gc, 1))
    chk.ob('L2', 'message-buffer-is-limit-plus-one', cap is not None and cap == F_LOG + Lin.const(1), gc.where(), A.name,
           'the message buffer holds %s bytes, expected log_message_max_length + 1' % cap, how='malloc(%s)' % cap)
    def msg_reset(e):
        if e.k == 'BinaryOperator' and e['op'] == '=':
            l = strip(e.ch[0])
            return l.k == 'ArraySubscriptExpr' and (decl_of(l.ch[0]) or {}).get('id') == (msg or {}).get('id') and \
                strip(l.ch[1]).get('v') == 0 and strip(e.ch[1]).get('v') == 0
        return False
    chk.ob('L2', 'message-starts-empty', msg is not None and C.always_preceded(A, gc, msg_reset), gc.where(), A.name,
           'the freshly allocated message buffer is not set to "" before the expansion appends to it')
    chk.ob('L2', 'message-size-matches-buffer', size is not None and cap is not None and size == cap, gc.where(), A.name,
           'generateFromFormat is told the message buffer has %s bytes, it has %s' % (size, cap))
    # in G the message parameter is only written through the bounded append with the size parameter
    from engine.statics import _pointee_const
    helpers = []

    def writes_outside_append(F, p0, p1, depth=0):
        """stores to / writable escapes of the buffer `p0` of F other than APPEND(p0, p1, ...); a
        callee of this program that receives (buffer, size) is followed (same rule, its parameters)"""
        pt = PtrTaint(F, lambda n: False, {p0})
        bad_ = list(pt.stores())
        for call, i, a in pt.pointer_args():
            name = call.get('callee')
            if name == APPEND and i == 0:
                s2 = decl_of(arg(call, 1))
                if not (s2 is not None and s2['id'] == p1):
                    bad_.append(call)
                continue
            ptypes = call.get('calleeParamTypes') or []
            pty = ptypes[i] if i < len(ptypes) else ''
            if _pointee_const(pty):
                continue
            H = prog.func(name, F.tu) if name else None
            if H is not None and depth < 3 and not call.get('calleeVariadic'):
                # which argument carries the size?
                js = [j for j in range(len(H.params)) if j != i and (decl_of(arg(call, j)) or {}).get('id') == p1]
                if js and i < len(H.params):
                    sub = writes_outside_append(H, H.params[i]['id'], H.params[js[0]]['id'], depth + 1)
                    if not sub:
                        helpers.append(H.name)
                        continue
                    bad_ += sub
                    continue
            bad_.append(call)
        return bad_
    direct = []
    G0 = getattr(G, 'original', G)      # this clause follows helpers itself (parameter pairs), on the code as written
    other = writes_outside_append(G0, G0.params[0]['id'], G0.params[1]['id'])
    chk.ob('L2', 'message-only-extended-by-bounded-append', not direct and not other,
           (direct + other)[0].where() if (direct + other) else G.where(), G.name,
           'the message buffer is written other than through %s(message, size, ...): %s' % (
               APPEND, render((direct + other)[0]) if (direct + other) else ''),
           how='%d append calls, no direct store, no other writable escape%s' % (
               len(G.calls(APPEND)), (' (helpers followed: %s)' % ', '.join(sorted(set(helpers)))) if helpers else ''))
    # append -> string_append(dest, size, text) pass-through, and the guard of string_append
    AP = prog.require_func(APPEND)
    sa = AP.calls(STRAPPEND)
    ok = len(sa) >= 1 and all((decl_of(arg(c, 0)) or {}).get('id') == AP.params[0]['id'] and
                              (decl_of(arg(c, 1)) or {}).get('id') == AP.params[1]['id'] and
                              (decl_of(arg(c, 2)) or {}).get('id') == AP.params[2]['id'] for c in sa)
    chk.ob('L2', 'append-delegates-unchanged', ok, AP.where(), AP.name,
           '%s does not pass (buffer, size, text) unchanged to %s' % (APPEND, STRAPPEND))
    ba = BoundsAnalysis(prog, cg)
    S = prog.require_func(STRAPPEND)
    obls = ba.analyse(S)
    bad = [o for o in obls if not o.ok]
    chk.ob('L2', 'bounded-append-keeps-terminator-inside', bool(obls) and not bad, (bad[0].node if bad else S.body).where(),
           S.name, bad[0].missing if bad else '',
           how='%d write obligation(s) of %s discharged: strlen(dest) + strlen(text) + 1 <= size' % (len(obls), STRAPPEND))
    # the append refuses exactly what does not fit: text for which strlen(dest) + strlen(text) + 1 <= size is appended.
    # (A guard that is one byte too strict is memory-safe - the clause above holds - but loses the last piece of every
    # expansion that fills its limit exactly.)
    senv = LinEnv(S)
    D = Lin.sym(('strlen', ('decl', S.params[0]['id']), S.params[0]['name']))
    T_ = Lin.sym(('strlen', ('decl', S.params[2]['id']), S.params[2]['name'])) if len(S.params) > 2 else None
    B_ = Lin.sym(('var', S.params[1]['id'], S.params[1]['name']))
    SNOOPY_ERROR = common.macro_value(ctx.repo, 'SNOOPY_ERROR')
    refusals = []
    if T_ is not None:
        for b in S.blocks.values():
            c = strip(b.cond) if b.cond is not None else None
            if c is None or len(b.all_succs) != 2 or c.k != 'BinaryOperator' or c['op'] not in ('<', '<=', '>', '>='):
                continue
            def resolve(L, depth=0):
                # a local that is initialised to 0 at its declaration and assigned once afterwards stands for that assignment
                if L is None or depth > 6:
                    return L
                out_ = Lin.const(L.c)
                for sym, co in L.t.items():
                    term = Lin.sym(sym)
                    if sym[0] == 'var' and not any(p_['id'] == sym[1] for p_ in S.params):
                        ds_ = [x for x in def_exprs(S, sym[1]) if strip(x).get('v') != 0]
                        if len(ds_) == 1:
                            sub_ = resolve(senv.lin(ds_[0]), depth + 1)
                            if sub_ is not None:
                                term = sub_
                    out_ = out_ + term.scale(co)
                return out_
            l_, r_ = resolve(senv.lin(c.ch[0])), resolve(senv.lin(c.ch[1]))
            if l_ is None or r_ is None:
                continue
            # which edge refuses (reaches `return SNOOPY_ERROR` without copying)?
            for si in (0, 1):
                vis, _ = common.reach_from_edge(S, b, si)
                rets = [S.nodes[v] for v in vis if S.nodes[v].k == 'ReturnStmt']
                copies_ = [S.nodes[v] for v in vis if S.nodes[v].k == 'CallExpr' and S.nodes[v].get('callee') in (
                    'strcat', 'strcpy', 'memcpy', 'strncat', 'strncpy', 'memmove', 'snprintf')]
                if rets and not copies_ and all(strip(r.ch[0]).get('v') == SNOOPY_ERROR for r in rets if r.ch):
                    op = c['op'] if si == 0 else {'<': '>=', '<=': '>', '>': '<=', '>=': '<'}[c['op']]
                    one = Lin.const(1)
                    g = {'<': r_ - l_ - one, '<=': r_ - l_, '>': l_ - r_ - one, '>=': l_ - r_}[op]   # refuse  <=>  g >= 0
                    refusals.append((b, g))
    want = D + T_ + Lin.const(1) - B_ - Lin.const(1) if T_ is not None else None    # strlen(d)+strlen(t)+1 > size  <=>  d+t+1-size-1 >= 0
    for b, g in refusals:
        chk.ob('L2', 'append-refuses-only-what-does-not-fit', g == want, b.cond.where(), S.name,
               'the append is refused when %s >= 0, i.e. not exactly when strlen(dest) + strlen(text) + 1 > size (%s >= 0): text '
               'that would fill the buffer to its last byte is dropped - an expansion of exactly log_message_max_length '
               'characters loses its final piece' % (g, want),
               how='refused exactly when %s >= 0' % want)
    # ---- L3 ------------------------------------------------------------------------------------
    n = 0
    from engine import inline
    for f0 in prog.functions:
        if f0.name == A.name:
            continue
        if f0.internal and any(g.tu is f0.tu and g is not f0 and g.calls(f0.name) for g in prog.functions):
            continue        # a file-local helper: judged inside the inlined view of its callers
        f = inline.inlined(prog, f0)
        for c in f.calls(GEN):
            n += 1
            b = strip(arg(c, 0))
            d = decl_of(b)
            size = strip(arg(c, 1)).get('v')
            capb = None
            if d is not None:
                for x in f.local_decls():
                    if x['id'] == d['id'] and 'arrayLen' in x:
                        capb = x['size']
                if capb is None:
                    # pointer to a local array
                    for e in def_exprs(f, d['id']):
                        dd = decl_of(e)
                        if dd is not None:
                            for x in f.local_decls():
                                if x['id'] == dd['id'] and 'arrayLen' in x:
                                    capb = x['size']
            chk.ob('L3', 'template-buffer[%s]' % f.name, capb is not None and size == capb, c.where(), f.name,
                   'template expanded into a %s-byte buffer but announced as %s bytes' % (capb, size),
                   how='fixed buffer of %s bytes, limit %s' % (capb, size))
            # the expansion APPENDS to its destination: the buffer must be this call's own, empty one
            fresh, why = fresh_empty_buffer(f, c, arg(c, 0))
            chk.ob('L3', 'template-buffer-fresh[%s]' % f.name, fresh, c.where(), f.name,
                   'the template is expanded (appended) into %s: %s — from the second logged exec of a process on, the '
                   'expansion is appended to the previous one' % (render(arg(c, 0)), why),
                   how='automatic buffer, emptied before the expansion')
    if n == 0:
        raise AnalysisBroken('no template expansion call sites found')


def fresh_empty_buffer(f, call, bufexpr):
    """the destination is automatic storage of f and starts as "" on every path to the call"""
    d = decl_of(bufexpr)
    if d is None:
        return False, 'not a local buffer'
    target = d
    decls = {x['id']: x for x in f.local_decls()}
    x = decls.get(d['id'])
    if x is not None and 'arrayLen' not in x:
        # pointer to a local array
        for e in def_exprs(f, d['id']):
            dd = decl_of(e)
            if dd is not None and dd['id'] in decls:
                target = dd
                x = decls[dd['id']]
    if x is None:
        return False, 'not a local buffer'
    if x.get('staticStorage') or x.get('staticLocal'):
        return False, 'the buffer has static storage and keeps its content between calls'
    if x.get('init', -1) != -1:
        init = strip(f.nodes[x['init']])
        if init is not None and (init.k == 'InitListExpr' or (init.k == 'StringLiteral' and init.get('s') == '')):
            return True, ''

    def resets(e, bid=target['id']):
        if e.k == 'BinaryOperator' and e['op'] == '=':
            l = strip(e.ch[0])
            return l.k == 'ArraySubscriptExpr' and (decl_of(l.ch[0]) or {}).get('id') == bid and \
                strip(l.ch[1]).get('v') == 0 and strip(e.ch[1]).get('v') == 0
        return False
    if C.always_preceded(f, call, resets):
        return True, ''
    return False, 'the buffer is not emptied before the expansion'


def last_write_is_reset(G, call, bid, resets):
    """on every path to `call`, the last element that writes the buffer `bid` is a reset (plain copies of the buffer
    pointer - parameters of inlined helpers - count as the buffer)"""
    root = lambda x: common.alias_root(G, x) if x is not None else None

    def writes(e):
        if resets(e):
            return 'reset'
        if e.k == 'BinaryOperator' and e['op'] == '=':
            l = strip(e.ch[0])
            if l.k == 'ArraySubscriptExpr' and root((decl_of(l.ch[0]) or {}).get('id')) == bid:
                return 'reset' if (strip(l.ch[1]).get('v') == 0 and strip(e.ch[1]).get('v') == 0) else 'write'
        if e.k == 'CallExpr':     # including the data source call itself when it is reached again round the loop
            for i, a in enumerate(e.ch[1:]):
                d = decl_of(a) if a is not None else None
                if d is not None and root(d['id']) == bid:
                    ptypes = e.get('calleeParamTypes') or []
                    pty = ptypes[i] if i < len(ptypes) else ''
                    from engine.statics import _pointee_const
                    if not _pointee_const(pty):
                        return 'write'
        return None

    def transfer(st, e):
        w = writes(e)
        if w == 'reset':
            return 'reset'
        if w == 'write':
            return 'dirty'
        return st
    order = {'reset': 0, 'fresh': 1, 'dirty': 2}
    join = lambda a, b: a if order[a] >= order[b] else b
    ins = C.forward_dataflow(G, 'fresh', transfer, join)
    pos = C.elem_positions(G)
    el = C.cfg_elem_of(G, call)
    b, i = pos[el.id]
    st = ins.get(b)
    if st is None:
        return False
    for e in G.blocks[b].elems[:i]:
        st = transfer(st, e)
    return st == 'reset'
