#!/usr/bin/env python3
"""Run every check against the sources of the pinned commit (the tree before any `fix:` commit) and record
which rule instances report: every repaired finding must still be reported there ("a fixed entry suppresses
nothing").  Scratch copy under /tmp, removed afterwards.  Writes /verif/seeded/PINNED_TREE.json."""
import json
import os
import re
import shutil
import subprocess
import tempfile

VERIF = os.path.dirname(os.path.dirname(os.path.abspath(__file__)))
PINNED = '765378a'
d = tempfile.mkdtemp(prefix='snoopy-pinned-')
sc = os.path.join(d, 'repo')
try:
    subprocess.call(['rsync', '-a', '--exclude', '*.o', '--exclude', '*.lo', '--exclude', '.libs', '--exclude', '/tests',
                     '/repo/', sc + '/'])
    subprocess.check_call(['git', '-C', sc, 'checkout', '-q', PINNED, '--', 'src', 'lib'])
    out = {}
    for i in range(1, 21):
        pid = 'C%02d' % i
        q = subprocess.run([os.path.join(VERIF, 'check'), pid, '--no-evidence'], env=dict(os.environ, VERIF_REPO=sc),
                           stdout=subprocess.PIPE, stderr=subprocess.STDOUT, text=True)
        out[pid] = {'exit': q.returncode, 'instances': sorted(set(re.findall(r'^\s+instance: (.*)$', q.stdout, re.M)))}
        print(pid, q.returncode, len(out[pid]['instances']))
    json.dump({'pinned_commit': PINNED, 'checks': out}, open(os.path.join(VERIF, 'seeded', 'PINNED_TREE.json'), 'w'), indent=1)
finally:
    shutil.rmtree(d, ignore_errors=True)
