#!/usr/bin/env python3
"""Apply a feature-addition patch to a scratch copy of /repo, switch the new feature on in the scratch
config.h (configure is not re-run) and in the scratch Makefile variables the build model reads, then run checks.
  tryfeature.py PATCH.diff MACRO[,MACRO...] C01 C02 ...
"""
import os, shutil, subprocess, sys, tempfile
VERIF = os.path.dirname(os.path.dirname(os.path.abspath(__file__)))
patch, macros, checks = os.path.abspath(sys.argv[1]), sys.argv[2].split(','), sys.argv[3:]
d = tempfile.mkdtemp(prefix='snoopy-feat-')
sc = os.path.join(d, 'repo')
try:
    subprocess.call(['rsync', '-a', '--exclude', '.git', '--exclude', '*.o', '--exclude', '*.lo', '--exclude', '.libs',
                     '--exclude', '/tests', '--exclude', '*.log', '--exclude', '*.trs', '/repo/', sc + '/'], stderr=subprocess.DEVNULL)
    p = subprocess.run(['patch', '-s', '-f', '-p1', '-d', sc, '-i', patch], stdout=subprocess.PIPE, stderr=subprocess.STDOUT, text=True)
    print('patch rc', p.returncode, '(hunks for the excluded tests/ directory are skipped)')
    with open(os.path.join(sc, 'config.h'), 'a') as f:
        for m in macros:
            if m:
                f.write('\n#define %s 1\n' % m)
    rc = 0
    for pid in checks:
        q = subprocess.run([os.path.join(VERIF, 'check'), pid, '--no-evidence'], env=dict(os.environ, VERIF_REPO=sc),
                           stdout=subprocess.PIPE, stderr=subprocess.STDOUT, text=True)
        lines = q.stdout.replace(sc + '/', '').strip().split('\n')
        if q.returncode != 0:
            print('\n'.join(l for l in lines if not l.startswith('VIOLATION'))[-1800:])
        print('== %s exit=%d' % (pid, q.returncode))
        rc = max(rc, q.returncode)
    sys.exit(rc)
finally:
    shutil.rmtree(d, ignore_errors=True)
