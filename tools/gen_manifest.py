#!/usr/bin/env python3
"""Regenerate /verif/MANIFEST.json from the table below (single source of truth for
what is claimed).  Run after adding/removing a rule module."""
import json
import os
import sys

HERE = os.path.dirname(os.path.dirname(os.path.abspath(__file__)))
sys.path.insert(0, HERE)

CLAIMED = {
    'C18': dict(
        category='other',
        text='Control-flow and arithmetic clauses of enable: writeFile is the only writer and is called only by enable and '
             'disable; the "already enabled" outcome returns 0 and the "foreign instance" outcome ends in the fatal exit, '
             'both provably without reaching the (at most one) write, and both tests dominate it; the own-entry search '
             'accepts exactly the documented follower characters {NUL, LF, #, space, tab} tested on the single character '
             'after a line-initial match; the new buffer is strlen(old)+strlen(path)+3 bytes, the old content is copied '
             'whole to its start and the entry is appended at an address proved >= new + strlen(old) (nothing of the old '
             'content is overwritten), all stores bounded (linear-inequality engine).',
        design_ref='DESIGN.md §5 C18',
        note='Not decided: the byte-level result beyond these clauses; comment-line classification by the foreign-instance '
             'search (a comment naming libsnoopy.so twice is misread - observed, outside the rules); agreement with status.',
        technique='static analysis: branch-polarity reachability + character-set table agreement + linear-inequality obligations'),
    'C19': dict(
        category='other',
        text='Control-flow and arithmetic clauses of disable: sole writer; the "absent" outcome returns 0 and the duplicate '
             'outcome ends in the fatal exit without reaching the (at most one) write; entry recognition uses exactly the '
             'documented follower set; the new buffer is strlen(old)+1; the part before the entry is copied as [old, entry) '
             'to the start, the remainder is copied from an address proved to be entry + strlen(entry line) or one byte '
             'later and lands right behind the first part (so no following blank line, comment or entry can be swallowed); '
             'every copy bounded.',
        design_ref='DESIGN.md §5 C19',
        note='Not decided: a library sharing the entry\'s own line is removed with that line (documented whole-line '
             'mechanism; observed, outside the rules); byte-level result in general.',
        technique='static analysis: branch-polarity reachability + linear-inequality obligations over pointers into the old content'),
    'C12': dict(
        category='other',
        text='For every registered data source the backward def-use slice of each value it prints (through locals, '
             'out-parameters and helper functions) is compared with a table transcribed from the documentation: the '
             'documented query is called with the documented argument, no other query of the same confusable family '
             '(real/effective uid/gid; pid/ppid/sid/tid) is used, struct results contribute the documented member only '
             '(tv_sec vs tv_usec, st_uid, pw_name), name lookups are keyed by the documented id, numeric ids use an '
             'integer conversion. This is exactly the confusion a suite run as root with all ids 0 cannot see.',
        design_ref='DESIGN.md §5 C12',
        note='Not decided: procfs/utmp/hosts parsers (rpname, cgroup, ipaddr, domain beyond their starting query), '
             'name-service behaviour, exotic process states.',
        technique='static analysis: interprocedural backward def-use slicing against a specification table'),
    'C14': dict(
        category='other',
        text='Real-uid source (only getuid, no other identity query), path-sensitive polarity (the constants returned on '
             'paths through / never through the "item == uid" edge are exactly PASS/DROP as specified, for only_uid, '
             'exclude_uid and only_root), the compared item is the decimal conversion of a list element and takes part '
             'in no other condition (no hidden bound such as INT_MAX), both list filters share helper, conversion and '
             'count-bounded loop: complementarity follows for every uid and list.',
        design_ref='DESIGN.md §5 C14',
        note='Not decided: decimal parsing and comma splitting as string algorithms (libc atol; csvToArgList).',
        technique='static analysis: path-sensitive constant/polarity dataflow + def-use + sibling agreement'),
    'C15': dict(
        category='other',
        text='Provenance of the pid driving the ancestor walk (getppid first, afterwards only sscanf over the stat text '
             'just read from fopen of the path formatted from that pid; loop ends at 0), polarity across the three '
             'functions (name match only through strcmp == 0, "found" only through the match edge, DROP only for '
             'found; every error and an exhausted walk give PASS), the comm field delimited by a first-occurrence '
             'search for "(" and a last-occurrence search for ")", name copy bounded and terminated (A4).',
        design_ref='DESIGN.md §5 C15',
        note='Not decided: tokenisation of the argument list (empty items) as a string algorithm; pid namespaces.',
        technique='static analysis: def-use provenance + path-sensitive polarity dataflow + A4 obligations'),
    'C08': dict(
        category='other',
        text='Agreement and isolation clauses: every option-table row binds name, parser and printer of the same option, '
             'names unique and equal to the documented options, terminator last, callback indexes by the name lookup; '
             'each parser writes exactly the configuration fields its printer reads; the syslog name tables agree in '
             'both directions, are bijective and each name is its LOG_ macro suffix; the byte-length parser\'s returns '
             'are proved inside [min,max] (or the default) for all numbers by the linear-inequality engine, with no '
             'overflowing signed arithmetic, and the two limits only receive such values; a foreign section returns from '
             'the callback without any call; configuration fields are written only by parsers, defaults, destructor and '
             'loader; defaults are total.',
        design_ref='DESIGN.md §5 C08',
        note='Not decided: value semantics per option text (quote stripping, boolean by first letter, k/m value), last '
             'occurrence wins as a value statement, the snoopyctl conf round trip as a string identity.',
        technique='static analysis: table/field/sibling agreement (A7) + CFG path isolation + linear-inequality clamp proof'),
    'C05': dict(
        category='other',
        text='Decides the two length clauses only: sizes are composed symbolically across action -> generateFromFormat -> '
             'registry -> data source (linear forms over the configuration fields substituted through the parameters): '
             'a data source gets exactly datasource_message_max_length+1 bytes (buffer and announced size), the buffer is '
             'emptied before every call; the message buffer is log_message_max_length+1, is only extended through the '
             'bounded append whose write obligation is discharged by the A4 engine; ident/path templates use fixed '
             'buffers with their own size as limit. Valid for every value of the two limits.',
        design_ref='DESIGN.md §5 C05',
        note='NOT decided: exactness of the expansion (replacement order, literal copy, error texts, emitted exactly '
             'when it fits). Two off-by-one defects on the pinned tree were replayed and repaired.',
        technique='static analysis: interprocedural symbolic size composition (linear forms) + A4 obligation of the append helper'),
    'C02': dict(
        category='other',
        text='Memory-safety discipline of everything reachable from the interposers: every write sink (sized and '
             'unbounded libc writers, subscript and pointer stores, (buffer,size) contracts at direct and registry call '
             'sites) is an obligation offset + n <= capacity discharged by a forward analysis over conjunctions of '
             'linear inequalities with symbolic buffer sizes (Fourier-Motzkin projection and entailment, loop '
             'invariants by join, relaxation candidates and widening) - hence for every result-buffer size and input '
             'length; unsigned size expressions must be provably non-negative; termination after non-terminating '
             'writers; no signed arithmetic on text-converted integers without a range check; nullable results and '
             'valid-on-success buffers tested before use (argv, argv[0], environ are nullable sources). Six sites that '
             'need non-linear or content-dependent arguments are listed exceptions with machine-checked side conditions.',
        design_ref='DESIGN.md §5 C02, §4 A4/A5',
        note='Not decided: hangs, uninitialised reads, over-reads, UB kinds outside the rules. Trusted: libc writers '
             'respect their size argument. Six genuine defects found on the pinned tree were replayed (ASan/SEGV) and repaired.',
        technique='static analysis: linear-inequality abstract domain (polyhedra-lite) over the CFG + nullable/validity '
                  'dataflow + termination typestate'),
    'C11': dict(
        category='other',
        text='Inductive argument over one call, decided structurally in both build variants: the configuration is '
             're-read before logging on every path (no parse-once caching); every field that the configuration-file '
             'code can write is restored to the value setDefaults assigns, unconditionally, by the destructor (or the '
             'record is allocated fresh, marked uninitialised, defaulted by the getter and freed per call); the '
             'pointer/_malloced typestate holds on all paths (flag agrees with value, free only under the flag, no '
             'overwrite while owned). Hence the state before call k+1 equals a fresh process\'s for every history.',
        design_ref='DESIGN.md §5 C11',
        note='The ts-off carry-over defect on the pinned tree was replayed (dlopen harness) and repaired.',
        technique='static analysis: struct-field write/restore set agreement per build variant + owning-field typestate'),
    'C06': dict(
        category='other',
        text='Decides the "nothing from an earlier call" clause and the wiring: every call stores its own '
             'filename/argv/envp before the log action (dominance + parameter-origin tracing through the helper), ctor '
             'and dtor reset every field of the input record to empty constants on every path and init/cleanup run '
             'them, no registered data source (nor anything it reaches) writes static storage, cmdline tests argv and '
             'argv[0] for NULL before use and the guarded outcome returns the stored path. Both build variants.',
        design_ref='DESIGN.md §5 C06',
        note='Not decided: the byte-level result of the join (single spaces, prefix on truncation).',
        technique='static analysis: dominance/must-call summaries + struct-field agreement + static-write enumeration + '
                  'nullable-source dataflow'),
    'C07': dict(
        category='other',
        text='Conjunction structure of check_chain by branch-polarity analysis on all paths (DROP is returned only '
             'through the DROP edge of a filter-result test, every other exit returns PASS, a DROP is final, the '
             'not-found edge of the name lookup reaches no filter call), at most one filter call per tokenised element '
             'with name/argument derived from that element, purity of every registered filter and everything it '
             'reaches (no static-storage write, no configuration write, argument only read), silence of the DROP '
             'outcome in the action (nothing that may emit before or after the decision). Purity + conjunction give '
             'order/repetition independence for every chain.',
        design_ref='DESIGN.md §5 C07',
        note='Not decided: tokenisation of the chain text (empty elements, separators) as a byte-level algorithm; the '
             'filters\' own verdicts are C14/C15.',
        technique='static analysis: branch-polarity path analysis + purity (static-write / pointer-derivation) analysis '
                  '+ call-graph reachability'),
    'C09': dict(
        category='other',
        text='Lockset discipline on all CFG paths: the held/free state of the repository mutex is propagated through every '
             'function of tsrm.c (context-sensitive for the flag-parameterised lookup) and every repository access must '
             'see {held}; locks released on all paths, nothing that can block or do I/O runs under the lock (two reasoned '
             'exceptions), single mutex; every write to static storage reachable from the interposers is enumerated and '
             'must be a synchronisation object, under the lock or in the pthread_once initialiser; deny-list of '
             'non-reentrant libc APIs; per-thread record keyed by pthread_self() and removed by its owner; the '
             'non-thread-safe build has no lock and only the two global records. Decides race-freedom for every '
             'interleaving rather than sampling schedules.',
        design_ref='DESIGN.md §5 C09, §4 A3/A6',
        note='Three defects found on the pinned tree were replayed (two under ThreadSanitizer, the shared libc utmp cursor '
             'with a deterministic harness) and repaired; no open finding. Not decided: record contents under actual '
             'interleavings.',
        technique='static analysis: lockset/typestate dataflow + static-storage write enumeration + deny-list'),
    'C16': dict(
        category='other',
        text='Acquire/release typestate on all CFG paths of every function reachable from the interposers (heap, FILE*, '
             'descriptors, getline buffers, the repository lock) with ownership summaries across calls; an '
             'interprocedural typestate for the pointer/_malloced pairs of the configuration record (no overwrite while '
             'owned, flag agrees with value, free only under the flag); init/cleanup mirror and per-thread record '
             'allocation/free agreement; SOCK_CLOEXEC; deny-list of process-state mutators over the resolved call graph. '
             'Thread-safe and non-thread-safe builds. Error paths are covered because every CFG path is.',
        design_ref='DESIGN.md §5 C16, §4 A3',
        note='Not decided: memory retained inside libc; measured growth. Three genuine leaks found on the pinned tree '
             'were replayed under valgrind and repaired.',
        technique='static analysis: pairing/typestate dataflow with ownership summaries + call-graph deny-list'),
    'C03': dict(
        category='other',
        text='Per-call-site failure discipline over everything reachable from the interposers: socket()/send() flags '
             'constant-folded (NONBLOCK, CLOEXEC, DONTWAIT, NOSIGNAL); deny-list of blocking/signalling APIs on the resolved '
             'call graph; a forward may-analysis proves every fallible I/O result (FILE*, getcwd, ttyname_r, stat, '
             'gettimeofday, getpwuid_r, ...) is tested before the dependent handle/buffer is used; outputs contain no '
             'retry loops around transmit/open calls; the action ignores the output status. Every single fault and '
             'every fault sequence is covered because each site is decided independently of history.',
        design_ref='DESIGN.md §5 C03, §4 A1/A5',
        note='Not decided: latency, kernel-level blocking of open/write on exotic sinks (FIFO without reader). Memory '
             'exhaustion outside the domain.',
        technique='static analysis: flag constant folding + call-graph deny-list + nullable/valid-on-success dataflow + '
                  'CFG cycle detection'),
    'C04': dict(
        category='other',
        text='All CFG paths of action -> dispatch -> output table -> output: the DROP outcome of the filter test cannot '
             'reach any emission and nothing that may emit runs before the filter decision; non-drop paths dispatch '
             'exactly once; an empty message returns before the registry; emission APIs are reachable from the '
             'interposers only behind the output-table call (call graph with that edge cut); each registered output is '
             'compared with the framing the property states (printf format tokens, linear length arithmetic over '
             'strlen(message), SOCK_DGRAM, devlog field sources); stdio emissions are flushed before the output returns; '
             'error records only on the enabled branch.',
        design_ref='DESIGN.md §5 C04',
        note='Message content is C05/C06; the kernel delivers what it was handed. The stdout/stderr flush defect found '
             'on the pinned tree was replayed and repaired.',
        technique='static analysis: CFG path counting + call-graph cut reachability + format-string/linear-length '
                  'framing comparison'),
    'C17': dict(
        category='other',
        text='Decides the fact the property names as deciding: per record exactly one write-class call on a '
             'descriptor opened O_APPEND without O_TRUNC. All CFG paths of the single writer (file, devtty, devnull '
             'funnel into it) are counted from the successful open to the exit; the write must cover the whole '
             'assembled record (length derived from the message length); a stdio emission only counts as one write '
             'on a stream with a provably record-sized buffer.',
        design_ref='DESIGN.md §5 C17',
        note='Assumes the kernel appends a single O_APPEND write indivisibly (as the property does). The defect found '
             'on the pinned tree (libc splitting records > BUFSIZ) was replayed with strace and repaired.',
        technique='static analysis: open-flag constant folding + min/max write-effect path counting on the CFG'),
    'C20': dict(
        category='other',
        text='Typestate check of the atomic-replace protocol on the only function that may modify ld.so.preload: the '
             'live path is never opened writable/truncating anywhere in the CLI; the only mutation is rename(temp, live) '
             'with temp = live path + constant suffix; on every path to the rename: exclusive create -> write -> fflush '
             '-> fsync -> close in that order (forward dataflow, meet = min stage), each result tested with the rename '
             'unreachable from the failure outcome; the temp is unlinked on every path that ends without a successful '
             'rename. Crash points are quantified away by the protocol.',
        design_ref='DESIGN.md §5 C20',
        note='Assumes rename(2) within a directory is atomic. The defect on the pinned tree (fopen "w+") was replayed '
             '(kill at the write leaves a 0-byte file) and repaired.',
        technique='static analysis: typestate/ordering dataflow on the CFG + branch-polarity analysis of result tests'),
    'C01': dict(
        category='other',
        text='Static path and call-graph analysis of the two interposers: one indirect call whose callee is only '
             'dlsym(RTLD_NEXT, own name); arguments are the unmodified parameters in order; the call is executed '
             'exactly once on every CFG path, after init < store < log < cleanup (callees inlined by must-call/'
             'may-call summaries), its value is returned with nothing executing afterwards; no non-returning/'
             'process-replacing API reachable through the resolved call graph (registries expanded); the stored '
             'path/argv/envp are only read (pointer derivation analysis), environment never mutated. Quantifies '
             'over all paths of the code instead of sampled inputs.',
        design_ref='DESIGN.md §5 C01, §4 A1/A2/A9',
        note='Assumes dlsym(RTLD_NEXT) resolves to libc and is non-NULL; indirect calls are those A1 resolves '
             '(tables, parameters, dlsym results; anything else aborts the check with exit 2).',
        technique='static analysis: CFG dominance/path counting + interprocedural call summaries + '
                  'call-graph deny-list reachability + pointer-derivation (read-only) analysis'),
    'C10': dict(
        category='other',
        text='Protocol check that quantifies the schedules away: every mutex acquired on the execv/execve path '
             '(found through the resolved call graph) must be covered by a pthread_atfork registration made once '
             '(pthread_once initialiser) before the first acquisition, whose prepare handler acquires it on every '
             'path, whose parent handler releases it and whose child handler re-initialises it (release is accepted '
             'only for default-type mutexes: a recursive mutex records the owner tid, which differs in the child). '
             'Without this any instant at which another thread holds the lock is a deadlock for the forked child.',
        design_ref='DESIGN.md §5 C10',
        note='Assumes fork() is the only address-space-copying process creation and POSIX atfork semantics. The '
             'defect the rule found on the pinned tree was replayed concretely and repaired (known_findings.json).',
        technique='static analysis: call-graph lock-site discovery + CFG must-pass-through on fork handlers'),
    'C13': dict(
        category='proof',
        text='Complete case analysis over the guard structure of the three registries: the names and '
             'pointer arrays are the same sequence of (presence condition, entry) pairs, so they stay '
             'aligned under all 2^50 assignments of the feature guards at once; lookup and call use the '
             'same index. Obligations are rule instances; the presence-condition parser is validated '
             'against clang\'s preprocessor on enumerated configurations (quick: 13, thorough: 253).',
        design_ref='DESIGN.md §5 C13, §4 A7/A8',
        note='Trusted: clang 14 front end, the A8 #if parser (translation-validated on every run), the '
             'naming convention entry X <-> snoopy_<kind>_X. Not decided: what each implementation computes.',
        technique='static analysis: preprocessor presence-condition analysis + AST table agreement + '
                  'def-use on the lookup/call index'),
}

NOT_APPLICABLE = {}

PENDING_REASON = 'check not built yet (work in progress; see DESIGN.md §5 for the planned static rule)'


# clauses added after the first version of the table (appended to the texts above)
ADDED = {
    'C01': dict(text=' E8: every call-graph cycle between the interposer and the real call is a listed bounded recursion or '
                     'cut by the error handler\'s re-entrancy guard. E9: no alloca, no run-time sized array on that path.'),
    'C02': dict(text=' Loads: every load through a subscript/dereference of a character object of known extent, every sized '
                     'reader (memcpy source, write, send) and every (pointer, length) read contract at call sites is an '
                     'obligation of the same engine. A9: automatic char arrays and malloc()ed buffers are written before they '
                     'are read (alias-aware dataflow, read-first summaries of callees). H1: every loop changes something one '
                     'of its exit conditions depends on. Name tables: the terminator row is never selected (dataflow since '
                     'the index last changed) in the option table and the generic registry.',
               note=' H1 is a necessary condition, not a termination proof.'),
    'C03': dict(text=' B6: no unbounded recursion (call-graph cycles are listed bounded recursions or cut by a re-entrancy '
                     'guard whose flag is off at every call that stays on the cycle). B7: stack use independent of '
                     'configuration and input (no alloca / run-time sized arrays, frames below 64 KiB).'),
    'C05': dict(text=' L4: the buffer sized by the data-source limit is written only by the data source call and the reset, '
                     'so literal text of the format is never cut to that limit.',
               note=' Byte-for-byte copy of literals beyond L4 is not decided.'),
    'C08': dict(text=' T4 also: the text handed to strtoull consists of characters that passed isdigit() (or starts with one), '
                     'so white space and signs are not taken as numbers.',
               note=' What an unparsable value does after a valid earlier occurrence of the same option is not determined by '
                    'the statement (the pinned tree resets syslog_facility/level and the lengths but keeps error_logging): no rule.'),
    'C10': dict(text=' FK4: no lock of a kind the fork handlers cannot release in the child (flock/lockf/fcntl locks on '
                     'inherited descriptors, semaphores, rwlocks, spinlocks, condition waits) on the exec path; mutex '
                     'attribute objects are identified by declaration, global or local.'),
    'C12': dict(text=' W1: root process name - for each class of parent pid (1, 0, lookup failure, other) the walk takes the '
                     'documented step (value-pruned path exploration).',
               note=' A writer being offered less than its buffer (strftime with size-1) is not reported.'),
    'C15': dict(text=' X4: the name list handed to the NULL-terminated scan is dense (no way round the fill loop advances the '
                     'slot index without storing) and terminated.',
               note=' A comparison not built on strcmp ends analysis-broken (exit 2), not pass.'),
    'C18': dict(text=' Q7: the active-line search walks back to the start of the content (never to a moving cursor) and the '
                     'character classified as "#" is the first of its line on every path; "already enabled" is decided by the '
                     'strict entry search.',
               note_replace='Not decided: the byte-level result beyond these clauses; agreement with status.'),
    'C19': dict(text=' The remainder copy starts inside the entry\'s line (at most one byte behind it) and where it starts is '
                     'chosen by a condition on what follows the entry on that line, so libraries sharing the line stay.',
               note_replace='Not decided: which separators remain on a shared line; CR-LF files; byte-level result in general.'),
    'C20': dict(text=' A raw write() of the content must have its result compared with the byte count (short writes are failures).'),
}
ADDED2 = {
    'C01': ' E7 treats getenv() results and environ as caller data and uses write summaries of callees regardless of const.',
    'C02': ' A4T: the terminator after strncpy/memcpy sits at an index <= the copy count; uses through aliases of local arrays.',
    'C03': ' B5 also: no loop on the exec path retries depending on errno.',
    'C04': ' R6: error logging is switched back on only where it was found on. R7: a copy of the output argument into a fixed '
           'address field is offered the whole field.',
    'C05': ' L5: per-tag name/argument buffers are rebuilt on every way round the expansion loop. L6: the name looked up is the tag from its first character.',
    'C06': ' S1: each store function writes its own field of the per-call record only. S5: no precision on the conversions printing the path/arguments.',
    'C08': ' T9 output without argument gets the empty argument; T11 string options stored whole; T12 snoopyctl conf prints values '
           'unchanged; T7 over the INI parser and its helpers, inline-comment scan before the trim; T5 a section header forgets '
           'the remembered option name.',
    'C10': ' FK5: the mutex tolerates a second lock by its owner.',
    'C13': ' P1: an initialiser entry that continues across a change of presence condition (missing comma) is a violation.',
    'C14': ' U3: the whole list is parsed (strdup of the argument) and the list parser\'s count matches its entries.',
    'C15': ' X1: only pid 0 ends the walk; X4: an empty-string list terminator must not be a possible item.',
    'C16': ' O6: the strings of the environment are only read.',
    'C17': ' W1 also: neither O_EXCL nor O_NONBLOCK on the named file writer.',
    'C18': ' Q1: the preload file is read whole (buffer sized from the measured file size). Q8: written-before-read and loop progress in the CLI code.',
    'C19': ' Q1/Q8 as for C18.',
}
ADDED3 = {
    'C02': ' A10: no double free / use after free. The join of the bounds engine proposes invariants for lockstep counters and sums without unknown unsigned terms. '
           'Unsigned differences are modelled with their wrap-around (the mathematical value only where the state shows it cannot be negative); '
           'the data sources are analysed under a size floor of 16 bytes that every call site has to guarantee.',
    'C03': ' B9 released blocks are left alone; B10 a failed read/write ends its loop.',
    'C04': ' R1 also: nothing reachable from the configuration constructor emits (the configuration is loaded before the chain is consulted). '
           'R4: the devlog socket is "/dev/log" or a configured path whose default is "/dev/log".',
    'C07': ' F2 also: within one turn of the chain loop only the element\'s own text, the registry\'s answer and a DROP verdict decide whether '
           'the filter call is reached. F4 shares the silent-configuration clause of C04.',
    'C08': ' T3 also: the syslog converters return table values only; further accepted names must be documented aliases of printable values. '
           'T4 also: every multiplication with the parsed number is formed in a 64-bit type; no sizeof of a pointer in the length parser.',
    'C06': ' S5 also: cmdline/filename do not produce their value with the all-or-nothing append (a long value is cut, not refused).',
    'C11': ' N5: nothing reachable from the configuration constructor/destructor writes static storage.',
    'C12': ' Q3 also: gethostname is given the data source\'s size parameter or a constant of at least 65; strftime is given the whole buffer.',
    'C15': ' X2 also: bounded copies (snprintf/strlcpy) into local arrays are given the array\'s size.',
    'C14': ' U3 accepts a countdown walk over the list; an item judged through another helper ends "not decided"; an item narrowed through a signed 32-bit cast is compared in 32-bit unsigned.',
    'C17': ' W1 reads open flags from a local flags variable (bits set on every path / on some path).',
    'C18': ' Q3 also: the text read from the file is not stored into (or every store is undone on every path) before the new content is built.',
    'C19': ' Q5 also: the text read from the file is left intact (as C18 Q3).',
    'C20': ' AT1 follows the live path into the parameters of helpers and out of functions returning it; link() of the live file is not a move-away.',
}
for _d in (ADDED2, ADDED3):
    for _pid, _t in _d.items():
        ADDED.setdefault(_pid, {})
        ADDED[_pid]['text'] = ADDED[_pid].get('text', '') + _t
for _pid, _a in ADDED.items():
    CLAIMED[_pid]['text'] += _a.get('text', '')
    if 'note_replace' in _a:
        CLAIMED[_pid]['note'] = _a['note_replace']
    CLAIMED[_pid]['note'] += _a.get('note', '')



def main():
    checks = []
    for pid in sorted(CLAIMED):
        c = CLAIMED[pid]
        checks.append({
            'property_id': pid,
            'quick_cmd': './check %s --tier quick' % pid,
            'thorough_cmd': './check %s --tier thorough' % pid,
            'evidence_file': 'evidence/%s.json' % pid,
            'replay_cmd_template': './check %s --replay {path}' % pid,
            'engine': 'snoopfacts+rules',
            'level_claimed': {'category': c['category'], 'text': c['text'], 'design_ref': c['design_ref']},
            'level_note': c['note'],
            'technique': c['technique'],
        })
    na = []
    for i in range(1, 21):
        pid = 'C%02d' % i
        if pid in CLAIMED:
            continue
        na.append({'property_id': pid, 'reason': NOT_APPLICABLE.get(pid, PENDING_REASON)})
    m = {
        'version': 1,
        'setup_cmd': './build.sh',
        'hooks': {
            'guard': 'A2O_SNOOPY_VERIF',
            'enable': 'none needed: the static checks read /repo sources as they are; no instrumentation '
                      'is compiled into snoopy',
            'baseline_off_cmd': 'cd /repo && make -k check',
            'source_commits': [],
            'add_only': True,
        },
        'engines': [{
            'name': 'snoopfacts+rules',
            'path': 'engine/',
            'serves_properties': sorted(CLAIMED),
            'kind_free_text': 'clang-14 LibTooling fact extractor (AST + clang::CFG per function, every TU '
                              'with the flags of its Makefile.am) and python rule modules (call graph, CFG '
                              'path rules, typestate/pairing, presence conditions, table agreement)',
        }],
        'checks': checks,
        'notes': 'Technique family: static analysis only. exit 0 = held / only listed known findings; '
                 'exit 1 = VIOLATION line; exit 2 = analysis broken (missing anchor, vacuous rule), never a '
                 'pass. Known findings: known_findings.json. VERIF_REPO=<dir> analyses another tree '
                 '(self-test on scratch copies).',
        'not_applicable': na,
    }
    with open(os.path.join(HERE, 'MANIFEST.json'), 'w') as f:
        json.dump(m, f, indent=1)
        f.write('\n')
    print('MANIFEST.json: %d checks, %d not_applicable' % (len(checks), len(na)))


if __name__ == '__main__':
    main()
