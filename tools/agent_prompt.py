#!/usr/bin/env python3
"""print the sub-agent brief for one property (property text only; nothing from /verif's machinery)"""
import json, sys
pid = sys.argv[1]
props = {json.loads(l)['id']: json.loads(l) for l in open('/verif/properties.jsonl')}
p = props[pid]
wt = '/tmp/wt/%s' % (sys.argv[2] if len(sys.argv) > 2 else pid)
print(f"""You are working in a scratch git worktree of the a2o/snoopy project (an LD_PRELOAD library that wraps execv/execve and logs every program execution via configurable data sources, filters and outputs; plus the `snoopyctl` CLI) at {wt}. It is already configured and built (in-tree autotools). `make -j16` rebuilds after an edit; `make -k -j8 check` runs the test suite: 172 tests pass and exactly 2 are known failures on the unmodified tree (tests/datasource/datasource_systemd_unit_name.sh and tests/output/output_socket.sh; tests/datasource/datasource_timestamp_us.sh is occasionally flaky - rerun it if it fails). Always pass -k to `make check`. NEVER run `make -B` or `make -n -B` (it loops autotools for 20+ minutes). The sandbox has no network. Do not touch /repo, and do not read or touch anything under /verif; work only inside your worktree and write your results under {wt}-out/.

PROPERTY that snoopy is supposed to satisfy ({pid}: {p['title']}):
{p['statement']}
It is quantified: {p['quantifier']['text']}

TASK: produce TWO independent, realistic source changes to snoopy (each one applies alone to the worktree's HEAD; use different mechanisms/sites for the two) that BREAK this property while
 (a) the tree still compiles with the existing build, and
 (b) the existing test suite still passes exactly as before (same 172 passing, same 2 failing).
We want plausible regressions a maintainer could introduce (a refactoring slip, an off-by-one, a dropped or inverted check, a swapped argument, a wrong flag or mode, reordered calls, a missing cleanup on one error path, a table row out of step, ...), not sabotage that is obvious at a glance, and not something ordinary use exposes at once: the breakage should need something specific to manifest (a particular interleaving, a crash or fault at a particular point, a multi-step sequence of operations, an unusual input, a non-default build configuration, or two cooperating sites that each look fine alone). Modify only files under src/ or lib/ (not the tests; the build system only if the property is about build configurations). Keep each change small (a few lines to a few dozen).

For each change i in {{1,2}} deliver in {wt}-out/:
 - patch<i>.diff : output of `git diff` against HEAD (must apply with `git apply` on a clean HEAD checkout)
 - demo<i>.sh (plus any helper .c/.py files it needs, also in that directory): a self-contained demonstration, run as `sh demo<i>.sh <path-to-a-built-snoopy-tree>`, that exits 0 when the property holds and non-zero when it is violated. It must exit 0 on the unmodified HEAD build and non-zero on the tree with patch<i> applied and rebuilt. Keep it quick (under a minute) and deterministic. The built library is <tree>/src/.libs/libsnoopy.so, the CLI <tree>/src/cli/snoopyctl (libtool wrapper; real binary under src/cli/.libs/), test helper binaries are under <tree>/tests/bin/.
 - notes<i>.md : what the change is, which clause of the property it breaks, what is needed for it to manifest, and the exact commands you ran with their results (build, test-suite summary lines, demo before/after).
Verify all of this yourself (build, full `make -k -j8 check`, demo on HEAD and on the patched build). When finished, restore the worktree to a clean HEAD (git checkout -- . and delete untracked files you created inside it, then `make -j16` so it is built at HEAD again) and reply with a brief summary of the two changes and the verification results.""")
