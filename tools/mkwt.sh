#!/bin/sh
# Prepare a configured+built scratch worktree of /repo under /tmp/wt/<name>.
# usage: tools/mkwt.sh <name>
set -e
name="$1"
dir="/tmp/wt/$name"
mkdir -p /tmp/wt
git -C /repo worktree add -q --detach "$dir" HEAD
rsync -a --exclude .git /repo/ "$dir/"
cd "$dir"
./configure 'CFLAGS= -Wno-error' >/dev/null 2>&1
make -j16 all >/dev/null 2>&1
mkdir -p "/tmp/wt/$name-out"
echo "$dir ready"
