#!/usr/bin/env python3
"""Run every seeded change under /verif/seeded against the checks and record which rule
instances report it.  Writes /verif/seeded/RESULTS.json.

  tools/seed_matrix.py [seed ...]
"""
import json
import os
import re
import shutil
import subprocess
import sys
import tempfile
from concurrent.futures import ThreadPoolExecutor

VERIF = os.path.dirname(os.path.dirname(os.path.abspath(__file__)))
ALL = ['C%02d' % i for i in range(1, 21)]


def run_seed(seed):
    sdir = os.path.join(VERIF, 'seeded', seed)
    patch = os.path.join(sdir, 'patch.diff')
    meta = json.load(open(os.path.join(sdir, 'meta.json')))
    prop = meta['property']
    d = tempfile.mkdtemp(prefix='snoopy-seed-')
    sc = os.path.join(d, 'repo')
    res = {'seed': seed, 'property': prop, 'applies': True, 'caught_by': {}, 'own_property_check': None}
    if meta.get('neutralised_by'):
        res['applies'] = False
        res['note'] = 'no longer breaks the property on the repaired tree (fix %s): %s' % (
            meta['neutralised_by']['fix'], meta['neutralised_by']['why'])
        return res
    try:
        subprocess.call(['rsync', '-a', '--exclude', '.git', '--exclude', '*.o', '--exclude', '*.lo', '--exclude', '.libs',
                         '--exclude', '/tests', '--exclude', '*.log', '--exclude', '*.trs', '/repo/', sc + '/'],
                        stderr=subprocess.DEVNULL)
        p = subprocess.run(['patch', '-s', '-p1', '-d', sc, '-i', patch], stdout=subprocess.PIPE, stderr=subprocess.STDOUT, text=True)
        ported = os.path.join(sdir, 'patch.ported.diff')
        if p.returncode != 0 and os.path.exists(ported):
            # the same change re-expressed against the repaired tree (the original no longer applies)
            shutil.rmtree(sc)
            subprocess.call(['rsync', '-a', '--exclude', '.git', '--exclude', '*.o', '--exclude', '*.lo', '--exclude', '.libs',
                             '--exclude', '/tests', '--exclude', '*.log', '--exclude', '*.trs', '/repo/', sc + '/'],
                            stderr=subprocess.DEVNULL)
            p = subprocess.run(['patch', '-s', '-p1', '-d', sc, '-i', ported], stdout=subprocess.PIPE, stderr=subprocess.STDOUT, text=True)
            res['ported'] = True
        if p.returncode != 0:
            res['applies'] = False
            res['note'] = 'patch no longer applies to the repaired tree: ' + p.stdout.strip()[:200]
            return res
        env = dict(os.environ, VERIF_REPO=sc)
        for pid in ALL:
            q = subprocess.run([os.path.join(VERIF, 'check'), pid, '--no-evidence'], env=env, stdout=subprocess.PIPE,
                               stderr=subprocess.STDOUT, text=True)
            inst = re.findall(r'^\s+instance: (.*)$', q.stdout, re.M)
            if q.returncode == 1:
                res['caught_by'][pid] = sorted(set(inst))[:8]
            elif q.returncode == 2:
                res['caught_by'][pid] = ['ANALYSIS-BROKEN: ' + (re.findall(r'ANALYSIS-BROKEN.*', q.stdout) or [''])[0][:160]]
            if pid == prop:
                res['own_property_check'] = {0: 'silent', 1: 'VIOLATION', 2: 'analysis-broken'}[q.returncode]
        return res
    finally:
        shutil.rmtree(d, ignore_errors=True)


def main():
    seeds = sys.argv[1:] or sorted(x for x in os.listdir(os.path.join(VERIF, 'seeded'))
                                   if os.path.isdir(os.path.join(VERIF, 'seeded', x)))
    with ThreadPoolExecutor(max_workers=10) as ex:
        results = list(ex.map(run_seed, seeds))
    out = os.path.join(VERIF, 'seeded', 'RESULTS.json')
    old = {}
    if os.path.exists(out) and sys.argv[1:]:
        old = {r['seed']: r for r in json.load(open(out))['results']}
    for r in results:
        old[r['seed']] = r
    allr = [old[k] for k in sorted(old)]
    json.dump({'results': allr}, open(out, 'w'), indent=1)
    for r in results:
        hit = [k for k, v in r['caught_by'].items() if not v[0].startswith('ANALYSIS-BROKEN')]
        print('%-7s %-4s own=%-16s caught_by=%s%s' % (r['seed'], r['property'], r['own_property_check'], ','.join(hit) or '-',
                                                      '' if r['applies'] else '  (patch does not apply)'))


if __name__ == '__main__':
    main()
