#!/bin/sh
# Re-run a stored seed's demo against /repo's current HEAD plus the seed's patch (scratch worktree, removed afterwards).
#   tools/redemo.sh <seed id>      -> prints "seed <id>: applies=<yes|no> demo HEAD=<rc> patched=<rc>"
set -u
sid="$1"
sdir="/verif/seeded/$sid"
name="redemo-$sid"
wt="/tmp/wt/$name"
/verif/tools/mkwt.sh "$name" >/dev/null 2>&1 || { echo "seed $sid: worktree failed"; exit 2; }
cd "$wt"
sh "$sdir/demo.sh" "$wt" >/tmp/wt/$name-head.log 2>&1; h=$?
if git apply "$sdir/patch.diff" 2>/dev/null; then
  make -j16 all >/dev/null 2>&1 || { echo "seed $sid: patched build failed"; }
  sh "$sdir/demo.sh" "$wt" >/tmp/wt/$name-patched.log 2>&1; p=$?
  echo "seed $sid: applies=yes demo HEAD=$h patched=$p"
else
  echo "seed $sid: applies=no demo HEAD=$h"
fi
cd /
git -C /repo worktree remove --force "$wt"
rm -rf "$wt" "/tmp/wt/$name-out"
