#!/bin/sh
# Confirm a sub-agent's seeded change in its scratch worktree and file it under /verif/seeded/.
#   tools/confirm_seed.sh <worktree name under /tmp/wt> <patch number> <seed id> <property id>
# Checks: patch applies to HEAD, builds, `make -k check` fails exactly the 2 baseline tests,
# demo exits 0 on HEAD and non-zero on the patched build.  Writes /verif/seeded/<seed id>/.
set -u
wt="/tmp/wt/$1"; n="$2"; sid="$3"; pid="$4"
out="/tmp/wt/$1-out"
dst="/verif/seeded/$sid"
log="/tmp/wt/$1-confirm$n.log"
: > "$log"
cd "$wt" || exit 2
git checkout -q -- . ; git clean -fdq -e '*.o' -e '*.lo' -e '.libs' -e '.deps' >/dev/null 2>&1
make -j16 all >>"$log" 2>&1 || { echo "HEAD build failed"; exit 2; }
sh "$out/demo$n.sh" "$wt" >>"$log" 2>&1; d_head=$?
git apply "$out/patch$n.diff" >>"$log" 2>&1 || { echo "patch does not apply"; exit 2; }
make -j16 all >>"$log" 2>&1; b=$?
if [ $b -ne 0 ]; then echo "patched build failed"; git checkout -q -- .; exit 2; fi
sh "$out/demo$n.sh" "$wt" >>"$log" 2>&1; d_patch=$?
make -k -j8 check >"$log.check" 2>&1
fails=$(grep -E '^FAIL: ' "$log.check" | sort | tr '\n' ' ')
npass=$(grep -E '^PASS: ' "$log.check" | wc -l)
if [ "$fails" != "FAIL: datasource_systemd_unit_name.sh FAIL: output_socket.sh " ]; then
  # retry once for the flaky timestamp test
  make -k -j8 check >"$log.check" 2>&1
  fails=$(grep -E '^FAIL: ' "$log.check" | sort | tr '\n' ' ')
  npass=$(grep -E '^PASS: ' "$log.check" | wc -l)
fi
git checkout -q -- . ; rm -f tests/output/output_socket.sh.*.sock.out
make -j16 all >>"$log" 2>&1
echo "seed $sid: demo HEAD=$d_head patched=$d_patch; suite PASS=$npass fails=[$fails]"
if [ $d_head -eq 0 ] && [ $d_patch -ne 0 ] && [ "$fails" = "FAIL: datasource_systemd_unit_name.sh FAIL: output_socket.sh " ]; then
  mkdir -p "$dst"
  cp "$out/patch$n.diff" "$dst/patch.diff"
  cp "$out/demo$n.sh" "$dst/demo.sh"
  [ -f "$out/notes$n.md" ] && cp "$out/notes$n.md" "$dst/notes.md"
  for f in "$out"/*; do
    case "$(basename "$f")" in patch*.diff|demo[0-9].sh|notes*.md|PROMPT.txt|*.log|*.check) ;; *) cp -r "$f" "$dst/" 2>/dev/null;; esac
  done
  cat > "$dst/meta.json" <<EOF
{
 "seed": "$sid",
 "property": "$pid",
 "source": "independent sub-agent given only the property text and a scratch worktree",
 "confirmed": {
  "head": "$(git -C "$wt" rev-parse --short HEAD)",
  "demo_exit_on_head": $d_head,
  "demo_exit_on_patched": $d_patch,
  "suite_pass": $npass,
  "suite_fail": "$fails",
  "commands": ["git apply patch.diff", "make -j16 all", "sh demo.sh <tree>", "make -k -j8 check"]
 }
}
EOF
  echo "CONFIRMED -> $dst"
  exit 0
fi
echo "NOT CONFIRMED (see $log)"
exit 1
