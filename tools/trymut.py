#!/usr/bin/env python3
"""Apply a textual mutation (or a patch file) to a scratch copy of /repo and run
checks on it.  Scratch copy lives under /tmp and is removed afterwards.

  trymut.py -p PATCH.diff C01 C03 ...
  trymut.py -r FILE OLD NEW C01 ...        (replace first occurrence of OLD by NEW in FILE)
"""
import os
import shutil
import subprocess
import sys
import tempfile

VERIF = os.path.dirname(os.path.dirname(os.path.abspath(__file__)))


def main():
    args = sys.argv[1:]
    d = tempfile.mkdtemp(prefix='snoopy-mut-')
    sc = os.path.join(d, 'repo')
    try:
        rc = subprocess.call(['rsync', '-a', '--exclude', '.git', '--exclude', '*.o', '--exclude', '*.lo',
                              '--exclude', '.libs', '--exclude', '/tests', '--exclude', '*.log', '--exclude', '*.trs',
                              '/repo/', sc + '/'], stderr=subprocess.DEVNULL)
        if rc not in (0, 24):
            print('rsync failed', rc)
            return 3
        muts = []
        while args and args[0] in ('-p', '-r'):
            if args[0] == '-p':
                muts.append(('p', os.path.abspath(args[1])))
                args = args[2:]
            else:
                muts.append(('r', args[1], args[2], args[3]))
                args = args[4:]
        for m in muts:
            if m[0] == 'p':
                subprocess.check_call(['patch', '-s', '-p1', '-d', sc, '-i', m[1]])
            else:
                p = os.path.join(sc, m[1])
                s = open(p).read()
                if m[2] not in s:
                    print('mutation text not found in', m[1])
                    return 3
                s = s.replace(m[2], m[3], 1)
                open(p, 'w').write(s)
        rc = 0
        for pid in args:
            env = dict(os.environ, VERIF_REPO=sc)
            p = subprocess.run([os.path.join(VERIF, 'check'), pid, '--no-evidence'], env=env,
                               stdout=subprocess.PIPE, stderr=subprocess.STDOUT, text=True)
            out = p.stdout.replace(sc + '/', '')
            lines = out.strip().split('\n')
            show = [l for l in lines if not l.startswith('VIOLATION')]
            print('\n'.join(show[-40:]))
            print('== %s exit=%d (%d VIOLATION lines)' % (pid, p.returncode, sum(1 for l in lines if l.startswith('VIOLATION'))))
            rc = max(rc, p.returncode)
        return rc
    finally:
        shutil.rmtree(d, ignore_errors=True)


if __name__ == '__main__':
    sys.exit(main())
