"""A9: definite initialisation of character buffers (whole-object granularity).

A local `char buf[N]` declared without initialiser, or a buffer obtained from malloc(), holds
indeterminate bytes until something writes to it.  Every *read use* of such a buffer (a load through
it, passing it where the callee only reads -- const pointee, %s argument, the destination of strcat --
or to a program function that reads its parameter before writing it) must be preceded, on every path
from the declaration / allocation, by a *write* (a store through it, or passing it to a callee that
may write it).  Which byte is written is not tracked: the rule decides "something was put there first",
which is what removing a `buf[0] = '\\0'` / memset / snprintf on one path breaks.
"""
from . import cfg as C
from .dataflow import PtrTaint, decl_of, is_ptr_type
from .facts import render, strip
from .statics import _pointee_const

# callee reads the destination it also writes
READ_WRITE_DEST = {'strcat': (0,), 'strncat': (0,), '__strcat_chk': (0,), '__strncat_chk': (0,)}
# callee neither reads nor writes the bytes
NEUTRAL = {'free', 'realloc', 'sizeof'}
ZEROING_ALLOC = {'calloc'}
ALLOC = {'malloc'}


class UninitAnalysis:
    def __init__(self, prog):
        self.prog = prog
        self._rf = {}
        self.buffers = 0
        self.uses = 0

    # ---- interprocedural: does `func` read parameter i before writing it? --------------------------
    def reads_first(self, func, i, depth=0):
        key = (func.key, i)
        if key in self._rf:
            return self._rf[key]
        self._rf[key] = False          # recursion: optimistic
        if depth > 6 or i >= len(func.params):
            return False
        pid = func.params[i]['id']
        pt = PtrTaint(func, lambda n: False, {pid})
        bad = self._first_read(func, pt, (func.entry, 0), depth, base=pid)
        self._rf[key] = bad is not None
        return self._rf[key]

    # ---- classification of one CFG element ------------------------------------------------------------
    def classify(self, func, pt, e, depth):
        """returns 'read', 'write' or None for element e with respect to pt's object"""
        k = e.k
        if k == 'ImplicitCastExpr' and e.get('cast') == 'LValueToRValue':
            l = e.ch[0]
            while l is not None and l.k == 'ParenExpr':
                l = l.ch[0]
            if l is not None and (l.k == 'ArraySubscriptExpr' or (l.k == 'UnaryOperator' and l.get('op') == '*')):
                if pt.is_derived(l.ch[0]) and not is_ptr_type(l.get('ct')):
                    return 'read'
            return None
        if k in ('BinaryOperator', 'CompoundAssignOperator') and (e.get('op') == '=' or k == 'CompoundAssignOperator'):
            t = strip(e.ch[0])
            if t is not None and (t.k == 'ArraySubscriptExpr' or (t.k == 'UnaryOperator' and t.get('op') == '*')):
                if pt.is_derived(t.ch[0]) and not is_ptr_type(t.get('ct')):
                    return 'read' if k == 'CompoundAssignOperator' else 'write'
            return None
        if k == 'CallExpr':
            name = e.get('callee')
            if name in NEUTRAL:
                return None
            ptypes = e.get('calleeParamTypes') or []
            res = None
            for i, a in enumerate(e.ch[1:]):
                if a is None or not is_ptr_type(a.get('ct')) or not pt.is_derived(a):
                    continue
                if is_ptr_type((a.get('ct') or '').rstrip()[:-1].rstrip()) and strip(a).k == 'UnaryOperator' and strip(a).get('op') == '&':
                    continue     # &ptr passed: the pointer variable, not the bytes
                if i >= len(ptypes):
                    return 'read'          # variadic argument (printf %s)
                if _pointee_const(ptypes[i]):
                    return 'read'
                if name in READ_WRITE_DEST and i in READ_WRITE_DEST[name]:
                    return 'read'
                callee = self.prog.func(name, func.tu) if name else None
                if callee is not None and not e.get('calleeVariadic') and self.reads_first(callee, i, depth + 1):
                    return 'read'
                res = 'write'
            return res
        return None

    def _first_read(self, func, pt, start, depth, skip_first=None, base=None):
        """a read element executed while the object may still be unwritten, else None.
        Forward dataflow; state = (written?, may-aliases, must-aliases) or 'undecl' before `start`.
        `start` is (block id, element index): the point right after the declaration / allocation;
        for a parameter (start == entry) the object is live from the beginning."""
        base = base if base is not None else next(iter(pt.derived))
        UNDECL = ('undecl',)
        sb, si = start
        start_elem = func.blocks[sb].elems[si - 1] if si > 0 else None
        cache = {}

        def derived(node, al):
            pt.derived = set(al)
            return pt.is_derived(node)

        def cls(e, al):
            key = (e.id, al)
            if key not in cache:
                pt.derived = set(al)
                cache[key] = self.classify(func, pt, e, depth)
            return cache[key]
        bad = []

        def step(d, e, collect):
            init, al = d
            if e.k == 'BinaryOperator' and e.get('op') == '=' and strip(e.ch[0]).k == 'DeclRefExpr' and is_ptr_type(e.ch[0].get('ct')):
                tgt, rhs = decl_of(e.ch[0]), e.ch[1]
                if tgt is not None:
                    al = (al | {tgt['id']}) if derived(rhs, al) else (al - {tgt['id']})
            elif e.k == 'DeclStmt':
                for dd in e['decls']:
                    if dd.get('init', -1) != -1 and is_ptr_type(dd.get('ct')):
                        al = (al | {dd['id']}) if derived(func.nodes[dd['init']], al) else (al - {dd['id']})
            c = cls(e, al) if al else None
            if not init and c == 'read' and collect:
                bad.append(e)
            if c == 'write':
                init = True
            return (init, al)

        def transfer(st, e, collect=False):
            # state: 'undecl' or a set of disjuncts (written?, exact alias set): the alias partition is kept
            # per path, so "initialised and aliased" on one branch is not confused with "neither" on the other
            if e is start_elem:
                return frozenset([(False, frozenset([base]))])
            if st == UNDECL:
                return st
            return frozenset(step(d, e, collect) for d in st)

        def join(a, b):
            if a == UNDECL:
                return b
            if b == UNDECL:
                return a
            u = a | b
            if len(u) > 24:
                # collapse: weakest combination
                u = frozenset([(all(i for i, _ in u), frozenset().union(*[al for _, al in u]))])
            return u
        init_state = UNDECL if start_elem is not None else frozenset([(False, frozenset([base]))])
        instate = C.forward_dataflow(func, init_state, transfer, join)
        for bid, st in instate.items():
            if st is None:
                continue
            for e in func.blocks[bid].elems:
                st = transfer(st, e, collect=True)
        return bad[0] if bad else None

    # ---- per function -----------------------------------------------------------------------------------
    def analyse(self, func):
        """list of (buffer name, decl node, offending read element or None)"""
        out = []
        pos = C.elem_positions(func)
        for b in func.blocks.values():
            for idx, e in enumerate(b.elems):
                if e.k == 'DeclStmt':
                    for d in e['decls']:
                        ct = (d.get('ct') or '')
                        if d.get('init', -1) != -1:
                            # char *p = malloc(n)
                            init = strip(func.nodes[d['init']])
                            if init is not None and init.k == 'CallExpr' and init.get('callee') in ALLOC and 'char' in ct:
                                out.append(self._one(func, d, e, (b.id, idx + 1)))
                            continue
                        if ct.startswith('char [') or ct.startswith('char['):
                            if d.get('static') or d.get('storage') == 'static':
                                continue
                            out.append(self._one(func, d, e, (b.id, idx + 1)))
                elif e.k == 'BinaryOperator' and e.get('op') == '=':
                    r = strip(e.ch[1])
                    l = decl_of(e.ch[0])
                    if r is not None and r.k == 'CallExpr' and r.get('callee') in ALLOC and l is not None and \
                            strip(e.ch[0]).k == 'DeclRefExpr' and 'char' in (e.ch[0].get('ct') or '') and \
                            l.get('kind') == 'var':
                        out.append(self._one(func, l, e, (b.id, idx + 1)))
        return out

    def _one(self, func, d, node, start):
        self.buffers += 1
        pt = PtrTaint(func, lambda n: False, {d['id']})
        bad = self._first_read(func, pt, start, 0, base=d['id'])
        return (d.get('name', '?'), node, bad)
