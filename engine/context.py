"""Per-run context shared by rule modules: build model, cached programs per
(variant, scope), call graphs."""
import os

from . import facts
from .callgraph import CallGraph


class Context:
    def __init__(self, ws, chk, tier, seed):
        self.ws = ws
        self.chk = chk
        self.tier = tier
        self.seed = seed
        self.bm = facts.BuildModel()
        self.repo = self.bm.repo
        self._progs = {}
        self._cgs = {}

    def _map(self, variant):
        """VERIF_VARIANT=<name> re-targets every request for the as-configured build to another build
        variant (used by the thorough tier to repeat a check under non-default configurations)"""
        want = os.environ.get('VERIF_VARIANT')
        if want and variant is facts.AS_CONFIGURED:
            for v in (facts.TS_OFF, facts.FILTERING_OFF, facts.CONFIGFILE_OFF):
                if v.name == want:
                    return v
        return variant

    def program(self, variant=facts.AS_CONFIGURED, scope='lib'):
        variant = self._map(variant)
        key = (variant.name, scope)
        if key not in self._progs:
            p = facts.load_program(self.bm, self.ws, variant, scope)
            self._progs[key] = p
            self.chk.count('translation_units[%s/%s]' % key, len(p.tus))
            self.chk.count('functions[%s/%s]' % key, len(p.functions))
        return self._progs[key]

    def callgraph(self, variant=facts.AS_CONFIGURED, scope='lib'):
        variant = self._map(variant)
        key = (variant.name, scope)
        if key not in self._cgs:
            self._cgs[key] = CallGraph(self.program(variant, scope))
            self.chk.count('call_sites[%s/%s]' % key, len(self._cgs[key].sites))
        return self._cgs[key]

    def path(self, rel):
        return os.path.join(self.repo, rel)
