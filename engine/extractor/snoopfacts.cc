// snoopfacts: fact extractor for the static checks under /verif.
// One translation unit in, one JSON fact file out. No rule logic here.
//
//   snoopfacts <out.json> <source.c> -- <compiler flags...>
//
// Emits: record types, global variables (with initialiser trees), functions
// (signature, attributes, full statement/expression node table, clang::CFG with
// every sub-expression as an element, ordered successors).
#include "clang/AST/ASTConsumer.h"
#include "clang/AST/ASTContext.h"
#include "clang/AST/Attr.h"
#include "clang/AST/Decl.h"
#include "clang/AST/Expr.h"
#include "clang/AST/RecordLayout.h"
#include "clang/AST/Stmt.h"
#include "clang/Analysis/CFG.h"
#include "clang/Basic/SourceManager.h"
#include "clang/Frontend/CompilerInstance.h"
#include "clang/Frontend/FrontendAction.h"
#include "clang/Lex/Lexer.h"
#include "clang/Tooling/CompilationDatabase.h"
#include "clang/Tooling/Tooling.h"
#include "llvm/Support/JSON.h"
#include "llvm/Support/raw_ostream.h"
#include <map>
#include <memory>
#include <string>

using namespace clang;
namespace json = llvm::json;

static std::string OutPath;

namespace {

static std::string sanitize(llvm::StringRef S) {
  // JSON strings must be valid UTF-8; escape everything outside printable ASCII.
  std::string R;
  for (unsigned char c : S) {
    if (c == '\\') R += "\\\\";
    else if (c >= 0x20 && c < 0x7f) R += (char)c;
    else {
      char buf[8];
      snprintf(buf, sizeof buf, "\\x%02x", c);
      R += buf;
    }
  }
  return R;
}

class Extractor {
public:
  ASTContext &Ctx;
  SourceManager &SM;
  std::map<const Decl *, int64_t> DeclIds;
  int64_t NextDecl = 1;

  explicit Extractor(ASTContext &C) : Ctx(C), SM(C.getSourceManager()) {}

  int64_t declId(const Decl *D) {
    D = D->getCanonicalDecl();
    auto It = DeclIds.find(D);
    if (It != DeclIds.end()) return It->second;
    return DeclIds[D] = NextDecl++;
  }

  std::string fileOf(SourceLocation L) {
    L = SM.getExpansionLoc(L);
    if (L.isInvalid()) return "";
    return SM.getFilename(L).str();
  }
  unsigned lineOf(SourceLocation L) {
    L = SM.getExpansionLoc(L);
    return L.isValid() ? SM.getExpansionLineNumber(L) : 0;
  }
  unsigned colOf(SourceLocation L) {
    L = SM.getExpansionLoc(L);
    return L.isValid() ? SM.getExpansionColumnNumber(L) : 0;
  }
  bool inSys(SourceLocation L) {
    L = SM.getExpansionLoc(L);
    return L.isValid() && SM.isInSystemHeader(L);
  }

  void typeInfo(json::Object &O, QualType T) {
    O["t"] = T.getAsString();
    QualType C = T.getCanonicalType();
    O["ct"] = C.getAsString();
  }

  void sizeInfo(json::Object &O, QualType T) {
    if (T->isIncompleteType() || T->isDependentType() || T->isFunctionType()) return;
    if (const auto *VAT = Ctx.getAsVariableArrayType(T)) {
      (void)VAT;
      O["vla"] = true;
      return;
    }
    O["size"] = (int64_t)Ctx.getTypeSizeInChars(T).getQuantity();
    if (const auto *CAT = Ctx.getAsConstantArrayType(T)) {
      O["arrayLen"] = (int64_t)CAT->getSize().getZExtValue();
      QualType ET = CAT->getElementType();
      if (!ET->isIncompleteType())
        O["elemSize"] = (int64_t)Ctx.getTypeSizeInChars(ET).getQuantity();
      O["elemType"] = ET.getCanonicalType().getAsString();
    }
  }

  json::Object varDecl(const VarDecl *VD) {
    json::Object O;
    O["id"] = declId(VD);
    O["name"] = VD->getNameAsString();
    typeInfo(O, VD->getType());
    sizeInfo(O, VD->getType());
    O["const"] = VD->getType().isConstQualified() ||
                 (Ctx.getAsArrayType(VD->getType()) &&
                  Ctx.getBaseElementType(VD->getType()).isConstQualified());
    O["staticStorage"] = VD->hasGlobalStorage();
    O["staticLocal"] = VD->isStaticLocal();
    O["fileScope"] = VD->isFileVarDecl();
    const char *SC = "none";
    switch (VD->getStorageClass()) {
    case SC_Static: SC = "static"; break;
    case SC_Extern: SC = "extern"; break;
    default: break;
    }
    O["storage"] = SC;
    O["isDef"] = VD->isThisDeclarationADefinition() != VarDecl::DeclarationOnly;
    O["tls"] = VD->getTLSKind() != VarDecl::TLS_None;
    O["file"] = fileOf(VD->getLocation());
    O["line"] = (int64_t)lineOf(VD->getLocation());
    O["beginLine"] = (int64_t)lineOf(VD->getBeginLoc());
    O["endLine"] = (int64_t)lineOf(VD->getEndLoc());
    O["sys"] = inSys(VD->getLocation());
    return O;
  }

  // ---- node table -----------------------------------------------------
  struct NodeTable {
    std::map<const Stmt *, int64_t> Ids;
    json::Object Nodes;
    int64_t Next = 1;
  };

  int64_t emitStmt(NodeTable &NT, const Stmt *S) {
    if (!S) return -1;
    auto It = NT.Ids.find(S);
    if (It != NT.Ids.end()) return It->second;
    int64_t Id = NT.Next++;
    NT.Ids[S] = Id;
    json::Object O;
    O["k"] = S->getStmtClassName();
    O["line"] = (int64_t)lineOf(S->getBeginLoc());
    O["col"] = (int64_t)colOf(S->getBeginLoc());
    O["eline"] = (int64_t)lineOf(S->getEndLoc());
    {
      SourceLocation B = S->getBeginLoc(), E = S->getEndLoc();
      if (B.isMacroID()) {
        SourceLocation MB, ME;
        bool AtStart = Lexer::isAtStartOfMacroExpansion(B, SM, Ctx.getLangOpts(), &MB);
        bool AtEnd = E.isMacroID() &&
                     Lexer::isAtEndOfMacroExpansion(E, SM, Ctx.getLangOpts(), &ME);
        llvm::StringRef N = Lexer::getImmediateMacroName(B, SM, Ctx.getLangOpts());
        O["inMacro"] = N.str();
        if (AtStart && AtEnd) O["macro"] = N.str();
      }
    }
    json::Array Ch;
    if (const auto *E = dyn_cast<Expr>(S)) {
      typeInfo(O, E->getType());
      O["lv"] = E->isLValue();
      if (!E->isValueDependent() && E->getType()->isIntegralOrEnumerationType() &&
          E->isPRValue()) {
        Expr::EvalResult R;
        if (E->EvaluateAsInt(R, Ctx, Expr::SE_NoSideEffects)) {
          O["v"] = (int64_t)R.Val.getInt().getExtValue();
        }
      } else if (E->isPRValue() && E->getType()->isPointerType()) {
        if (E->isNullPointerConstant(Ctx, Expr::NPC_ValueDependentIsNotNull))
          O["null"] = true;
      }
    }
    if (const auto *DRE = dyn_cast<DeclRefExpr>(S)) {
      const ValueDecl *D = DRE->getDecl();
      json::Object R;
      R["name"] = D->getNameAsString();
      R["id"] = declId(D);
      R["sys"] = inSys(D->getLocation());
      if (const auto *PVD = dyn_cast<ParmVarDecl>(D)) {
        R["kind"] = "parm";
        R["index"] = (int64_t)PVD->getFunctionScopeIndex();
      } else if (const auto *VD = dyn_cast<VarDecl>(D)) {
        R["kind"] = "var";
        R["staticStorage"] = VD->hasGlobalStorage();
        R["staticLocal"] = VD->isStaticLocal();
        R["fileScope"] = VD->isFileVarDecl();
        R["internal"] = !VD->isExternallyVisible();
        R["declFile"] = fileOf(VD->getCanonicalDecl()->getLocation());
      } else if (const auto *FD = dyn_cast<FunctionDecl>(D)) {
        R["kind"] = "func";
        R["internal"] = !FD->isExternallyVisible();
        R["noreturn"] = FD->isNoReturn();
        R["builtin"] = (int64_t)FD->getBuiltinID();
      } else if (isa<EnumConstantDecl>(D)) {
        R["kind"] = "enum";
      } else {
        R["kind"] = "other";
      }
      O["ref"] = std::move(R);
    } else if (const auto *ME = dyn_cast<MemberExpr>(S)) {
      O["member"] = ME->getMemberDecl()->getNameAsString();
      O["arrow"] = ME->isArrow();
      if (const auto *FD = dyn_cast<FieldDecl>(ME->getMemberDecl())) {
        O["record"] = FD->getParent()->getNameAsString();
        if (FD->getParent()->getTypedefNameForAnonDecl())
          O["record"] = FD->getParent()->getTypedefNameForAnonDecl()->getNameAsString();
        json::Object SZ;
        sizeInfo(SZ, FD->getType());
        O["fieldSize"] = std::move(SZ);
      }
    } else if (const auto *SL = dyn_cast<StringLiteral>(S)) {
      if (SL->getCharByteWidth() == 1) {
        O["s"] = sanitize(SL->getBytes());
        O["slen"] = (int64_t)SL->getLength();
      }
    } else if (const auto *CL = dyn_cast<CharacterLiteral>(S)) {
      O["v"] = (int64_t)CL->getValue();
    } else if (const auto *UO = dyn_cast<UnaryOperator>(S)) {
      O["op"] = UnaryOperator::getOpcodeStr(UO->getOpcode()).str();
      O["postfix"] = UO->isPostfix();
    } else if (const auto *BO = dyn_cast<BinaryOperator>(S)) {
      O["op"] = BO->getOpcodeStr().str();
    } else if (const auto *CE = dyn_cast<CallExpr>(S)) {
      if (const FunctionDecl *FD = CE->getDirectCallee()) {
        O["callee"] = FD->getNameAsString();
        O["calleeSys"] = inSys(FD->getLocation());
        O["calleeInternal"] = !FD->isExternallyVisible();
        O["calleeNoReturn"] = FD->isNoReturn();
        O["calleeBuiltin"] = (int64_t)FD->getBuiltinID();
        O["calleeVariadic"] = FD->isVariadic();
        O["calleeNumParams"] = (int64_t)FD->getNumParams();
        json::Array PT;
        for (const ParmVarDecl *P : FD->parameters())
          PT.push_back(P->getType().getCanonicalType().getAsString());
        O["calleeParamTypes"] = std::move(PT);
      } else if (const Expr *CalleeE = CE->getCallee()) {
        QualType CT = CalleeE->getType();
        if (const auto *PT = CT->getAs<PointerType>()) CT = PT->getPointeeType();
        if (const auto *FPT = CT->getAs<FunctionProtoType>()) {
          O["calleeVariadic"] = FPT->isVariadic();
          O["calleeNumParams"] = (int64_t)FPT->getNumParams();
          json::Array PTs;
          for (QualType T : FPT->param_types())
            PTs.push_back(T.getCanonicalType().getAsString());
          O["calleeParamTypes"] = std::move(PTs);
        }
      }
    } else if (const auto *UETT = dyn_cast<UnaryExprOrTypeTraitExpr>(S)) {
      O["trait"] = UETT->getKind() == UETT_SizeOf ? "sizeof" : "other";
      if (UETT->isArgumentType())
        O["argType"] = UETT->getArgumentType().getAsString();
    } else if (const auto *CastE = dyn_cast<CastExpr>(S)) {
      O["cast"] = CastE->getCastKindName();
      if (const auto *ECE = dyn_cast<ExplicitCastExpr>(S))
        O["castTo"] = ECE->getTypeAsWritten().getAsString();
    } else if (const auto *DS = dyn_cast<DeclStmt>(S)) {
      json::Array Ds;
      for (const Decl *D : DS->decls()) {
        if (const auto *VD = dyn_cast<VarDecl>(D)) {
          json::Object V = varDecl(VD);
          V["init"] = emitStmt(NT, VD->getInit());
          Ds.push_back(std::move(V));
        }
      }
      O["decls"] = std::move(Ds);
    } else if (const auto *LS = dyn_cast<LabelStmt>(S)) {
      O["label"] = LS->getName();
    } else if (const auto *GS = dyn_cast<GotoStmt>(S)) {
      O["label"] = GS->getLabel()->getNameAsString();
    } else if (const auto *IS = dyn_cast<IfStmt>(S)) {
      O["cond"] = emitStmt(NT, IS->getCond());
      O["then"] = emitStmt(NT, IS->getThen());
      O["else"] = emitStmt(NT, IS->getElse());
    } else if (const auto *WS = dyn_cast<WhileStmt>(S)) {
      O["cond"] = emitStmt(NT, WS->getCond());
      O["body"] = emitStmt(NT, WS->getBody());
    } else if (const auto *DoS = dyn_cast<DoStmt>(S)) {
      O["cond"] = emitStmt(NT, DoS->getCond());
      O["body"] = emitStmt(NT, DoS->getBody());
    } else if (const auto *FS = dyn_cast<ForStmt>(S)) {
      O["init"] = emitStmt(NT, FS->getInit());
      O["cond"] = emitStmt(NT, FS->getCond());
      O["inc"] = emitStmt(NT, FS->getInc());
      O["body"] = emitStmt(NT, FS->getBody());
    } else if (const auto *CS = dyn_cast<CaseStmt>(S)) {
      Expr::EvalResult R;
      if (CS->getLHS() && CS->getLHS()->EvaluateAsInt(R, Ctx))
        O["caseValue"] = (int64_t)R.Val.getInt().getExtValue();
    } else if (const auto *ILE = dyn_cast<InitListExpr>(S)) {
      // Use the semantic form so that implicit zero fields are visible.
      (void)ILE;
    }
    for (const Stmt *C : S->children()) Ch.push_back(emitStmt(NT, C));
    O["ch"] = std::move(Ch);
    NT.Nodes[std::to_string(Id)] = std::move(O);
    return Id;
  }

  // ---- CFG ----------------------------------------------------------------
  json::Object emitCFG(NodeTable &NT, const FunctionDecl *FD) {
    json::Object O;
    CFG::BuildOptions BO;
    BO.setAllAlwaysAdd();
    BO.PruneTriviallyFalseEdges = true;
    BO.AddEHEdges = false;
    BO.AddImplicitDtors = false;
    BO.AddInitializers = false;
    std::unique_ptr<CFG> G =
        CFG::buildCFG(FD, FD->getBody(), &Ctx, BO);
    if (!G) {
      O["error"] = "cfg-build-failed";
      return O;
    }
    O["entry"] = (int64_t)G->getEntry().getBlockID();
    O["exit"] = (int64_t)G->getExit().getBlockID();
    json::Array Blocks;
    for (const CFGBlock *B : *G) {
      json::Object JB;
      JB["id"] = (int64_t)B->getBlockID();
      json::Array Els;
      for (const CFGElement &E : *B) {
        if (auto CS = E.getAs<CFGStmt>()) {
          Els.push_back(emitStmt(NT, CS->getStmt()));
        }
      }
      JB["elems"] = std::move(Els);
      if (const Stmt *T = B->getTerminatorStmt()) {
        JB["term"] = emitStmt(NT, T);
        JB["termKind"] = T->getStmtClassName();
      }
      if (const Stmt *C = B->getTerminatorCondition(false))
        JB["cond"] = emitStmt(NT, C);
      if (const Stmt *L = B->getLabel())
        JB["label"] = emitStmt(NT, L);
      if (const Stmt *LT = B->getLoopTarget())
        JB["loopTarget"] = emitStmt(NT, LT);
      JB["noReturn"] = B->hasNoReturnElement();
      json::Array Succs, Unr;
      for (auto I = B->succ_begin(); I != B->succ_end(); ++I) {
        const CFGBlock *R = I->getReachableBlock();
        const CFGBlock *P = I->getPossiblyUnreachableBlock();
        if (R) {
          Succs.push_back((int64_t)R->getBlockID());
          Unr.push_back(false);
        } else if (P) {
          Succs.push_back((int64_t)P->getBlockID());
          Unr.push_back(true);
        } else {
          Succs.push_back(nullptr);
          Unr.push_back(true);
        }
      }
      JB["succs"] = std::move(Succs);
      JB["succUnreachable"] = std::move(Unr);
      Blocks.push_back(std::move(JB));
    }
    O["blocks"] = std::move(Blocks);
    return O;
  }

  // ---- top level ------------------------------------------------------------
  json::Object functionDecl(const FunctionDecl *FD) {
    json::Object O;
    O["id"] = declId(FD);
    O["name"] = FD->getNameAsString();
    O["ret"] = FD->getReturnType().getAsString();
    O["retCanon"] = FD->getReturnType().getCanonicalType().getAsString();
    O["type"] = FD->getType().getAsString();
    O["variadic"] = FD->isVariadic();
    O["hasPrototype"] = FD->hasPrototype();
    O["internal"] = !FD->isExternallyVisible();
    O["noreturn"] = FD->isNoReturn();
    const char *Vis = "unspecified";
    if (const auto *VA = FD->getAttr<VisibilityAttr>()) {
      switch (VA->getVisibility()) {
      case VisibilityAttr::Default: Vis = "default"; break;
      case VisibilityAttr::Hidden: Vis = "hidden"; break;
      case VisibilityAttr::Protected: Vis = "protected"; break;
      }
    }
    O["visibilityAttr"] = Vis;
    O["ctorAttr"] = FD->hasAttr<ConstructorAttr>();
    O["dtorAttr"] = FD->hasAttr<DestructorAttr>();
    O["file"] = fileOf(FD->getLocation());
    O["line"] = (int64_t)lineOf(FD->getLocation());
    O["endLine"] = (int64_t)lineOf(FD->getEndLoc());
    O["sys"] = inSys(FD->getLocation());
    json::Array Ps;
    for (const ParmVarDecl *P : FD->parameters()) {
      json::Object PO;
      PO["id"] = declId(P);
      PO["name"] = P->getNameAsString();
      PO["t"] = P->getType().getAsString();
      PO["ct"] = P->getType().getCanonicalType().getAsString();
      PO["origType"] = P->getOriginalType().getAsString();
      Ps.push_back(std::move(PO));
    }
    O["params"] = std::move(Ps);
    return O;
  }

  void run(TranslationUnitDecl *TU) {
    json::Object Root;
    Root["mainFile"] =
        SM.getFileEntryForID(SM.getMainFileID())
            ? SM.getFileEntryForID(SM.getMainFileID())->getName().str()
            : "";
    json::Array Records, Globals, Functions, FuncDecls, Enums;
    for (const Decl *D : TU->decls()) {
      if (inSys(D->getLocation())) {
        continue;
      }
      handleDecl(D, Records, Globals, Functions, FuncDecls, Enums);
    }
    Root["records"] = std::move(Records);
    Root["globals"] = std::move(Globals);
    Root["functions"] = std::move(Functions);
    Root["funcDecls"] = std::move(FuncDecls);
    Root["enums"] = std::move(Enums);
    std::error_code EC;
    llvm::raw_fd_ostream OS(OutPath, EC);
    if (EC) {
      llvm::errs() << "cannot write " << OutPath << ": " << EC.message() << "\n";
      exit(3);
    }
    OS << json::Value(std::move(Root)) << "\n";
  }

  void handleRecord(const RecordDecl *RD, json::Array &Records) {
    if (!RD->isCompleteDefinition()) return;
    json::Object O;
    std::string Name = RD->getNameAsString();
    if (const auto *TD = RD->getTypedefNameForAnonDecl()) Name = TD->getNameAsString();
    O["name"] = Name;
    O["tag"] = RD->getNameAsString();
    O["file"] = fileOf(RD->getLocation());
    O["line"] = (int64_t)lineOf(RD->getLocation());
    O["union"] = RD->isUnion();
    if (!RD->isInvalidDecl() && !RD->isDependentType())
      O["size"] = (int64_t)Ctx.getASTRecordLayout(RD).getSize().getQuantity();
    json::Array Fs;
    for (const FieldDecl *F : RD->fields()) {
      json::Object FO;
      FO["name"] = F->getNameAsString();
      typeInfo(FO, F->getType());
      sizeInfo(FO, F->getType());
      FO["line"] = (int64_t)lineOf(F->getLocation());
      Fs.push_back(std::move(FO));
    }
    O["fields"] = std::move(Fs);
    Records.push_back(std::move(O));
  }

  void handleDecl(const Decl *D, json::Array &Records, json::Array &Globals,
                  json::Array &Functions, json::Array &FuncDecls, json::Array &Enums) {
    if (const auto *RD = dyn_cast<RecordDecl>(D)) {
      handleRecord(RD, Records);
    } else if (const auto *TD = dyn_cast<TypedefDecl>(D)) {
      // typedef struct {...} name_t;  (the RecordDecl is a sibling, handled above)
      json::Object O;
      O["typedef"] = TD->getNameAsString();
      O["t"] = TD->getUnderlyingType().getCanonicalType().getAsString();
      (void)O;
    } else if (const auto *ED = dyn_cast<EnumDecl>(D)) {
      for (const EnumConstantDecl *EC : ED->enumerators()) {
        json::Object O;
        O["name"] = EC->getNameAsString();
        O["v"] = (int64_t)EC->getInitVal().getExtValue();
        Enums.push_back(std::move(O));
      }
    } else if (const auto *VD = dyn_cast<VarDecl>(D)) {
      json::Object O = varDecl(VD);
      NodeTable NT;
      O["init"] = emitStmt(NT, VD->getInit());
      O["nodes"] = std::move(NT.Nodes);
      Globals.push_back(std::move(O));
    } else if (const auto *FD = dyn_cast<FunctionDecl>(D)) {
      json::Object O = functionDecl(FD);
      if (FD->doesThisDeclarationHaveABody()) {
        NodeTable NT;
        O["body"] = emitStmt(NT, FD->getBody());
        O["cfg"] = emitCFG(NT, FD);
        O["nodes"] = std::move(NT.Nodes);
        Functions.push_back(std::move(O));
      } else {
        FuncDecls.push_back(std::move(O));
      }
    }
  }
};

class Consumer : public ASTConsumer {
public:
  void HandleTranslationUnit(ASTContext &Ctx) override {
    if (Ctx.getDiagnostics().hasErrorOccurred()) {
      llvm::errs() << "snoopfacts: compile errors, no facts written\n";
      return;
    }
    Extractor E(Ctx);
    E.run(Ctx.getTranslationUnitDecl());
  }
};

class Action : public ASTFrontendAction {
public:
  std::unique_ptr<ASTConsumer> CreateASTConsumer(CompilerInstance &, llvm::StringRef) override {
    return std::make_unique<Consumer>();
  }
};

} // namespace

int main(int argc, const char **argv) {
  if (argc < 4) {
    llvm::errs() << "usage: snoopfacts <out.json> <source.c> -- <flags>\n";
    return 2;
  }
  OutPath = argv[1];
  std::string Src = argv[2];
  int Dash = 3;
  while (Dash < argc && std::string(argv[Dash]) != "--") ++Dash;
  std::vector<std::string> Flags;
  for (int i = Dash + 1; i < argc; ++i) Flags.push_back(argv[i]);
  clang::tooling::FixedCompilationDatabase DB(".", Flags);
  clang::tooling::ClangTool Tool(DB, {Src});
  int rc = Tool.run(clang::tooling::newFrontendActionFactory<Action>().get());
  return rc;
}
