"""A4: bounded-write obligations discharged by a forward analysis over conjunctions of
linear inequalities (Fourier-Motzkin for projection and entailment).

Numeric symbols:
  ('var', id, name)        value of an integer or pointer variable / parameter
  ('addr', key, name)      address of an array object (constant in the function)
  ('end', key, name)       address of the terminator of the string a pointer parameter
                           (or unknown-capacity region) holds at function entry
  ('cap', key, name)       capacity in bytes of a heap block
  ('strlen', key, text)    current strlen of a string expression
  ('field', text)          value of a struct field read (stable unless assigned)
  ('opaque', n)            unknown value
A fact is a Lin meaning  lin >= 0.
"""
import os

from . import cfg as C
from . import fmt
from .dataflow import decl_of, def_exprs, def_sites
from .facts import render, strip
from .linear import Lin, entails

MAX_FACTS = 60
_INLINE_DECL_BASE = 50_000_000       # engine/inline.py numbers the declarations of spliced helper bodies from here

# writer APIs: (destination arg index, size arg index, size unit) ; size means "writes at most
# size bytes starting at dst"
SIZED_WRITERS = {
    'snprintf': (0, 1), 'vsnprintf': (0, 1), 'strncpy': (0, 2), 'memcpy': (0, 2), 'memmove': (0, 2),
    'memset': (0, 2), 'fgets': (0, 1), 'strftime': (0, 1), 'gethostname': (0, 1), 'getdomainname': (0, 1),
    'ttyname_r': (1, 2), 'getlogin_r': (0, 1), 'getcwd': (0, 1), 'inet_ntop': (2, 3), 'strerror_r': (1, 2),
    'readlink': (1, 2), 'getpwuid_r': (2, 3), 'getgrgid_r': (2, 3), 'read': (1, 2), 'recv': (1, 2),
    '__builtin_memcpy': (0, 2), '__builtin_strncpy': (0, 2), '__builtin_snprintf': (0, 1), 'stpncpy': (0, 2),
}
# (source index, byte-count index): the callee reads exactly that many bytes whatever they contain
SIZED_READERS = {'memcpy': (1, 2), 'memmove': (1, 2), '__builtin_memcpy': (1, 2), '__builtin_memmove': (1, 2),
                 'write': (1, 2), 'send': (1, 2), 'sendto': (1, 2), 'memcmp': (0, 2), 'mempcpy': (1, 2)}
UNBOUNDED_WRITERS = {'strcpy': (0, 1), 'stpcpy': (0, 1), 'strcat': (0, 1), 'sprintf': (0, None),
                     'vsprintf': (0, None), 'gets': (0, None), '__builtin_strcpy': (0, 1)}
STRING_PTR_RESULT = {'strchr', 'strrchr', 'strstr', 'strcasestr', 'strpbrk', 'memchr', 'index', 'rindex'}
ALLOC = {'malloc': 0, 'calloc': None, 'realloc': 1, 'strdup': None, 'strndup': None}


class Obligation:
    def __init__(self, kind, func, node, text, ok, missing, how=''):
        self.kind = kind
        self.func = func
        self.node = node
        self.text = text
        self.ok = ok
        self.missing = missing
        self.how = how

    def key(self, ordinal):
        return '%s[%s:%s#%d]' % (self.kind, self.func.name, self.text, ordinal)


class Region:
    __slots__ = ('key', 'base', 'cap', 'end', 'name')

    def __init__(self, key, base, cap, end, name):
        self.key = key
        self.base = base   # Lin: start address
        self.cap = cap     # Lin or None: capacity in bytes
        self.end = end     # Lin or None: address of the (entry-time) terminator, for string parameters
        self.name = name


class State:
    __slots__ = ('facts', 'regions')

    def __init__(self, facts, regions):
        self.facts = facts        # frozenset of Lin
        self.regions = regions    # frozenset of (var id, region key)

    def __eq__(self, o):
        return isinstance(o, State) and self.facts == o.facts and self.regions == o.regions

    def __hash__(self):
        return hash((self.facts, self.regions))


def is_ptr_ct(ct):
    """pointer type, top-level qualifiers ignored (char *const, const char *restrict)"""
    t = (ct or '').strip()
    changed = True
    while changed:
        changed = False
        for q in ('const', '__restrict', 'restrict', 'volatile'):
            if t.endswith(q):
                t = t[:-len(q)].rstrip()
                changed = True
    return t.endswith('*')


def is_int_type(ct):
    ct = (ct or '')
    return any(t in ct for t in ('int', 'long', 'short', 'char', 'size_t', 'unsigned', '_Bool')) and '*' not in ct and '[' not in ct


def is_unsigned(ct):
    return 'unsigned' in (ct or '') or (ct or '').strip() in ('size_t',)


def _strongest(facts):
    """of the facts with one and the same linear part (x - y + 1 >= 0, x - y + 3 >= 0) only the one with the smallest
    constant says anything"""
    best = {}
    for f in facts:
        k = frozenset(f.t.items())
        g = best.get(k)
        if g is None or f.c < g.c:
            best[k] = f
    return set(best.values())


class BoundsAnalysis:
    def __init__(self, prog, cg, min_param_cap=None):
        self.check_reads = os.environ.get('VERIF_READS', '1') == '1'
        self.prog = prog
        self.cg = cg
        self.obligations = []
        self.sinks = 0
        self.contract_sites = 0
        self._paired = {}
        self._rpaired = {}
        self.global_facts = []   # facts about fields etc. supplied by the rule (Lin >= 0)
        self.field_bounds = {}   # struct member name -> (min, max) derived by the rule
        self.ret_summaries = {}
        self.pre_sites = {}      # key of a static callee -> {call node id: (frozenset of entry facts, {param index: capacity})}
        self.size_floor = {}     # function key -> (index of its size parameter, least size every caller must offer)
        self._direct_sites = {}

    # ---- preconditions of file-local helpers, inferred from their call sites ---------------------
    def direct_sites_of(self, t):
        """ids of the call expressions that call the static function t by name, or None when its address also
        escapes (table, callback): then not every call is visible and nothing may be assumed"""
        if t.key in self._direct_sites:
            return self._direct_sites[t.key]
        ids = set()
        escapes = False
        for f in self.prog.functions:
            if f.tu is not t.tu:
                continue
            for n in f.body.walk():
                if n.k == 'DeclRefExpr' and n['ref'].get('kind') == 'func' and n['ref'].get('name') == t.name:
                    par = n.parent
                    while par is not None and par.k in ('ImplicitCastExpr', 'ParenExpr'):
                        par = par.parent
                    if par is not None and par.k == 'CallExpr' and par.get('callee') == t.name:
                        ids.add((f.key, par.id))
                    else:
                        escapes = True
        for g in t.tu.globals:
            if getattr(g, 'init', None) is not None and any(
                    n.k == 'DeclRefExpr' and n['ref'].get('kind') == 'func' and n['ref'].get('name') == t.name
                    for n in g.init.walk()):
                escapes = True
        self._direct_sites[t.key] = None if escapes else ids
        return self._direct_sites[t.key]

    def preconditions(self, t):
        """(entry facts, parameter capacities) that hold at EVERY call of the static function t - available once all
        its callers have been analysed (analyse callers first: order_callers_first)"""
        if not t.internal:
            return (), {}
        want = self.direct_sites_of(t)
        got = self.pre_sites.get(t.key, {})
        if not want or set(got) != want:
            return (), {}
        facts = None
        caps = None
        for fs, cp in got.values():
            facts = set(fs) if facts is None else facts & fs
            if caps is None:
                caps = dict(cp)
            else:
                caps = {k: ((v if cp[k] == v else -1) if isinstance(k, tuple) else min(v, cp[k])) for k, v in caps.items() if k in cp}
        return tuple(sorted(facts or (), key=str)), caps or {}

    def order_callers_first(self, funcs):
        """the given functions ordered so that a function comes after the functions that call it (cycles: as found)"""
        keys = {f.key: f for f in funcs}
        indeg = {k: 0 for k in keys}
        out_edges = {k: set() for k in keys}
        for f in funcs:
            for c in f.calls():
                t = self.prog.func(c.get('callee'), f.tu) if c.get('callee') else None
                if t is not None and t.key in keys and t.key != f.key and t.key not in out_edges[f.key]:
                    out_edges[f.key].add(t.key)
                    indeg[t.key] += 1
        order = []
        ready = sorted([k for k, d in indeg.items() if d == 0], key=str)
        while ready:
            k = ready.pop(0)
            order.append(k)
            for t in sorted(out_edges[k], key=str):
                indeg[t] -= 1
                if indeg[t] == 0:
                    ready.append(t)
        rest = sorted([k for k in keys if k not in set(order)], key=str)
        return [keys[k] for k in order + rest]

    # ---- buffer/size parameter pairs ----------------------------------------------------------
    def paired_params(self, f):
        """{index of char* param: index of its size param}: the next parameter, if it is an
        integer and the function (or a callee it forwards the pair to) uses the two as a
        (destination, size) pair."""
        if f.key in self._paired:
            return self._paired[f.key]
        self._paired[f.key] = {}
        out = {}
        ps = f.params
        for i in range(len(ps)):
            t = ps[i]['ct']
            if not (t.replace(' ', '') in ('char*', 'char*const', 'void*') and 'const char' not in t):
                continue
            # adjacent integer parameter that the function uses at all: the repository's
            # (buffer, bufferSize) convention
            if i + 1 < len(ps) and is_int_type(ps[i + 1]['ct']) and self._mentions_param(f, i + 1):
                out[i] = i + 1
                continue
            # otherwise: a later integer parameter with evidence that the two are used as a pair
            for j in range(i + 2, len(ps)):
                if is_int_type(ps[j]['ct']) and self._uses_as_pair(f, i, j):
                    out[i] = j
                    break
        self._paired[f.key] = out
        return out

    def read_pairs(self, f):
        """{index of const pointer param: index of its length param} where f hands the two to a sized reader
        (memcpy source, write, send) or to a callee's read pair: the caller vouches for that many readable bytes"""
        if f.key in self._rpaired:
            return self._rpaired[f.key]
        self._rpaired[f.key] = {}
        out = {}
        ps = f.params

        def mentions(node, did):
            return node is not None and any(n.k == 'DeclRefExpr' and n['ref'].get('id') == did for n in node.walk())
        for i in range(len(ps)):
            t = ps[i]['ct'].replace(' ', '')
            if not (t.endswith('*') or t.endswith('*const')) or t.count('*') != 1 or not ('char' in t or 'void' in t):
                continue
            if i in self.paired_params(f):
                continue
            for j in range(len(ps)):
                if j == i or not is_int_type(ps[j]['ct']):
                    continue
                hit = False
                for c in f.calls():
                    name = c.get('callee')
                    args = c.ch[1:]
                    if name in SIZED_READERS:
                        si, ni = SIZED_READERS[name]
                        if si < len(args) and ni < len(args) and decl_of(args[si]) is not None and \
                                decl_of(args[si])['id'] == ps[i]['id'] and strip(args[si]).k == 'DeclRefExpr' and \
                                decl_of(args[ni]) is not None and decl_of(args[ni])['id'] == ps[j]['id'] and \
                                strip(args[ni]).k == 'DeclRefExpr':
                            hit = True
                    else:
                        t2 = self.prog.func(name, f.tu) if name else None
                        if t2 is not None and t2 is not f:
                            for bi, li in self.read_pairs(t2).items():
                                if bi < len(args) and li < len(args) and strip(args[bi]).k == 'DeclRefExpr' and \
                                        (decl_of(args[bi]) or {}).get('id') == ps[i]['id'] and \
                                        strip(args[li]).k == 'DeclRefExpr' and (decl_of(args[li]) or {}).get('id') == ps[j]['id']:
                                    hit = True
                if hit:
                    # the pair is a contract only if neither parameter is modified before use
                    if not any(k != 'decl' for k, _ in def_sites(f, ps[i]['id'])) and \
                            not any(k != 'decl' for k, _ in def_sites(f, ps[j]['id'])):
                        out[i] = j
                    break
        self._rpaired[f.key] = out
        return out

    def _mentions_param(self, f, j):
        sid = f.params[j]['id']
        return any(n.k == 'DeclRefExpr' and n['ref'].get('id') == sid for n in f.body.walk())

    def _uses_as_pair(self, f, i, j, depth=0):
        pid, sid = f.params[i]['id'], f.params[j]['id']

        def mentions(node, did):
            return any(n.k == 'DeclRefExpr' and n['ref'].get('id') == did for n in node.walk())
        for c in f.calls():
            name = c.get('callee')
            args = c.ch[1:]
            if name in SIZED_WRITERS:
                di, si = SIZED_WRITERS[name]
                if di < len(args) and si < len(args) and mentions(args[di], pid) and mentions(args[si], sid):
                    return True
            t = self.prog.func(name, f.tu) if name else None
            ts = [t] if t is not None else []
            if name is None:
                cs = [x for x in self.cg.callees(f) if x.node.id == c.id]
                ts = [x for x in (cs[0].targets if cs else []) if not isinstance(x, str)]
            for t in ts:
                if t is f or depth > 3:
                    continue
                pp = self.paired_params(t)
                for bi, si in pp.items():
                    if bi < len(args) and si < len(args) and mentions(args[bi], pid) and mentions(args[si], sid):
                        return True
        # direct subscript stores bounded by the size parameter are also evidence
        for n in f.body.walk():
            if n.k == 'BinaryOperator' and n['op'] in ('<', '<=', '>', '>=') and mentions(n, sid):
                return True
        return False

    # ---- summaries of program functions -------------------------------------------------------------
    def nonneg_result(self, t):
        """every return of t provably yields a value >= 0"""
        key = ('nn', t.key)
        if key in self.ret_summaries:
            return self.ret_summaries[key]
        self.ret_summaries[key] = False
        res = False
        if is_int_type(t.d.get('retCanon')) and not t.cfg_error:
            A = _FuncAnalysis(self, t, ())
            A.collect_returns = []
            A.run()
            res = bool(A.collect_returns) and all(ok for ok in A.collect_returns)
        self.ret_summaries[key] = res
        return res

    def int_ret_summary(self, t):
        """relations between the integer result of the program function t and its arguments that hold at every return:
        ('le_strlen', i): arg_i + result <= terminator of the string arg_i points into (an offset/count inside it);
        ('le_param', j, c): result <= arg_j + c.  From a fixed menu, each proved by the analysis of t itself."""
        key = ('intret', t.key)
        if key in self.ret_summaries:
            return self.ret_summaries[key]
        self.ret_summaries[key] = []
        res = []
        if is_int_type(t.d.get('retCanon')) and not t.cfg_error and t.params:
            A = _FuncAnalysis(self, t, ())
            A.collect_ret_states = []
            A.run()
            rets = A.collect_ret_states
            if rets:
                for i, p in enumerate(t.params):
                    ct = p['ct']
                    if '*' in ct and 'char' in ct and ct.count('*') == 1:
                        reg = A.region_for_param(i)
                        if reg.end is not None and all(v is not None and A.entails(st, reg.end - reg.base - v) and A.entails(st, v)
                                                       for st, v in rets):
                            res.append(('le_strlen', i))
                    elif is_int_type(ct):
                        ent = Lin.sym(('var0', p['id'], p['name'] + '@entry'))
                        for c in (-2, -1, 0):
                            if all(v is not None and A.entails(st, ent + Lin.const(c) - v) for st, v in rets):
                                res.append(('le_param', i, c))
                                break
        self.ret_summaries[key] = res
        return res

    def str_ret_summary(self, t):
        """indices i of the string parameters of the program function t for which every non-NULL return hands back a
        local string with strlen(result) <= strlen(arg_i), proved by the analysis of t itself"""
        key = ('strret', t.key)
        if key in self.ret_summaries:
            return self.ret_summaries[key]
        self.ret_summaries[key] = []
        res = []
        if is_ptr_ct(t.d.get('retCanon')) and 'char' in (t.d.get('retCanon') or '') and not t.cfg_error and t.params:
            A = _FuncAnalysis(self, t, ())
            A.collect_ret_states = []
            A.collect_ret_nodes = []
            A.run()
            pairs = [(st, strip(nd)) for (st, v), nd in zip(A.collect_ret_states, A.collect_ret_nodes)
                     if not (strip(nd).get('null') or nd.get('null') or strip(nd).get('v') == 0)]
            if pairs and all(nd.k == 'DeclRefExpr' and nd['ref'].get('kind') == 'var' for st, nd in pairs):
                for i, p in enumerate(t.params):
                    ct = p['ct']
                    if not ('*' in ct and 'char' in ct and ct.count('*') == 1):
                        continue
                    if any(k_ != 'decl' for k_, _ in def_sites(t, p['id'])):
                        continue
                    sp = Lin.sym(('strlen', ('decl', p['id']), p['name']))
                    if all(A.entails(st, sp - Lin.sym(('strlen', ('decl', nd['ref']['id']), nd['ref']['name']))) for st, nd in pairs):
                        res.append(i)
        self.ret_summaries[key] = res
        return res

    def alloc_out_summary(self, t):
        """k when the file-local function t returns NULL or (the start of) a block it allocated whose capacity is at
        least the non-negative value it stored through its integer out-parameter #k; else None"""
        key = ('allocout', t.key)
        if key in self.ret_summaries:
            return self.ret_summaries[key]
        self.ret_summaries[key] = None
        res = None
        if t.internal and not t.cfg_error and is_ptr_ct(t.d.get('retCanon')):
            A = _FuncAnalysis(self, t, ())
            A.collect_ret_states = []
            A.collect_ret_nodes = []
            A.run()
            outs = [i for i, p in enumerate(t.params) if p['ct'].count('*') == 1 and is_int_type(p['ct'].split('*')[0].replace('const', '').strip())]
            for k in outs:
                osym = Lin.sym(('outv', t.params[k]['id'], '*' + t.params[k]['name']))
                good = bool(A.collect_ret_nodes)
                nonnull = 0
                for (st, v), node in zip(A.collect_ret_states, A.collect_ret_nodes):
                    if strip(node).get('null') or strip(node).get('v') == 0:
                        continue
                    nonnull += 1
                    reg = A.region_of(node, st)
                    if v is None or reg is None or reg.key[0] != 'heap' or reg.cap is None or not (
                            A.entails(st, v - reg.base) and A.entails(st, reg.base - v) and
                            A.entails(st, reg.cap - osym) and A.entails(st, osym)):
                        good = False
                if good and nonnull:
                    res = k
                    break
        self.ret_summaries[key] = res
        return res

    def ptr_summary(self, func, call):
        """index of the argument whose string the returned pointer points into (it stays within
        [arg, end of arg's string]), for program functions where the analysis proves that"""
        name = call.get('callee')
        if not name or not is_ptr_ct(call.get('ct')):
            return None
        t = self.prog.func(name, func.tu)
        if t is None or t.cfg_error:
            return None
        key = ('ptr', t.key)
        if key in self.ret_summaries:
            return self.ret_summaries[key]
        self.ret_summaries[key] = None
        A = _FuncAnalysis(self, t, ())
        A.collect_ptr_returns = []
        A.run()
        res = None
        rets = []
        for x in A.collect_ptr_returns:
            if x is not None and x[0] == 'var':
                # `return result;`: every definition of the result variable is NULL or lies in one argument's string
                defs = getattr(A, 'ptr_defs', {}).get(x[1], [])
                real = [d_ for d_ in defs if d_ != 'null']
                if not real or any(d_ is None for d_ in real):
                    rets.append(None)
                else:
                    rets.extend(real)
            else:
                rets.append(x)
        A.collect_ptr_returns = rets
        if A.collect_ptr_returns and all(x is not None for x in A.collect_ptr_returns):
            idxs = set(i for i, _ in A.collect_ptr_returns)
            if len(idxs) == 1:
                res = idxs.pop()
                self.ret_summaries[('ident', t.key)] = all(ident for _, ident in A.collect_ptr_returns)
        self.ret_summaries[key] = res
        return res

    def ptr_identity(self, func, call):
        """the program function returns exactly the pointer it received as argument #k"""
        k = self.ptr_summary(func, call)
        if k is None:
            return None
        t = self.prog.func(call.get('callee'), func.tu)
        return k if self.ret_summaries.get(('ident', t.key)) else None

    # ---- main -----------------------------------------------------------------------------------
    def analyse(self, func, entry_facts=(), queries=None):
        if func.cfg_error:
            return []
        pre, caps = self.preconditions(func)
        fl = self.size_floor.get(func.key) or self.size_floor.get(getattr(getattr(func, 'original', None), 'key', None))
        if fl is not None and fl[0] < len(func.params):
            # assumed here, demanded from every call site (contract-floor obligations)
            p_ = func.params[fl[0]]
            pre = list(pre) + [Lin.sym(('var', p_['id'], p_['name'])) - Lin.const(fl[1])]
        A = _FuncAnalysis(self, func, list(entry_facts) + list(pre))
        A.param_caps = {k: v for k, v in caps.items() if not isinstance(k, tuple)}
        for k, v in caps.items():
            if isinstance(k, tuple) and k[0] == 'pair' and v != -1 and k[1] not in A.paired:
                A.paired = dict(A.paired)
                A.paired[k[1]] = v      # every call site offers at least `param v` bytes behind `param k[1]`
        A.queries = queries or {}
        obls = A.run()
        self.obligations += obls
        return obls


class _FuncAnalysis:
    def __init__(self, top, func, entry_facts):
        self.top = top
        self.prog = top.prog
        self.func = func
        self.entry_facts = list(entry_facts)
        self.regions = {}      # key -> Region
        self.obls = {}
        self.order = []
        self.visits = {}
        self.modified = set()
        for n in func.body.walk():
            pass
        self.var_types = {}
        for p in func.params:
            self.var_types[p['id']] = p['ct']
        for d in func.local_decls():
            self.var_types[d['id']] = d.get('ct', '')
        self.paired = top.paired_params(func)
        self.rpaired = top.read_pairs(func)
        self.unsigned_syms = set()
        self.collect_returns = None
        self.collect_ptr_returns = None
        self.queries = {}
        self.param_caps = {}

    # ---- symbols --------------------------------------------------------------------------------
    def vsym(self, ref):
        return ('var', ref['id'], ref['name'])

    def region_for_array_var(self, ref, node):
        key = ('arr', ref['id'])
        if key not in self.regions:
            size = None
            d = None
            for x in self.func.local_decls():
                if x['id'] == ref['id']:
                    d = x
            if d is not None and 'size' in d:
                size = d['size']
            if d is not None and d.get('vla'):
                import re as _re
                m = _re.search(r'\[(\w+)\]$', (d.get('t') or d.get('ct') or '').strip())
                if m:
                    for x in self.func.local_decls() + [dict(id=p['id'], name=p['name']) for p in self.func.params]:
                        if x['name'] == m.group(1):
                            es = 1
                            base = Lin.sym(('addr', key, ref['name']))
                            self.regions[key] = Region(key, base, Lin.sym(('var', x['id'], x['name'])), None, ref['name'])
                            return self.regions[key]
            if size is None:
                g = self.prog.global_var(ref['name']) if ref.get('staticStorage') else None
                if g is not None and 'size' in g.d:
                    size = g.d['size']
            base = Lin.sym(('addr', key, ref['name']))
            self.regions[key] = Region(key, base, Lin.const(size) if size is not None else None, None, ref['name'])
        return self.regions[key]

    def region_for_field_array(self, node):
        text = render(node)
        key = ('farr', text)
        if key not in self.regions:
            fs = node.get('fieldSize') or {}
            size = fs.get('size')
            self.regions[key] = Region(key, Lin.sym(('addr', key, text)),
                                       Lin.const(size) if size is not None else None, None, text)
        return self.regions[key]

    def region_for_param(self, idx):
        p = self.func.params[idx]
        key = ('param', p['id'])
        if key not in self.regions:
            base = Lin.sym(('var0', p['id'], p['name'] + '@entry'))
            cap = None
            if idx in self.paired:
                sp = self.func.params[self.paired[idx]]
                cap = Lin.sym(('var0', sp['id'], sp['name'] + '@entry'))
            end = Lin.sym(('end', key, 'end(%s)' % p['name']))
            if cap is None and idx in self.rpaired:
                # (pointer, length) read contract: the caller guarantees `length` readable bytes
                sp = self.func.params[self.rpaired[idx]]
                cap = Lin.sym(('var0', sp['id'], sp['name'] + '@entry'))
            if cap is None and idx in self.param_caps:
                # file-local helper: every call hands in (the start of) an object of at least this many bytes
                cap = Lin.const(self.param_caps[idx])
            self.regions[key] = Region(key, base, cap, end, p['name'])
        return self.regions[key]

    def region_for_heap(self, node, size_lin, name):
        key = ('heap', node.id)
        if key not in self.regions:
            self.regions[key] = Region(key, Lin.sym(('addr', key, 'heap@%d' % node.line)),
                                       Lin.sym(('cap', key, 'cap(heap@%d)' % node.line)), None, name)
        return self.regions[key]

    def region_for_opaque_string(self, node):
        key = ('str', node.id)
        if key not in self.regions:
            self.regions[key] = Region(key, Lin.sym(('addr', key, 'str@%d' % node.line)), None,
                                       Lin.sym(('end', key, 'end(str@%d)' % node.line)), render(node)[:30])
        return self.regions[key]

    def _is_offset(self, n):
        """the expression is used as a subscript or is added to a pointer: address arithmetic is modular as well, so
        p[len - 1] with len == 0 is p[-1] whatever the type of len"""
        p = getattr(n, 'parent', None)
        while p is not None and p.k in ('ParenExpr', 'ImplicitCastExpr', 'CStyleCastExpr'):
            n, p = p, getattr(p, 'parent', None)
        if p is None:
            return False
        if p.k == 'ArraySubscriptExpr':
            return len(p.ch) > 1 and p.ch[1] is n
        if p.k == 'BinaryOperator' and p.get('op') in ('+', '-') and is_ptr_ct(p.get('ct')):
            return True
        return False

    # ---- expression -> Lin under a state -----------------------------------------------------
    def lin(self, node, st):
        n = strip(node)
        if n is None:
            return None
        if 'v' in n.d and n.k not in ('DeclRefExpr',):
            return Lin.const(n['v'])
        k = n.k
        if k == 'ConditionalOperator' and is_ptr_ct(n.get('ct')):
            arm = self._nonnull_arm(n)
            if arm is not None:
                return self.lin(arm, st)
        if k == 'DeclRefExpr':
            r = n['ref']
            if r['kind'] == 'enum' and 'v' in n.d:
                return Lin.const(n['v'])
            if r['kind'] in ('var', 'parm'):
                ct = n.get('ct') or ''
                if ct.rstrip().endswith(']'):
                    return self.region_for_array_var(r, n).base
                return Lin.sym(self.vsym(r))
            return None
        if k == 'CallExpr' and n.get('callee') in ('strlen', '__builtin_strlen'):
            a = strip(n.ch[1])
            return Lin.sym(('strlen', self.strkey(a), render(a)))
        if k == 'CallExpr' and is_ptr_ct(n.get('ct')):
            ident = self.top.ptr_identity(self.func, n)
            if ident is not None:
                return self.lin(n.ch[1 + ident], st)
            return Lin.sym(('opaque', n.id))
        if k == 'BinaryOperator':
            op = n['op']
            if op in ('+', '-'):
                a, b = self.lin(n.ch[0], st), self.lin(n.ch[1], st)
                if a is None or b is None:
                    return None
                la, lb = (n.ch[0].get('ct') or ''), (n.ch[1].get('ct') or '')
                pa, pb = is_ptr_ct(la), is_ptr_ct(lb)
                if pa and not pb:
                    b = b.scale(self.elem_size(n.ch[0]))
                elif pb and not pa and op == '+':
                    a = a.scale(self.elem_size(n.ch[1]))
                elif pa and pb and op == '-':
                    es = self.elem_size(n.ch[0])
                    r = a - b
                    return r.scale(1) if es == 1 else Lin.sym(('opaque', n.id))
                if op == '-' and not pa and not pb and st is not None and is_unsigned(n.get('ct')) and not self._is_offset(n):
                    # an unsigned difference is the mathematical one only when it cannot wrap around: `size - 1 - used`
                    # with used == size is a huge number, not -1
                    d = a - b
                    if d.is_const():
                        return d if d.c >= 0 else Lin.sym(('opaque', n.id))
                    if not self.entails(st, d):
                        return Lin.sym(('opaque', n.id))
                    return d
                return a + b if op == '+' else a - b
            if op == '*':
                a, b = self.lin(n.ch[0], st), self.lin(n.ch[1], st)
                if a is not None and b is not None:
                    if a.is_const():
                        return b.scale(a.c)
                    if b.is_const():
                        return a.scale(b.c)
                return Lin.sym(('opaque', n.id))
            if op == ',':
                return self.lin(n.ch[1], st)
            if op == '=':
                return self.lin(n.ch[0], st)
            return Lin.sym(('opaque', n.id))
        if k == 'UnaryOperator':
            if n['op'] in ('++', '--'):
                # the operand has already been updated when the enclosing element is evaluated
                a = self.lin(n.ch[0], st)
                if a is None:
                    return None
                if n.get('postfix'):
                    step = self.elem_size(n.ch[0]) if is_ptr_ct(n.ch[0].get('ct')) else 1
                    return a - Lin.const(step) if n['op'] == '++' else a + Lin.const(step)
                return a
            if n['op'] == '-':
                a = self.lin(n.ch[0], st)
                return -a if a is not None else None
            if n['op'] == '&':
                t = strip(n.ch[0])
                if t.k == 'ArraySubscriptExpr':
                    b, i = self.lin(t.ch[0], st), self.lin(t.ch[1], st)
                    if b is not None and i is not None:
                        return b + i.scale(self.elem_size(t.ch[0]))
                if t.k == 'DeclRefExpr':
                    return Lin.sym(('addr', ('obj', t['ref']['id']), '&' + t['ref']['name']))
                if t.k == 'MemberExpr':
                    return self.region_for_field_array(t).base if (t.get('ct') or '').endswith(']') else \
                        Lin.sym(('addr', ('mem', render(t)), '&' + render(t)))
            return Lin.sym(('opaque', n.id))
        if k == 'MemberExpr':
            if (n.get('ct') or '').rstrip().endswith(']'):
                return self.region_for_field_array(n).base
            fs = ('field', render(n))
            if is_unsigned(n.get('ct')) or 'size_t' in (n.get('t') or ''):
                self.unsigned_syms.add(fs)
            return Lin.sym(fs)
        if k == 'ArraySubscriptExpr':
            return Lin.sym(('opaque', n.id))
        return Lin.sym(('opaque', n.id))

    def elem_size(self, ptr_node):
        t = (ptr_node.get('ct') or '').strip()
        for q in ('const', '__restrict', 'restrict', 'volatile'):
            if t.endswith(q):
                t = t[:-len(q)].rstrip()
        if t.endswith(']'):
            t = t[:t.rfind('[')].strip() + ' *'
        pointee = t[:-1].strip() if t.endswith('*') else t
        pointee = pointee.replace('const', '').replace('volatile', '').strip()
        if pointee in ('char', 'unsigned char', 'signed char', 'void', ''):
            return 1
        if pointee.endswith('*'):
            return 8
        if pointee.startswith('struct ') or pointee.startswith('union '):
            try:
                r = self.prog.record(pointee.split(' ', 1)[1])
                if r and r.get('size'):
                    return r['size']
            except Exception:
                pass
        return {'int': 4, 'unsigned int': 4, 'long': 8, 'unsigned long': 8, 'short': 2, 'unsigned short': 2,
                'long long': 8, 'unsigned long long': 8}.get(pointee, 1)

    def strkey(self, a):
        r = decl_of(a)
        if r is not None:
            return ('decl', r['id'])
        return ('expr', render(a))

    # ---- region of a pointer expression ------------------------------------------------------------
    def _nonnull_arm(self, n):
        """`c ? p : NULL` / `c ? NULL : p` (a pointer or "none"): the pointer arm - null results are outside the domain"""
        if n is None or n.k != 'ConditionalOperator' or len(n.ch) < 3:
            return None
        a, b = strip(n.ch[1]), strip(n.ch[2])
        isnull = lambda x: x is not None and (x.get('null') or (x.get('v') == 0 and x.k != 'DeclRefExpr'))
        if isnull(b) and not isnull(a):
            return n.ch[1]
        if isnull(a) and not isnull(b):
            return n.ch[2]
        return None

    def region_of(self, node, st):
        n = strip(node)
        if n is None:
            return None
        arm = self._nonnull_arm(n)
        if arm is not None:
            return self.region_of(arm, st)
        k = n.k
        if k == 'DeclRefExpr':
            r = n['ref']
            ct = n.get('ct') or ''
            if ct.rstrip().endswith(']'):
                return self.region_for_array_var(r, n)
            if r['kind'] in ('var', 'parm'):
                for vid, key in st.regions:
                    if vid == r['id']:
                        return self.regions.get(key)
                if r['kind'] == 'parm':
                    # a pointer parameter that was never reassigned
                    return self.region_for_param(r['index'])
            return None
        if k == 'MemberExpr':
            if (n.get('ct') or '').rstrip().endswith(']'):
                return self.region_for_field_array(n)
            return None
        if k == 'UnaryOperator' and n['op'] in ('++', '--'):
            return self.region_of(n.ch[0], st)
        if k == 'CallExpr':
            summ = self.top.ptr_summary(self.func, n)
            if summ is not None:
                return self.region_of(n.ch[1 + summ], st)
            return None
        if k == 'UnaryOperator' and n['op'] == '&':
            t = strip(n.ch[0])
            if t.k == 'ArraySubscriptExpr':
                return self.region_of(t.ch[0], st)
            if t.k == 'MemberExpr' and (t.get('ct') or '').endswith(']'):
                return self.region_for_field_array(t)
            return None
        if k == 'BinaryOperator' and n['op'] in ('+', '-'):
            for c in n.ch:
                if is_ptr_ct(c.get('ct')) or (strip(c).get('ct') or '').rstrip().endswith(']'):
                    return self.region_of(c, st)
            return None
        if k == 'BinaryOperator' and n['op'] == '=':
            return self.region_of(n.ch[1], st)
        if k == 'ConditionalOperator':
            a, b = self.region_of(n.ch[1], st), self.region_of(n.ch[2], st)
            return a if a is b else None
        return None

    # ---- facts helpers ------------------------------------------------------------------------------
    def add(self, facts, *lins):
        s = set(facts)
        for l in lins:
            if l is None:
                continue
            if l.is_const():
                continue
            s.add(l)
        if len(s) > MAX_FACTS:
            s = _strongest(s)
        if len(s) > MAX_FACTS:
            # keep the syntactically smallest facts
            s = set(sorted(s, key=lambda x: (len(x.t), repr(x)))[:MAX_FACTS])
        return frozenset(s)

    def eq(self, facts, a, b):
        return self.add(facts, a - b, b - a)

    def project(self, facts, pred):
        """existentially eliminate every symbol satisfying pred (Fourier-Motzkin)."""
        cons = list(facts)
        syms = set()
        for c in cons:
            for s in c.t:
                if pred(s):
                    syms.add(s)
        syms = set(syms)
        while syms:
            # cheapest symbol first (fewest combinations): the order decides how large the intermediate systems get,
            # and with that whether the cap below throws facts away
            s = min(syms, key=lambda z: (sum(1 for c in cons if c.t.get(z, 0) > 0) * sum(1 for c in cons if c.t.get(z, 0) < 0),
                                         repr(z)))
            syms.discard(s)
            pos = [c for c in cons if c.t.get(s, 0) > 0]
            neg = [c for c in cons if c.t.get(s, 0) < 0]
            rest = [c for c in cons if c.t.get(s, 0) == 0]
            new = []
            if len(pos) * len(neg) <= 64:
                for p in pos:
                    for q in neg:
                        a, b = p.t[s], -q.t[s]
                        comb = p.scale(b) + q.scale(a)
                        comb.t.pop(s, None)
                        if comb.t:
                            new.append(comb)
            cons = list(set(rest + new))
        if len(cons) > MAX_FACTS:
            cons = sorted(cons, key=lambda x: (len(x.t), repr(x)))[:MAX_FACTS]
        return frozenset(cons)

    def saturate(self, st, pred):
        """make implicit facts (signs, string-in-region axioms) about the symbols that are about
        to be projected away explicit, so that their consequences survive the projection"""
        extra = self.implicit_facts(st, None)
        facts = set(st.facts)
        for f in extra:
            if any(pred(s) for s in f.t):
                facts.add(f)
        return frozenset(facts)

    def kill_var(self, st, vid):
        pr = lambda s: (s[0] == 'var' and s[1] == vid) or (s[0] == 'strlen' and s[1] == ('decl', vid))
        facts = self.project(self.saturate(st, pr), pr)
        regions = frozenset((v, k) for v, k in st.regions if v != vid and not (isinstance(v, tuple) and vid in v[1:]))
        return State(facts, regions)

    def kill_strlen_of_region(self, st, region):
        # strlen of strings living in a region that is written to are no longer known
        st = State(st.facts, frozenset((v, k) for v, k in st.regions if not (isinstance(v, tuple) and v[0] == 'charof')))
        if region is None:
            pr = lambda s: s[0] == 'strlen'
            return State(self.project(self.saturate(st, pr), pr),
                         frozenset((v, k) for v, k in st.regions if not (isinstance(v, tuple) and v[0] == 'prefix')))
        ids = {v for v, k in st.regions if k == region.key}
        if region.key[0] == 'arr':
            ids.add(region.key[1])
        if region.key[0] == 'param':
            ids.add(region.key[1])
        pr = lambda s: s[0] == 'strlen' and (s[1][0] != 'decl' or s[1][1] in ids)
        # what pointers into the region were known to point at is no longer known either
        return State(self.project(self.saturate(st, pr), pr),
                     frozenset((v, k) for v, k in st.regions if not (isinstance(v, tuple) and v[0] == 'prefix' and v[1] in ids)))

    def type_facts(self, facts):
        """sign facts for symbols that are unsigned / lengths, and string-in-region axioms."""
        out = []
        syms = set()
        for f in facts:
            syms |= set(f.t)
        return out

    def implicit_facts(self, st, goal):
        facts = []
        syms = set(goal.t) if goal is not None else set()
        for f in st.facts:
            syms |= set(f.t)
        for s in list(syms):
            if s[0] == 'strlen':
                facts.append(Lin.sym(s))
            elif s[0] in ('var', 'var0'):
                ct = self.var_types.get(s[1], '')
                if is_unsigned(ct) or 'size_t' in ct or ct.strip() == 'unsigned long':
                    facts.append(Lin.sym(s))
            elif s[0] == 'cap':
                facts.append(Lin.sym(s))
            elif s[0] == 'field':
                if s in self.unsigned_syms:
                    facts.append(Lin.sym(s))
                for suffix, (lo, hi) in self.top.field_bounds.items():
                    if s[1].endswith('->' + suffix) or s[1].endswith('.' + suffix):
                        if lo is not None:
                            facts.append(Lin.sym(s) - Lin.const(lo))
                        if hi is not None:
                            facts.append(Lin.const(hi) - Lin.sym(s))
        # string-inside-region axioms: end(R) + 1 <= base + cap ; base <= end(R)
        for reg in self.regions.values():
            if reg.end is not None and reg.cap is not None:
                facts.append(reg.base + reg.cap - reg.end - Lin.const(1))
            if reg.end is not None:
                facts.append(reg.end - reg.base)
        # x + strlen(x) <= end(R)  (or < base + cap) for string pointers x into R
        for s in list(syms):
            if s[0] == 'strlen' and s[1][0] == 'decl':
                vid = s[1][1]
                reg = None
                for v, k in st.regions:
                    if v == vid:
                        reg = self.regions.get(k)
                vs = None
                for x in syms:
                    if x[0] == 'var' and x[1] == vid:
                        vs = x
                if reg is None and ('arr', vid) in self.regions:
                    reg = self.regions[('arr', vid)]
                    vsl = reg.base
                else:
                    vsl = Lin.sym(vs) if vs is not None else None
                    if vsl is None and reg is not None:
                        vsl = Lin.sym(('var', vid, s[2]))
                if reg is not None and vsl is not None:
                    if reg.end is not None:
                        facts.append(reg.end - vsl - Lin.sym(s))
                    elif reg.cap is not None:
                        facts.append(reg.base + reg.cap - vsl - Lin.sym(s) - Lin.const(1))
        return facts

    def entails(self, st, goal, extra=()):
        facts = list(st.facts) + list(extra) + list(self.top.global_facts) + self.implicit_facts(st, goal)
        return entails(facts, goal, max_vars=14)

    # ---- obligations -----------------------------------------------------------------------------
    def oblige(self, kind, node, text, ok, missing, how=''):
        prev = self.obls.get((kind, node.id, text))
        if prev is None:
            self.obls[(kind, node.id, text)] = Obligation(kind, self.func, node, text, ok, missing, how)
            self.order.append((kind, node.id, text))
        else:
            # an obligation holds only if it holds on every visit (states only grow weaker)
            if not ok:
                prev.ok = False
                prev.missing = missing

    def check_write(self, st, node, dst, nbytes, what):
        """writing nbytes (Lin) starting at pointer expression dst stays inside dst's region"""
        a = self.lin(dst, st)
        reg = self.region_of(dst, st)
        text = what
        s0 = strip(dst)
        if s0 is not None and s0.k == 'DeclRefExpr' and s0['ref'].get('kind') == 'parm' and nbytes is not None and \
                nbytes.is_const() and not any(k2 != 'decl' for k2, _ in def_sites(self.func, s0['ref']['id'])):
            es = self.elem_size(dst)
            if es > 1 and 0 <= nbytes.c <= es:
                # a never-modified parameter of type T* stands for (at least) one object of type T
                self.oblige('write', node, text, True, '', how='%d bytes into the object of %d bytes a %s parameter points to' % (
                    nbytes.c, es, (s0.get('ct') or '').strip()))
                return
        if a is None or nbytes is None:
            self.oblige('write', node, text, False, 'cannot express the destination or the size of %s' % render(node)[:80])
            return
        if reg is None:
            self.oblige('write', node, text, False,
                        'unknown destination object for %s (pointer of unknown provenance)' % render(dst))
            return
        goals = []
        if reg.cap is not None:
            goals.append((reg.base + reg.cap - a - nbytes, 'capacity(%s) = %s' % (reg.name, reg.cap)))
        if reg.end is not None:
            goals.append((reg.end + Lin.const(1) - a - nbytes, 'inside the existing string of %s' % reg.name))
        if not goals:
            self.oblige('write', node, text, False, 'capacity of %s is unknown' % reg.name)
            return
        # size expressions are unsigned: a difference that can be negative wraps to a huge count
        if not nbytes.is_const() and not self.entails(st, nbytes):
            # report the sign problem only if the capacity bound would hold for a non-negative size;
            # otherwise the (more serious) missing upper bound is what is wrong
            if any(self.entails(st, g, extra=[nbytes]) for g, why in goals):
                self.oblige('write', node, text, False,
                            'the size %s can be negative here, i.e. wraps around to a huge unsigned count (a bound that is '
                            'computed as capacity - offset needs offset <= capacity on this path)' % nbytes)
                return
        for g, why in goals:
            if self.entails(st, g):
                self.oblige('write', node, text, True, '', how='%s: %s >= 0 entailed' % (why, g))
                return
        g, why = goals[0]
        self.oblige('write', node, text, False,
                    'cannot prove %s bytes at offset %s fit into %s (%s): need %s >= 0' % (
                        nbytes, a - reg.base, reg.name, why, g))

    # ---- transfer ---------------------------------------------------------------------------------
    def assign_var(self, st, ref, rhs, node):
        """x = rhs.  All expressions are evaluated in the old state; the old value of x is renamed
        to a temporary, the facts about the new value are added, then the temporary is projected."""
        vid = ref['id']
        sym = self.vsym(ref)
        tmp = ('tmp', vid, ref['name'] + "'")
        ct = self.var_types.get(vid, '') or (node.get('ct') or '')
        r = strip(rhs)
        is_ptr = is_ptr_ct(ct) or (r is not None and is_ptr_ct(r.get('ct')))

        def ren(L):
            if L is None or sym not in L.t:
                return L
            c = L.t[sym]
            t = dict(L.t)
            del t[sym]
            t[tmp] = t.get(tmp, 0) + c
            return Lin(t, L.c)

        if r is not None and r.k == 'ConditionalOperator' and not is_ptr and len(r.ch) == 3 and not getattr(self, '_in_cond_assign', False):
            # x = c ? a : b with numbers: x = a where c holds, x = b where it does not, joined (min/max clamps, defaults)
            cnd = strip(r.ch[0])
            outs = []
            self._in_cond_assign = True
            try:
                for truth, arm in ((True, r.ch[1]), (False, r.ch[2])):
                    cf = self.cond_facts(cnd, truth, st) if cnd is not None else None
                    stc = st
                    if cf:
                        fs_ = st.facts
                        for f_ in cf:
                            fs_ = self.add(fs_, f_)
                        stc = State(fs_, st.regions)
                        if self.entails(stc, Lin.const(-1)):
                            continue        # this arm cannot be taken here
                    outs.append(self.assign_var(stc, ref, arm, node))
            finally:
                self._in_cond_assign = False
            if len(outs) == 2:
                return self.join(outs[0], outs[1])
            if len(outs) == 1:
                return outs[0]
        new_facts = []      # Lins over (new x as sym, old x as tmp)
        new_region = None
        X = Lin.sym(sym)
        val = self.lin(rhs, st)
        prefix_mark = None
        if is_ptr:
            new_region = self.region_of(rhs, st)
        if r is not None and r.k == 'CallExpr':
            name = r.get('callee')
            if is_ptr and name in ALLOC:
                size = None
                if name == 'malloc':
                    size = self.lin(r.ch[1], st)
                elif name == 'calloc':
                    a_, b_ = self.lin(r.ch[1], st), self.lin(r.ch[2], st)
                    if a_ is not None and b_ is not None and (a_.is_const() or b_.is_const()):
                        size = b_.scale(a_.c) if a_.is_const() else a_.scale(b_.c)
                elif name == 'realloc':
                    size = self.lin(r.ch[2], st)
                elif name == 'strdup':
                    s0 = strip(r.ch[1])
                    size = Lin.sym(('strlen', self.strkey(s0), render(s0))) + Lin.const(1)
                reg = self.region_for_heap(r, size, ref['name'])
                new_region = reg
                new_facts += [X - reg.base, reg.base - X]
                if size is not None:
                    new_facts += [reg.cap - ren(size), ren(size) - reg.cap]
                val = None
            elif is_ptr and name in STRING_PTR_RESULT and name not in ('memchr', 'memrchr'):
                src = r.ch[1]
                new_region = self.region_of(src, st)
                sl = self.lin(src, st)
                if sl is not None:
                    ss = strip(src)
                    sk = Lin.sym(('strlen', self.strkey(ss), render(ss)))
                    new_facts += [X - ren(sl), ren(sl) + sk - X - Lin.const(1)]
                    if name in ('strstr', 'strcasestr') and len(r.ch) > 2:
                        nd = strip(r.ch[2])
                        if nd is not None and nd.k == 'StringLiteral' and name == 'strstr':
                            # what the result is known to begin with; and, when the haystack pointer itself is known
                            # to begin with a literal, the earliest offset at which this needle can match
                            prefix_mark = nd.get('s', '')
                            hs = strip(src)
                            if hs is not None and hs.k == 'DeclRefExpr':
                                known = next((lit for v, lit in st.regions if v == ('prefix', hs['ref'].get('id'))), None)
                                if known and prefix_mark:
                                    k_ = 0
                                    while k_ < len(known):
                                        ov = known[k_:k_ + len(prefix_mark)]
                                        if prefix_mark.startswith(ov):
                                            break       # could match here (as far as the known text goes)
                                        k_ += 1
                                    if k_ > 0:
                                        new_facts.append(X - ren(sl) - Lin.const(k_))
                        if nd is not None and nd.k == 'StringLiteral':
                            nl = Lin.const(nd.get('slen', 0))
                        else:
                            nl = Lin.sym(('strlen', self.strkey(nd), render(nd)))
                        # the whole match lies inside the haystack
                        new_facts.append(ren(sl) + sk - X - nl)
                        if new_region is not None and new_region.end is not None:
                            new_facts.append(new_region.end - X - nl)
                if new_region is not None and new_region.end is not None:
                    new_facts.append(new_region.end - X - Lin.const(1))
                val = None
            elif is_ptr and name and self.prog.func(name, self.func.tu) is not None and \
                    self.top.alloc_out_summary(self.prog.func(name, self.func.tu)) is not None:
                k_ = self.top.alloc_out_summary(self.prog.func(name, self.func.tu))
                reg = self.region_for_heap(r, None, ref['name'])
                new_region = reg
                new_facts += [X - reg.base, reg.base - X]
                oa = strip(r.ch[1 + k_]) if 1 + k_ < len(r.ch) else None
                if oa is not None and oa.k == 'UnaryOperator' and oa.get('op') == '&' and strip(oa.ch[0]).k == 'DeclRefExpr':
                    ov = Lin.sym(self.vsym(strip(oa.ch[0])['ref']))
                    # the variable was set by the callee just now: capacity >= its value >= 0
                    new_facts += [reg.cap - ov, ov]
                val = None
            elif is_ptr and name in ('memchr', 'memrchr') and len(r.ch) > 3:
                # a hit lies inside [src, src + n)
                src = r.ch[1]
                new_region = self.region_of(src, st)
                sl, nn = self.lin(src, st), self.lin(r.ch[3], st)
                if sl is not None:
                    new_facts.append(X - ren(sl))
                    if nn is not None:
                        new_facts.append(ren(sl) + ren(nn) - X - Lin.const(1))
                val = None
            elif is_ptr and self.top.ptr_summary(self.func, r) is not None:
                k = self.top.ptr_summary(self.func, r)
                src = r.ch[1 + k]
                new_region = self.region_of(src, st)
                sl = self.lin(src, st)
                if sl is not None:
                    new_facts.append(X - ren(sl))
                    if self.top.ptr_identity(self.func, r) is not None:
                        new_facts.append(ren(sl) - X)
                if new_region is not None:
                    if new_region.end is not None:
                        new_facts.append(new_region.end - X)
                    elif new_region.cap is not None:
                        new_facts.append(new_region.base + new_region.cap - X - Lin.const(1))
                val = None
            elif is_ptr and (name in ('getenv',) or (name and (r.get('ct') or '').replace('const', '').strip() in ('char *',))):
                reg = self.region_for_opaque_string(r)
                new_region = reg
                new_facts += [X - reg.base, reg.base - X]
                # end(R) is by definition the terminator of the string as returned
                sl0 = Lin.sym(('strlen', ('decl', vid), ref['name']))
                new_facts += [reg.end - X - sl0, X + sl0 - reg.end]
                tfn = self.prog.func(name, self.func.tu) if name else None
                if tfn is not None:
                    # a program function that returns a fresh string no longer than one of its arguments (a copy of a line)
                    for ai in self.top.str_ret_summary(tfn):
                        if ai + 1 < len(r.ch):
                            sa = strip(r.ch[ai + 1])
                            if sa is not None and not (sa.k == 'DeclRefExpr' and sa['ref'].get('id') == vid):
                                new_facts.append(Lin.sym(('strlen', self.strkey(sa), render(sa))) - sl0)
                val = None
            elif not is_ptr:
                rf = self.call_result_facts(st, r, X)
                if rf is not None:
                    new_facts += [ren(f) if False else f for f in rf]
                    val = None
        if val is not None:
            v2 = ren(val)
            new_facts += [X - v2, v2 - X]
        if is_ptr and r is not None and r.k == 'DeclRefExpr' and r['ref'].get('kind') in ('var', 'parm') and \
                r['ref'].get('id') != vid and not (r.get('ct') or '').rstrip().endswith(']'):
            # p = q: the two name the same string from here on
            sl_new = Lin.sym(('strlen', ('decl', vid), ref['name']))
            sl_old = Lin.sym(('strlen', ('decl', r['ref']['id']), r['ref']['name']))
            new_facts += [sl_new - sl_old, sl_old - sl_new]
        # rename the old value, drop strlen(x), add, project
        pr_s = lambda q: q[0] == 'strlen' and q[1] == ('decl', vid)
        facts0 = self.project(self.saturate(st, pr_s), pr_s)
        renamed = frozenset(ren(f) for f in facts0)
        facts = renamed
        for f in new_facts:
            facts = self.add(facts, f)
        facts = self.project(facts, lambda q: q == tmp)
        regions = frozenset((v, k2) for v, k2 in st.regions if v != vid and not (isinstance(v, tuple) and vid in v[1:]))
        if new_region is not None:
            regions = regions | {(vid, new_region.key)}
        if prefix_mark and '\\' not in prefix_mark:
            regions = regions | {(('prefix', vid), prefix_mark)}
        cr = self._char_read(rhs) if not is_ptr else None
        if cr is not None:
            # c = *p / c = p[0]: a later test of c says something about the string at p (until c or p changes, or the
            # string is written to)
            pn = strip(cr.ch[0])
            first = cr.k == 'UnaryOperator' or strip(cr.ch[1]).get('v') == 0
            if first and pn is not None and pn.k == 'DeclRefExpr' and pn['ref'].get('kind') in ('var', 'parm') and \
                    pn['ref']['id'] != vid and is_ptr_ct(pn.get('ct')):
                regions = regions | {(('charof', vid, pn['ref']['id']), cr.id)}
        return State(facts, regions)

    def call_result_facts(self, st, call, res):
        """facts (Lin >= 0) about the integer result `res` of a call"""
        name = call.get('callee')
        args = call.ch[1:]
        if name in ('fread', 'fwrite') and len(args) >= 3:
            n = self.lin(args[2], st)
            return [res] + ([n - res] if n is not None else [])
        if name in ('read', 'readlink', 'recv') and len(args) >= 3:
            n = self.lin(args[2], st)
            return [res + Lin.const(1)] + ([n - res] if n is not None else [])
        if name in ('ftell', 'ftello', 'lseek', 'fileno', 'open', 'socket'):
            return [res + Lin.const(1)]
        if name == 'strftime' and len(args) >= 2:
            n = self.lin(args[1], st)
            return [res] + ([n - res - Lin.const(1)] if n is not None else [])
        if name in ('snprintf', 'sprintf', 'vsnprintf'):
            out = [res]
            cf = fmt.call_format(call)
            binds = fmt.variadic_bindings(call)
            if cf is not None and cf[2] is not None and len(cf[2]) == 1 and cf[2][0][0] == 'conv' and \
                    cf[2][0][1]['conv'] == 's' and not cf[2][0][1]['prec'] and not cf[2][0][1]['width'] and binds:
                s0 = strip(binds[0][0])
                sl = Lin.sym(('strlen', self.strkey(s0), render(s0)))
                out += [res - sl, sl - res]
            elif cf is not None and cf[2] is not None and all(t[0] == 'lit' for t in cf[2]):
                ln = sum(len(t[1]) for t in cf[2])
                out += [res - Lin.const(ln), Lin.const(ln) - res]
            return out
        if name in ('strlen', '__builtin_strlen'):
            return None
        if name in ('strnlen', '__strnlen') and len(args) >= 2:
            out = [res]
            n = self.lin(args[1], st)
            if n is not None:
                out.append(n - res)
            a = self.lin(args[0], st)
            reg = self.region_of(args[0], st)
            if a is not None and reg is not None and reg.end is not None:
                out.append(reg.end - a - res)
            s0 = strip(args[0])
            if s0 is not None and s0.k == 'DeclRefExpr':
                out.append(Lin.sym(('strlen', self.strkey(s0), render(s0))) - res)
            return out
        if name in ('strspn', 'strcspn') and args:
            # the span ends at the terminator at the latest: arg + result <= end of the string arg points into
            out = [res]
            a = self.lin(args[0], st)
            reg = self.region_of(args[0], st)
            if a is not None and reg is not None:
                if reg.end is not None:
                    out.append(reg.end - a - res)
                elif reg.cap is not None:
                    out.append(reg.base + reg.cap - a - res - Lin.const(1))
            s0 = strip(args[0])
            if s0 is not None and s0.k == 'DeclRefExpr':
                out.append(Lin.sym(('strlen', self.strkey(s0), render(s0))) - res)
            return out
        t = self.prog.func(name, self.func.tu) if name else None
        if t is not None:
            out = [res] if self.top.nonneg_result(t) else []
            for sm in self.top.int_ret_summary(t):
                if sm[0] == 'le_strlen' and sm[1] < len(args):
                    a = self.lin(args[sm[1]], st)
                    reg = self.region_of(args[sm[1]], st)
                    if a is not None and reg is not None:
                        if reg.end is not None:
                            out.append(reg.end - a - res)
                        elif reg.cap is not None:
                            out.append(reg.base + reg.cap - a - res - Lin.const(1))
                elif sm[0] == 'le_param' and sm[1] < len(args):
                    a = self.lin(args[sm[1]], st)
                    if a is not None:
                        out.append(a + Lin.const(sm[2]) - res)
            return out or None
        return None

    def transfer(self, st, e):
        k = e.k
        qs = self.queries.get(e.id) if self.queries else None
        if qs:
            for name, fn in qs:
                ok, detail = fn(self, st)
                self.oblige('query', e, name, ok, detail)
        if k == 'DeclStmt':
            for d in e['decls']:
                ref = {'id': d['id'], 'name': d['name'], 'kind': 'var'}
                if d.get('init', -1) != -1:
                    init = self.func.nodes[d['init']]
                    if (d.get('ct') or '').rstrip().endswith(']'):
                        continue
                    st = self.assign_var(st, ref, init, e)
                    self._note_ptr_def(st, ref, init)
                    st = self._retire_inlined(st, init)
                else:
                    st = self.kill_var(st, d['id'])
            return st
        if k == 'BinaryOperator' and e['op'] == '=':
            l = strip(e.ch[0])
            if l.k == 'DeclRefExpr' and l['ref']['kind'] in ('var', 'parm'):
                st = self.assign_var(st, l['ref'], e.ch[1], e)
                self._note_ptr_def(st, l['ref'], e.ch[1])
                return self._retire_inlined(st, e.ch[1])
            return self.store(st, e, l)
        if k == 'CompoundAssignOperator':
            l = strip(e.ch[0])
            if l.k == 'DeclRefExpr' and l['ref']['kind'] in ('var', 'parm'):
                op = e['op']
                r = self.lin(e.ch[1], st)
                sym = self.vsym(l['ref'])
                rc = strip(e.ch[1])
                if rc is not None and rc.k == 'CallExpr' and op == '+=':
                    tmp = Lin.sym(('opaque', rc.id))
                    rf = self.call_result_facts(st, rc, tmp)
                    if rf:
                        st = State(self.add(st.facts, *rf), st.regions)
                        r = tmp
                if op in ('+=', '-=') and r is not None and sym not in r.t:
                    if is_ptr_ct(l.get('ct')):
                        r = r.scale(self.elem_size(l))
                    delta = r if op == '+=' else -r
                    new = set()
                    for f in st.facts:
                        c = f.t.get(sym, 0)
                        if c != 0:
                            f = f - delta.scale(c)
                        new.add(f)
                    facts = self.project(frozenset(new), lambda s: s[0] == 'strlen' and s[1] == ('decl', l['ref']['id']))
                    vid_ = l['ref']['id']
                    return State(facts, frozenset((v, k2) for v, k2 in st.regions if not (isinstance(v, tuple) and vid_ in v[1:])))
                return self.kill_var(st, l['ref']['id'])
            return self.store(st, e, l)
        if k == 'UnaryOperator' and e['op'] in ('++', '--'):
            l = strip(e.ch[0])
            if l.k == 'DeclRefExpr' and l['ref']['kind'] in ('var', 'parm'):
                sym = self.vsym(l['ref'])
                step = self.elem_size(l) if is_ptr_ct(l.get('ct')) else 1
                delta = Lin.const(step if e['op'] == '++' else -step)
                new = set()
                for f in st.facts:
                    c = f.t.get(sym, 0)
                    if c != 0:
                        f = f - delta.scale(c)
                    new.add(f)
                facts = self.project(frozenset(new), lambda s: s[0] == 'strlen' and s[1] == ('decl', l['ref']['id']))
                vid_ = l['ref']['id']
                return State(facts, frozenset((v, k2) for v, k2 in st.regions if not (isinstance(v, tuple) and vid_ in v[1:])))
            return self.store(st, e, l)
        if k == 'CallExpr':
            st = self.call(st, e)
            if e.get('callee') in ('strspn', 'strcspn', 'strnlen', 'snprintf', 'strftime', 'read', 'fread') or (
                    e.get('callee') and not is_ptr_ct(e.get('ct')) and self.prog.func(e.get('callee'), self.func.tu) is not None):
                # the span as a value inside a larger expression (p + strcspn(p, ..), buf[strcspn(buf, ..)]): the call's
                # own symbol carries the result facts (it is evaluated anew on every visit: forget the previous ones)
                sym = ('opaque', e.id)
                facts = self.project(st.facts, lambda q: q == sym)
                rf = self.call_result_facts(State(facts, st.regions), e, Lin.sym(sym))
                for f in rf or ():
                    facts = self.add(facts, f)
                st = State(facts, st.regions)
            return st
        if k == 'ImplicitCastExpr' and e.get('cast') == 'LValueToRValue' and self.top.check_reads:
            self.read(st, e)
            return st
        if k == 'BinaryOperator' and e.get('op') in ('&', '>>', '%') and len(e.ch) == 2:
            # x & K, x % K and (unsigned char) x >> k have a small range whatever x is: the node's own symbol carries it
            hi = None
            l_, r_ = strip(e.ch[0]), strip(e.ch[1])
            if e['op'] == '&':
                ks = [x.get('v') for x in (l_, r_) if x is not None and x.get('v') is not None and x.get('v') >= 0]
                hi = min(ks) if ks else None
            elif e['op'] == '%' and r_ is not None and (r_.get('v') or 0) > 0 and is_unsigned(l_.get('ct') if l_ is not None else ''):
                hi = r_['v'] - 1
            elif e['op'] == '>>' and r_ is not None and r_.get('v') is not None and 0 <= r_['v'] < 8 and l_ is not None and \
                    (l_.get('ct') or '').strip() in ('unsigned char', 'uint8_t'):
                hi = 255 >> r_['v']
            if hi is not None:
                sym = ('opaque', e.id)
                facts = self.project(st.facts, lambda q: q == sym)
                facts = self.add(facts, Lin.sym(sym), Lin.const(hi) - Lin.sym(sym))
                return State(facts, st.regions)
            return st
        if k == 'ReturnStmt' and e.ch:
            if getattr(self, 'collect_ret_states', None) is not None:
                self.collect_ret_states.append((st, self.lin(e.ch[0], st)))
                if getattr(self, 'collect_ret_nodes', None) is not None:
                    self.collect_ret_nodes.append(e.ch[0])
            if self.collect_returns is not None:
                v = self.lin(e.ch[0], st)
                self.collect_returns.append(v is not None and self.entails(st, v))
            if self.collect_ptr_returns is not None and not (strip(e.ch[0]).get('null') or e.ch[0].get('null')
                                                              or strip(e.ch[0]).get('v') == 0):
                v = self.lin(e.ch[0], st)
                reg = self.region_of(e.ch[0], st)
                idx = None
                if v is not None and reg is not None and reg.key[0] == 'param' and reg.end is not None:
                    for i, p in enumerate(self.func.params):
                        if p['id'] == reg.key[1]:
                            if self.entails(st, v - reg.base) and self.entails(st, reg.end - v):
                                idx = (i, self.entails(st, reg.base - v))
                rv = strip(e.ch[0])
                if idx is None and rv is not None and rv.k == 'DeclRefExpr' and rv['ref'].get('kind') == 'var' and \
                        self._only_plainly_assigned(rv['ref']['id']):
                    idx = ('var', rv['ref']['id'])      # a result variable: judged at each of its definitions
                self.collect_ptr_returns.append(idx)
            return st
        return st

    def _retire_inlined(self, st, rhs):
        """in an inlined view, `x = __ret_helper` is the last use of everything the spliced helper body declared (its
        parameter copies, its locals, its result): eliminate those symbols, which turns the chain of equalities
        through them into direct facts about the caller's own variables"""
        r = strip(rhs)
        if r is None or r.k != 'DeclRefExpr' or not str(r['ref'].get('name', '')).startswith('__ret_'):
            return st
        base = _INLINE_DECL_BASE
        dead = lambda q: q[0] == 'opaque' or (q[0] == 'var' and isinstance(q[1], int) and q[1] >= base) or \
            (q[0] == 'strlen' and isinstance(q[1], tuple) and q[1][0] == 'decl' and isinstance(q[1][1], int) and q[1][1] >= base)
        if not any(dead(q) for f in st.facts for q in f.t):
            return st
        facts = self.project(self.saturate(st, dead), dead)
        regions = frozenset((v, k) for v, k in st.regions if not (isinstance(v, int) and v >= base) and
                            not (isinstance(v, tuple) and any(isinstance(z, int) and z >= base for z in v[1:])))
        return State(facts, regions)

    def _in_param_string(self, st, v, reg):
        """(param index, is exactly the param) when v provably lies within [param, end of its string]"""
        if v is not None and reg is not None and reg.key[0] == 'param' and reg.end is not None:
            for i, p in enumerate(self.func.params):
                if p['id'] == reg.key[1]:
                    if self.entails(st, v - reg.base) and self.entails(st, reg.end - v):
                        return (i, self.entails(st, reg.base - v))
        return None

    def _only_plainly_assigned(self, vid):
        """a local that is written only by its initialiser and by plain `=`, and whose address is never taken"""
        if not any(d['id'] == vid for d in self.func.local_decls()):
            return False
        for n in self.func.body.walk():
            if (n.k == 'UnaryOperator' and n.get('op') in ('&', '++', '--')) or n.k == 'CompoundAssignOperator':
                t = strip(n.ch[0])
                if t is not None and t.k == 'DeclRefExpr' and t['ref'].get('id') == vid:
                    return False
        return True

    def _note_ptr_def(self, st, ref, rhs):
        """while summarising a pointer-returning function: what each definition of a local pointer puts into it"""
        if self.collect_ptr_returns is None or not is_ptr_ct(self.var_types.get(ref['id'], '')):
            return
        r = strip(rhs)
        if r is not None and (r.get('null') or rhs.get('null') or r.get('v') == 0):
            what = 'null'
        else:
            rk = next((k_ for v_, k_ in st.regions if v_ == ref['id']), None)
            what = self._in_param_string(st, Lin.sym(self.vsym(ref)), self.regions.get(rk) if rk is not None else None)
        if not hasattr(self, 'ptr_defs'):
            self.ptr_defs = {}
        self.ptr_defs.setdefault(ref['id'], []).append(what)

    def read(self, st, e):
        """load through a subscript / dereference of a character object whose extent is known"""
        l = e.ch[0]
        while l is not None and l.k == 'ParenExpr':
            l = l.ch[0]
        if l is None:
            return
        if l.k == 'ArraySubscriptExpr':
            base, idx = l.ch[0], l.ch[1]
        elif l.k == 'UnaryOperator' and l.get('op') == '*':
            base, idx = l.ch[0], None
        else:
            return
        es = self.elem_size(base)
        if es != 1:
            return
        reg = self.region_of(base, st)
        if reg is None or (reg.cap is None and reg.end is None):
            return
        b = self.lin(base, st)
        i = self.lin(idx, st) if idx is not None else Lin.const(0)
        text = 'read %s' % render(l)[:50]
        if b is None or i is None:
            self.oblige('read', e, text, False, 'cannot express the index of %s' % render(l))
            return
        a = b + i
        goals = []
        if reg.end is not None:
            goals.append((reg.end - a, 'up to the terminator of %s' % reg.name))
        if reg.cap is not None:
            goals.append((reg.base + reg.cap - a - Lin.const(1), 'capacity(%s) = %s' % (reg.name, reg.cap)))
        low = self.entails(st, a - reg.base)
        for g, why in goals:
            if low and self.entails(st, g):
                self.oblige('read', e, text, True, '', how='%s: offset %s in range' % (why, a - reg.base))
                return
        self.oblige('read', e, text, False, 'cannot prove offset %s of %s is within %s%s' % (
            a - reg.base, render(base), goals[0][1], '' if low else ' (or non-negative)'))

    def check_read(self, st, node, src, nbytes, what):
        """reading nbytes starting at pointer expression src stays inside src's object (a string may be
        read up to and including its terminator)"""
        reg = self.region_of(src, st)
        if reg is None or (reg.cap is None and reg.end is None):
            return          # object unknown to the analysis: not an obligation (see not_decided)
        a = self.lin(src, st)
        if a is None or nbytes is None:
            self.oblige('read', node, what, False, 'cannot express the source or the byte count of %s' % render(node)[:80])
            return
        goals = []
        if reg.end is not None:
            goals.append((reg.end + Lin.const(1) - a - nbytes, 'the string in %s including its terminator' % reg.name))
        if reg.cap is not None:
            goals.append((reg.base + reg.cap - a - nbytes, 'capacity(%s) = %s' % (reg.name, reg.cap)))
        if not nbytes.is_const() and not self.entails(st, nbytes):
            if any(self.entails(st, g, extra=[nbytes]) for g, why in goals):
                self.oblige('read', node, what, False, 'the byte count %s can be negative, i.e. wraps around to a huge count' % nbytes)
                return
        for g, why in goals:
            if self.entails(st, g) and self.entails(st, a - reg.base):
                self.oblige('read', node, what, True, '', how='%s: %s >= 0 entailed' % (why, g))
                return
        g, why = goals[0]
        self.oblige('read', node, what, False, 'cannot prove that %s bytes from offset %s lie within %s: need %s >= 0 '
                    '(a length reported by someone else, e.g. a would-be length returned by snprintf, is not the '
                    'length of what is in the buffer)' % (nbytes, a - reg.base, why, g))

    def store(self, st, e, l):
        """store through a subscript / dereference"""
        if l.k == 'ArraySubscriptExpr':
            base, idx = l.ch[0], l.ch[1]
            b, i = self.lin(base, st), self.lin(idx, st)
            es = self.elem_size(base)
            reg = self.region_of(base, st)
            self.top.sinks += 0
            text = 'store %s' % render(l)[:50]
            if b is None or i is None:
                self.oblige('write', e, text, False, 'cannot express the index of %s' % render(l))
            elif reg is None:
                self.oblige('write', e, text, False, 'unknown destination object for %s' % render(l))
            else:
                a = b + i.scale(es)
                goals = []
                if reg.cap is not None:
                    goals.append((reg.base + reg.cap - a - Lin.const(es), 'capacity(%s) = %s' % (reg.name, reg.cap)))
                if reg.end is not None:
                    goals.append((reg.end + Lin.const(1) - a - Lin.const(es), 'inside the existing string of %s' % reg.name))
                ok = False
                for g, why in goals:
                    if self.entails(st, g) and self.entails(st, a - reg.base):
                        self.oblige('write', e, text, True, '', how='%s: index %s in range' % (why, i))
                        ok = True
                        break
                if not ok:
                    g = goals[0][0] if goals else None
                    low = self.entails(st, a - reg.base) if goals else False
                    self.oblige('write', e, text, False,
                                'cannot prove index %s of %s is within %s%s' % (
                                    i, render(base), goals[0][1] if goals else 'an object of unknown capacity',
                                    '' if low else ' (or non-negative)'))
            st2 = self.kill_strlen_of_region(st, reg)
            sb = strip(base)
            if es == 1 and i is not None and strip(e.ch[1]) is not None and strip(e.ch[1]).get('v') == 0 and \
                    sb is not None and sb.k == 'DeclRefExpr' and sb['ref'].get('kind') in ('var', 'parm') and \
                    not any(q[0] == 'strlen' for q in i.t) and self.entails(st, i):
                # buf[i] = 0: whatever the string was, it now ends at i at the latest
                sl = Lin.sym(('strlen', self.strkey(sb), render(sb)))
                st2 = State(self.add(st2.facts, i - sl), st2.regions)
            return st2
        if l.k == 'UnaryOperator' and l['op'] == '*':
            reg = self.region_of(l.ch[0], st)
            if (l.ch[0].get('ct') or '').replace(' ', '') in ('char**', 'char***', 'void**', 'constchar**'):
                # *out = value through an out-parameter: one pointer-sized object provided by the caller
                return st
            pr = decl_of(l.ch[0])
            if pr is not None and pr['kind'] == 'parm' and not any(
                    k2 != 'decl' for k2, _ in def_sites(self.func, pr['id'])):
                # *param = value with the parameter never modified: the caller provides at least one
                # object of the pointed-to type (out-parameter contract)
                self.oblige('write', e, 'store *%s' % render(l.ch[0])[:40], True, '',
                            how='offset-0 store through an unmodified pointer parameter')
                st = self.kill_strlen_of_region(st, reg)
                if is_int_type((l.get('ct') or '')):
                    # remember what the out-parameter holds (summaries of "allocate and report the size" helpers)
                    osym = ('outv', pr['id'], '*' + pr['name'])
                    facts = self.project(st.facts, lambda q: q == osym)
                    v = self.lin(e.ch[1], st)
                    if v is not None and osym not in v.t:
                        facts = self.eq(facts, Lin.sym(osym), v)
                    st = State(facts, st.regions)
                return st
            if pr is not None and pr['kind'] == 'var' and self._holds_addresses_of_whole_objects(pr, l.ch[0]):
                # *p = value with p only ever holding &object of p's own pointee type (a link pointer chosen between
                # &list->first and &node->next): the store covers exactly that object
                self.oblige('write', e, 'store *%s' % render(l.ch[0])[:40], True, '',
                            how='the pointer only holds addresses of whole objects of its pointee type')
                return self.kill_strlen_of_region(st, reg)
            if self._from_table_of_addresses(l.ch[0]):
                self.oblige('write', e, 'store *%s' % render(l.ch[0])[:40], True, '',
                            how='the pointer is read from a local table whose rows hold addresses of whole objects of its pointee type')
                return self.kill_strlen_of_region(st, reg)
            self.check_write(st, e, l.ch[0], Lin.const(self.elem_size(l.ch[0])), 'store *%s' % render(l.ch[0])[:40])
            return self.kill_strlen_of_region(st, reg)
        if l.k == 'MemberExpr':
            # field assigned: forget facts about it
            text = render(l)
            return State(self.project(st.facts, lambda s: s[0] == 'field' and s[1] == text), st.regions)
        return st

    def _from_table_of_addresses(self, use):
        """*(table[i].field) with `table` a local array of structs whose initialiser puts `&object` (of the pointee type)
        into that field of every row, and which is never written afterwards"""
        u = strip(use)
        if u is None or u.k != 'MemberExpr' or u.get('arrow'):
            return False
        b = strip(u.ch[0])
        if b is None or b.k != 'ArraySubscriptExpr':
            return False
        t = strip(b.ch[0])
        if t is None or t.k != 'DeclRefExpr' or t['ref'].get('kind') != 'var':
            return False
        pt = (u.get('ct') or '').strip()
        for q in ('const', 'restrict', '__restrict'):
            if pt.endswith(q):
                pt = pt[:-len(q)].rstrip()
        if not pt.endswith('*') or 'char' in pt:
            return False
        want = pt[:-1].strip()
        decl = next((x for x in self.func.local_decls() if x['id'] == t['ref']['id']), None)
        if decl is None or decl.get('init', -1) == -1 or not decl.get('const'):
            return False
        init = strip(self.func.nodes[decl['init']])
        if init is None or init.k != 'InitListExpr':
            return False
        # no store into the table after its initialisation
        for m in self.func.body.walk():
            if m.k in ('BinaryOperator', 'CompoundAssignOperator') and (m.get('op') == '=' or m.k == 'CompoundAssignOperator'):
                loc = strip(m.ch[0])
                while loc is not None and ((loc.k == 'MemberExpr' and not loc.get('arrow')) or loc.k == 'ArraySubscriptExpr'):
                    loc = strip(loc.ch[0])
                if loc is not None and loc.k == 'DeclRefExpr' and loc['ref'].get('id') == t['ref']['id']:
                    return False
        rows = [strip(r) for r in init.ch if r is not None]
        if not rows:
            return False
        fname = u.get('member')
        for r in rows:
            if r is None or r.k != 'InitListExpr':
                return False
            hit = False
            for x in r.ch:
                sx = strip(x) if x is not None else None
                if sx is not None and sx.k == 'UnaryOperator' and sx.get('op') == '&':
                    tt = strip(sx.ch[0])
                    if tt is not None and (tt.get('ct') or '').strip() == want:
                        hit = True
            if not hit:
                return False
        return bool(fname)

    def _holds_addresses_of_whole_objects(self, d, use):
        pt = (use.get('ct') or '').strip()
        if not pt.endswith('*') or 'char' in pt.replace('char *', '').replace('char*', '') and pt.count('*') == 1:
            return False
        want = pt[:-1].strip()
        if want in ('char', 'const char', 'void', 'unsigned char', 'signed char'):
            return False
        defs = def_exprs(self.func, d['id'])
        if not defs or any(k2 not in ('decl', 'assign') or n2.k == 'CompoundAssignOperator' for k2, n2 in def_sites(self.func, d['id'])):
            return False

        def ok(x):
            x = strip(x)
            if x is None:
                return False
            if x.k == 'ConditionalOperator':
                return ok(x.ch[1]) and ok(x.ch[2])
            if x.k == 'UnaryOperator' and x.get('op') == '&':
                t = strip(x.ch[0])
                return t is not None and t.k in ('MemberExpr', 'DeclRefExpr') and \
                    (t.get('ct') or '').strip() == want and not (t.get('ct') or '').rstrip().endswith(']')
            return False
        return all(ok(x) for x in defs)

    def call(self, st, e):
        name = e.get('callee')
        args = e.ch[1:]
        if name in SIZED_WRITERS:
            di, si = SIZED_WRITERS[name]
            if di < len(args) and si < len(args):
                n = self.lin(args[si], st)
                if name in ('getpwuid_r', 'getgrgid_r'):
                    pass
                text_ = '%s(%s, %s)' % (name, render(args[di])[:30], render(args[si])[:30])
                szn = strip(args[si])
                dd = decl_of(args[di])
                whole_object = False
                if szn is not None and szn.k == 'UnaryExprOrTypeTraitExpr' and szn.get('trait') in (None, 'sizeof') and dd is not None \
                        and strip(args[di]).k == 'DeclRefExpr' and szn.ch:
                    op = strip(szn.ch[0])
                    if op is not None and ((op.k == 'UnaryOperator' and op.get('op') == '*') or
                                           (op.k == 'ArraySubscriptExpr' and strip(op.ch[1]).get('v') == 0)) and \
                            (decl_of(op.ch[0]) or {}).get('id') == dd['id'] and \
                            not any(k2 != 'decl' for k2, _ in def_sites(self.func, dd['id'])):
                        whole_object = True
                if whole_object:
                    # writer(p, sizeof(*p)) through a never-modified pointer: exactly the object p points to
                    self.oblige('write', e, text_, True, '', how='the size is sizeof(*%s): the object the pointer stands for' % dd['name'])
                else:
                    self.check_write(st, e, args[di], n, text_)
                reg = self.region_of(args[di], st)
                st = self.kill_strlen_of_region(st, reg)
                # facts about the destination after a terminating writer
                if name in ('snprintf', 'vsnprintf'):
                    d = decl_of(args[di])
                    if d is not None and n is not None:
                        sl = Lin.sym(('strlen', ('decl', d['id']), d['name']))
                        facts = self.add(st.facts, n - sl - Lin.const(1)) if not n.is_const() or n.c >= 1 else st.facts
                        binds = fmt.variadic_bindings(e)
                        cf = fmt.call_format(e)
                        if cf is not None and cf[2] is not None and len(cf[2]) == 1 and cf[2][0][0] == 'conv' \
                                and cf[2][0][1]['conv'] == 's' and not cf[2][0][1]['prec'] and binds:
                            # snprintf(d, n, "%s", src): strlen(d) <= strlen(src)
                            s0 = strip(binds[0][0])
                            ssym = Lin.sym(('strlen', self.strkey(s0), render(s0)))
                            facts = self.add(facts, ssym - sl)
                        st = State(facts, st.regions)
            return self.clobber_addr_args(st, e, skip={di})
        if name in ('strncat', '__builtin_strncat') and len(args) >= 3:
            # appends at most n characters AND a terminator behind the existing string
            d0 = strip(args[0])
            n = self.lin(args[2], st)
            a = self.lin(args[0], st)
            reg = self.region_of(args[0], st)
            dl = Lin.sym(('strlen', self.strkey(d0), render(d0)))
            text = 'strncat(%s, %s)' % (render(args[0])[:30], render(args[2])[:30])
            if a is None or n is None or reg is None or reg.cap is None:
                self.oblige('write', e, text, False, 'cannot express destination, count or capacity of %s' % render(e)[:60])
            elif not n.is_const() and not self.entails(st, n):
                self.oblige('write', e, text, False, 'the count %s can be negative (wraps around)' % n)
            else:
                g = reg.base + reg.cap - a - dl - n - Lin.const(1)
                ok = self.entails(st, g)
                self.oblige('write', e, text, ok,
                            '' if ok else 'strncat writes up to n characters plus a terminator: need strlen(dest) + %s + 1 <= '
                            'capacity, i.e. %s >= 0 (a count of "capacity - strlen(dest)" is one too many)' % (n, g),
                            how='strlen(dest) + n + 1 <= capacity entailed')
            return self.clobber_addr_args(self.kill_strlen_of_region(st, reg), e, skip={0})
        if name in UNBOUNDED_WRITERS:
            di, si = UNBOUNDED_WRITERS[name]
            if di < len(args):
                if si is None:
                    cf = fmt.call_format(e) if name in fmt.PRINTF_FAMILY else None
                    self.oblige('write', e, '%s(%s)' % (name, render(args[di])[:30]), False,
                                '%s has no size bound at all' % name)
                else:
                    s0 = strip(args[si])
                    if s0 is not None and s0.k == 'StringLiteral':
                        n = Lin.const(s0.get('slen', 0) + 1)
                    else:
                        n = Lin.sym(('strlen', self.strkey(s0), render(s0))) + Lin.const(1)
                    dst = args[di]
                    if name == 'strcat':
                        d0 = strip(dst)
                        if d0.k == 'UnaryOperator' and d0['op'] == '&' and strip(d0.ch[0]).k == 'ArraySubscriptExpr':
                            # strcat(&dest[len], src) with len == strlen(dest): appends at the terminator
                            self.check_write(st, e, dst, n, 'strcat(%s)' % render(dst)[:30])
                        else:
                            dl = Lin.sym(('strlen', self.strkey(d0), render(d0)))
                            a = self.lin(dst, st)
                            reg = self.region_of(dst, st)
                            if a is not None and reg is not None and reg.cap is not None:
                                g = reg.base + reg.cap - a - dl - n
                                ok = self.entails(st, g)
                                self.oblige('write', e, 'strcat(%s)' % render(dst)[:30], ok,
                                            '' if ok else 'cannot prove strlen(dest)+strlen(src)+1 fits: need %s >= 0' % g)
                            else:
                                self.oblige('write', e, 'strcat(%s)' % render(dst)[:30], False, 'unknown capacity')
                    else:
                        self.check_write(st, e, dst, n, '%s(%s)' % (name, render(dst)[:30]))
                reg = self.region_of(args[di], st)
                st = self.kill_strlen_of_region(st, reg)
            return self.clobber_addr_args(st, e, skip={di})
        if name in ('getline', 'getdelim') and args:
            a0 = strip(args[0])
            if a0 is not None and a0.k == 'UnaryOperator' and a0['op'] == '&':
                t0 = strip(a0.ch[0])
                if t0.k == 'DeclRefExpr':
                    vid = t0['ref']['id']
                    reg = self.region_for_opaque_string(e)
                    st = self.kill_var(st, vid)
                    facts = self.eq(st.facts, Lin.sym(self.vsym(t0['ref'])), reg.base)
                    st = State(facts, st.regions | {(vid, reg.key)})
            return self.clobber_addr_args(st, e, skip={0})
        if name == 'fread' and len(args) >= 3:
            a, b = self.lin(args[1], st), self.lin(args[2], st)
            n = None
            if a is not None and b is not None:
                n = b.scale(a.c) if a.is_const() else (a.scale(b.c) if b.is_const() else None)
            self.check_write(st, e, args[0], n, 'fread(%s)' % render(args[0])[:30])
            return self.kill_strlen_of_region(st, self.region_of(args[0], st))
        if name in SIZED_READERS and self.top.check_reads:
            si_, ni_ = SIZED_READERS[name]
            if si_ < len(args) and ni_ < len(args):
                self.check_read(st, e, args[si_], self.lin(args[ni_], st), '%s(src %s, %s)' % (
                    name, render(args[si_])[:25], render(args[ni_])[:25]))
        # contract at call sites of program functions with (buffer, size) parameter pairs
        targets = []
        if name:
            t = self.prog.func(name, self.func.tu)
            if t is not None:
                targets = [t]
        else:
            for cs in self.top.cg.callees(self.func):
                if cs.node.id == e.id:
                    targets = [t for t in cs.targets if not isinstance(t, str)]
        if name and len(targets) == 1 and targets[0].internal:
            self.record_preconditions(st, e, targets[0], args)
        floors = {}
        for t in targets:
            fl = self.top.size_floor.get(t.key)
            if fl is not None and fl[0] < len(args):
                floors[fl[0]] = max(fl[1], floors.get(fl[0], 0))
        for si, least in floors.items():
            n = self.lin(args[si], st)
            ok = n is not None and self.entails(st, n - Lin.const(least))
            self.oblige('write', e, 'floor %s(.., %s) >= %d' % (name or 'registry member', render(args[si])[:25], least), ok,
                        'cannot prove that the size handed on (%s) is at least %d: the callee is analysed under that '
                        'assumption (its own arithmetic on the size, such as size - 4, would wrap around below it)' % (
                            render(args[si])[:40], least),
                        how='every caller offers at least %d bytes' % least)
        seen_pairs = set()
        for t in targets:
            for bi, si in self.top.paired_params(t).items():
                if (bi, si) in seen_pairs or bi >= len(args) or si >= len(args):
                    continue
                seen_pairs.add((bi, si))
                n = self.lin(args[si], st)
                self.top.contract_sites += 1
                self.check_write(st, e, args[bi], n, 'contract %s(%s, %s)' % (
                    t.name if name else 'registry member', render(args[bi])[:25], render(args[si])[:25]))
        if self.top.check_reads:
            seen_r = set()
            for t in targets:
                for bi, li in self.top.read_pairs(t).items():
                    if (bi, li) in seen_r or bi >= len(args) or li >= len(args):
                        continue
                    seen_r.add((bi, li))
                    self.check_read(st, e, args[bi], self.lin(args[li], st), 'read contract %s(%s, %s)' % (
                        t.name if name else 'registry member', render(args[bi])[:25], render(args[li])[:25]))
        # writes into argument buffers invalidate strlen facts
        for t in targets:
            for bi in self.top.paired_params(t):
                if bi < len(args):
                    st = self.kill_strlen_of_region(st, self.region_of(args[bi], st))
        return self.clobber_addr_args(st, e)

    def record_preconditions(self, st, e, t, args):
        """what this call site guarantees the file-local helper t about its arguments, from a fixed menu of linear
        facts: sign of an integer argument, order/distance of two arguments of like kind, and the constant capacity
        of the object a pointer argument points to the start of.  Visits of the same site are intersected."""
        ent = lambda i: Lin.sym(('var0', t.params[i]['id'], t.params[i]['name'] + '@entry'))
        n = min(len(args), len(t.params))
        lins = [self.lin(args[i], st) if args[i] is not None else None for i in range(n)]
        isptr = [t.params[i]['ct'].rstrip().rstrip('const').rstrip().endswith('*') or '*' in t.params[i]['ct'] for i in range(n)]
        facts = set()
        caps = {}
        for i in range(n):
            if lins[i] is None:
                continue
            if not isptr[i] and is_int_type(t.params[i]['ct']):
                for c in (1, 0):
                    if self.entails(st, lins[i] - Lin.const(c)):
                        facts.add(ent(i) - Lin.const(c))
                        break
            if isptr[i]:
                reg = self.region_of(args[i], st)
                capc = None
                if reg is not None and reg.cap is not None:
                    if reg.cap.is_const():
                        capc = reg.cap.c
                    else:
                        # a heap block: its capacity is a symbol tied to the allocation size by facts
                        cands = sorted({abs(f.c) for f in st.facts if any(q in f.t for q in reg.cap.t) and len(f.t) == 1}, reverse=True)
                        capc = next((c for c in cands if self.entails(st, reg.cap - Lin.const(c))), None)
                if capc is not None:
                    off = lins[i] - reg.base
                    if off.is_const() and 0 <= off.c <= capc:
                        caps[i] = capc - off.c
                    elif self.entails(st, off) and self.entails(st, -off):
                        caps[i] = capc
            for j in range(n):
                if j == i or lins[j] is None or isptr[i] != isptr[j]:
                    continue
                if not isptr[i] and not (is_int_type(t.params[i]['ct']) and is_int_type(t.params[j]['ct'])):
                    continue
                for c in (2, 1, 0):
                    if self.entails(st, lins[i] - lins[j] - Lin.const(c)):
                        facts.add(ent(i) - ent(j) - Lin.const(c))
                        break
        # (pointer, integer) argument pairs where the integer never exceeds what is left of the pointer's object: the
        # helper may treat the integer parameter as the capacity behind the pointer parameter
        for i in range(n):
            if not isptr[i] or lins[i] is None:
                continue
            reg = self.region_of(args[i], st)
            if reg is None or reg.cap is None:
                continue
            for j in range(n):
                if j == i or isptr[j] or lins[j] is None or not is_int_type(t.params[j]['ct']):
                    continue
                if self.entails(st, reg.base + reg.cap - lins[i] - lins[j]) and self.entails(st, lins[j]):
                    caps[('pair', i)] = j if caps.get(('pair', i), j) == j else -1
        site = (self.func.key, e.id)
        d = self.top.pre_sites.setdefault(t.key, {})
        if site in d:
            of, oc = d[site]
            facts = set(of) & facts
            merged = {}
            for k, v in caps.items():
                if k not in oc:
                    continue
                if isinstance(k, tuple):
                    merged[k] = v if oc[k] == v else -1
                else:
                    merged[k] = min(v, oc[k])
            caps = merged
        d[site] = (frozenset(facts), caps)

    def clobber_addr_args(self, st, e, skip=()):
        """variables passed by address may be modified by the callee"""
        for i, a in enumerate(e.ch[1:]):
            if a is None or i in skip:
                continue
            s = strip(a)
            if s is not None and s.k == 'UnaryOperator' and s['op'] == '&':
                t = strip(s.ch[0])
                if t.k == 'DeclRefExpr' and t['ref']['kind'] in ('var', 'parm'):
                    st = self.kill_var(st, t['ref']['id'])
        return st

    # ---- branch refinement ---------------------------------------------------------------------------
    def edge(self, st, block, si):
        c = strip(block.cond) if block.cond is not None else None
        if c is None or len(block.all_succs) != 2:
            return st
        truth = (si == 0)
        facts = self.cond_facts(c, truth, st)
        mark = self.char_equal_marker(c, truth)
        if mark is not None:
            st = State(st.facts, st.regions | {mark})
        if facts is not None:
            facts = list(facts) + self.partner_char_facts(c, truth, st)
        cf = self.copied_char_facts(c, truth, st)
        if cf:
            facts = list(facts or []) + cf
        if facts is None:
            return st
        new = st.facts
        for f in facts:
            new = self.add(new, f)
        st2 = State(new, st.regions)
        # infeasible edge?
        if self.entails(st2, Lin.const(-1)):
            return None
        return st2

    def cond_facts(self, c, truth, st):
        while c is not None and c.k == 'UnaryOperator' and c['op'] == '!':
            truth = not truth
            c = strip(c.ch[0])
        if c is None:
            return None
        if c.k == 'BinaryOperator' and c['op'] in ('<', '<=', '>', '>=', '==', '!='):
            lt, rt = (c.ch[0].get('ct') or ''), (c.ch[1].get('ct') or '')
            # character tests on string contents: *p != 0  /  p[0] == '\0'
            for x, y in ((c.ch[0], c.ch[1]), (c.ch[1], c.ch[0])):
                sx = strip(x)
                yv = strip(y).get('v')
                if yv is not None and sx is not None and c['op'] in ('==', '!='):
                    ptr = None
                    if sx.k == 'UnaryOperator' and sx['op'] == '*':
                        ptr = sx.ch[0]
                    elif sx.k == 'ArraySubscriptExpr' and strip(sx.ch[1]).get('v') == 0:
                        ptr = sx.ch[0]
                    if ptr is None and sx.k == 'ArraySubscriptExpr' and 'char' in (sx.get('ct') or ''):
                        nz = ((c['op'] == '!=') == truth) if yv == 0 else ((c['op'] == '==') == truth)
                        return self.char_at_fact(sx, nz, st)
                    if ptr is not None and 'char' in (sx.get('ct') or ''):
                        if yv == 0:
                            nonzero = (c['op'] == '!=') == truth
                            return self.char_fact(ptr, nonzero, st)
                        # compared with a non-zero character: equal => the character is not the terminator
                        if (c['op'] == '==') == truth:
                            return self.char_fact(ptr, True, st)
                        return []
            # a character of the string compared by order with a constant: `s[i] >= '0'` can only hold for a character
            # that is not the terminator
            for x, y, flip in ((c.ch[0], c.ch[1], False), (c.ch[1], c.ch[0], True)):
                sx = self._char_read(x)
                yv = strip(y).get('v')
                if sx is None or yv is None or c['op'] in ('==', '!='):
                    continue
                op_ = c['op']
                if flip:
                    op_ = {'<': '>', '<=': '>=', '>': '<', '>=': '<='}[op_]
                if not truth:
                    op_ = {'<': '>=', '<=': '>', '>': '<=', '>=': '<'}[op_]
                if (op_ == '>=' and yv >= 1) or (op_ == '>' and yv >= 0):
                    if sx.k == 'ArraySubscriptExpr' and strip(sx.ch[1]).get('v') != 0:
                        return self.char_at_fact(sx, True, st)
                    return self.char_fact(sx.ch[0], True, st)
                return []
            a, b = self.lin(c.ch[0], st), self.lin(c.ch[1], st)
            if a is None or b is None:
                return None
            op = c['op']
            if not truth:
                op = {'<': '>=', '<=': '>', '>': '<=', '>=': '<', '==': '!=', '!=': '=='}[op]
            one = Lin.const(1)
            if op == '<':
                return [b - a - one]
            if op == '<=':
                return [b - a]
            if op == '>':
                return [a - b - one]
            if op == '>=':
                return [a - b]
            if op == '==':
                return [a - b, b - a]
            # a != b: tighten a one-sided bound that is already known
            if self.entails(st, a - b):
                return [a - b - one]
            if self.entails(st, b - a):
                return [b - a - one]
            return []
        # bare char test: while (*s)
        if c.k == 'UnaryOperator' and c['op'] == '*' and 'char' in (c.get('ct') or ''):
            return self.char_fact(c.ch[0], truth, st)
        if c.k == 'ArraySubscriptExpr' and strip(c.ch[1]).get('v') == 0 and 'char' in (c.get('ct') or ''):
            return self.char_fact(c.ch[0], truth, st)
        if c.k == 'ArraySubscriptExpr' and 'char' in (c.get('ct') or ''):
            return self.char_at_fact(c, truth, st)
        if c.k == 'DeclRefExpr' and is_int_type(c.get('ct')):
            a = self.lin(c, st)
            if a is not None and not truth:
                return [a, -a]
        return None

    # ---- two strings compared character by character (a hand-written strncmp) ------------------------
    def _char_read(self, n):
        n = strip(n)
        if n is None or 'char' not in (n.get('ct') or ''):
            return None
        if n.k == 'ArraySubscriptExpr' or (n.k == 'UnaryOperator' and n.get('op') == '*'):
            return n
        return None

    def char_equal_marker(self, c, truth):
        """a[i] == b[j] established on this edge: remembered until one of the variables involved changes"""
        neg = False
        while c is not None and c.k == 'UnaryOperator' and c['op'] == '!':
            neg = not neg
            c = strip(c.ch[0])
        if c is None or c.k != 'BinaryOperator' or c['op'] not in ('==', '!='):
            return None
        a, b = self._char_read(c.ch[0]), self._char_read(c.ch[1])
        if a is None or b is None:
            return None
        if ((c['op'] == '==') != neg) != truth:
            return None
        ids = sorted({x['ref']['id'] for n in (a, b) for x in n.walk() if x.k == 'DeclRefExpr' and x['ref'].get('kind') in ('var', 'parm')})
        return (('chareq',) + tuple(ids), (a.id, b.id))

    def partner_char_facts(self, c, truth, st):
        """x != NUL is learnt for a character x that was found equal to another one: the other one is not NUL either"""
        neg = False
        while c is not None and c.k == 'UnaryOperator' and c['op'] == '!':
            neg = not neg
            c = strip(c.ch[0])
        if c is None:
            return []
        x = None
        nonzero = None
        if c.k == 'BinaryOperator' and c['op'] in ('==', '!='):
            for p_, q_ in ((c.ch[0], c.ch[1]), (c.ch[1], c.ch[0])):
                if self._char_read(p_) is not None and strip(q_).get('v') is not None:
                    x = self._char_read(p_)
                    v = strip(q_)['v']
                    eq = ((c['op'] == '==') != neg) == truth
                    nonzero = (not eq) if v == 0 else (eq or None)
        elif self._char_read(c) is not None:
            x = self._char_read(c)
            nonzero = (truth != neg)
        if x is None or not nonzero:
            return []
        out = []
        for v, k in st.regions:
            if isinstance(v, tuple) and v and v[0] == 'chareq':
                for me, other in ((k[0], k[1]), (k[1], k[0])):
                    n_me = self.func.nodes.get(me)
                    if n_me is not None and render(n_me) == render(x):
                        o = self.func.nodes.get(other)
                        if o is not None and o.k == 'ArraySubscriptExpr':
                            out += self.char_at_fact(o, True, st)
                        elif o is not None:
                            out += self.char_fact(o.ch[0], True, st)
        return out

    def copied_char_facts(self, c, truth, st):
        """a test of a variable that holds a copy of *p: c == K (K not NUL), c != NUL, or plain c"""
        neg = False
        while c is not None and c.k == 'UnaryOperator' and c['op'] == '!':
            neg = not neg
            c = strip(c.ch[0])
        if c is None:
            return []
        x, nonzero = None, None
        if c.k == 'BinaryOperator' and c['op'] in ('==', '!='):
            for p_, q_ in ((c.ch[0], c.ch[1]), (c.ch[1], c.ch[0])):
                sp = strip(p_)
                if sp is not None and sp.k == 'DeclRefExpr' and strip(q_).get('v') is not None:
                    x = sp
                    v = strip(q_)['v']
                    eq = ((c['op'] == '==') != neg) == truth
                    nonzero = (not eq) if v == 0 else (eq or None)
        elif c.k == 'DeclRefExpr':
            x, nonzero = c, (truth != neg)
        if x is None or not nonzero or x['ref'].get('kind') not in ('var', 'parm'):
            return []
        out = []
        for v, k in st.regions:
            if isinstance(v, tuple) and v and v[0] == 'charof' and v[1] == x['ref']['id']:
                n = self.func.nodes.get(k)
                if n is not None:
                    out += self.char_fact(n.ch[0], True, st)
        return out

    def char_at_fact(self, sub, nonzero, st):
        """base[i] != 0 with base + i inside the string  =>  base + i + 1 <= end(region)"""
        if not nonzero:
            return []
        b, i = self.lin(sub.ch[0], st), self.lin(sub.ch[1], st)
        reg = self.region_of(sub.ch[0], st)
        if b is None or i is None or reg is None or reg.end is None:
            return []
        a = b + i
        if self.entails(st, reg.end - a) and self.entails(st, a - reg.base):
            return [reg.end - a - Lin.const(1)]
        return []

    def char_fact(self, ptr, nonzero, st):
        """*ptr != 0  =>  strlen(ptr) >= 1 and ptr + 1 <= end(region)"""
        p = self.lin(ptr, st)
        s0 = strip(ptr)
        out = []
        sl = Lin.sym(('strlen', self.strkey(s0), render(s0)))
        if nonzero:
            out.append(sl - Lin.const(1))
            reg = self.region_of(ptr, st)
            if reg is not None and reg.end is not None and p is not None:
                out.append(reg.end - p - Lin.const(1))
        else:
            out += [sl, -sl]
        return out

    def lockstep_pairs(self):
        """{(x, y): +1 | -1}: locals that are modified only by a unit step (of the same size in bytes), at one site each
        apart from plain assignments outside loops, both sites in the same basic block: +1 same direction, -1 opposite"""
        if hasattr(self, '_lockstep'):
            return self._lockstep
        self._lockstep = {}
        func = self.func
        steps = {}      # vid -> [(block id, signed byte step)] ; None when modified in another way inside a loop
        pos = C.elem_positions(func)
        for n in func.body.walk():
            t = None
            step = None
            if n.k == 'UnaryOperator' and n.get('op') in ('++', '--'):
                t = strip(n.ch[0])
                step = 1 if n['op'] == '++' else -1
            elif n.k == 'CompoundAssignOperator' and n.get('op') in ('+=', '-=') and strip(n.ch[1]).get('v') == 1:
                t = strip(n.ch[0])
                step = 1 if n['op'] == '+=' else -1
            elif n.k == 'CompoundAssignOperator' or (n.k == 'BinaryOperator' and n.get('op') == '='):
                t = strip(n.ch[0])
            elif n.k == 'UnaryOperator' and n.get('op') == '&':
                t = strip(n.ch[0])
            if t is None or t.k != 'DeclRefExpr' or t['ref'].get('kind') not in ('var', 'parm'):
                continue
            vid = t['ref']['id']
            if step is None:
                if n.k == 'UnaryOperator' or C.in_loop(func, n):
                    steps[vid] = None
                continue
            if steps.get(vid, []) is None:
                continue
            el = n if n.id in pos else C.cfg_elem_of(func, n)
            if el is None or el.id not in pos:
                steps[vid] = None
                continue
            size = self.elem_size(t) if is_ptr_ct(t.get('ct')) else 1
            steps.setdefault(vid, []).append((pos[el.id][0], step * size))
        ones = {v: l[0] for v, l in steps.items() if l is not None and len(l) == 1}
        vs = sorted(ones)
        for i, x in enumerate(vs):
            for y in vs[i + 1:]:
                (bx, sx), (by, sy) = ones[x], ones[y]
                if bx == by and abs(sx) == abs(sy) and C.in_loop(func, func.blocks[bx].elems[0]):
                    self._lockstep[(x, y)] = 1 if sx == sy else -1
        return self._lockstep

    # ---- fixpoint -------------------------------------------------------------------------------------
    def join(self, a, b):
        fa, fb = a.facts, b.facts
        keep = set(fa & fb)
        for f in fa - fb:
            if self.entails(b, f):
                keep.add(f)
        for f in fb - fa:
            if self.entails(a, f):
                keep.add(f)
        # sums of two one-sided facts (invariants such as p + n == p0 + n0 when both move in step)
        rest = [f for f in (fa | fb) - keep]
        if len(rest) <= 60:
            allf = list(fa | fb)
            tried = set()
            syms_a = syms_b = None
            for i, f in enumerate(rest):
                # the partner may be a fact that survived the join on its own (it holds on both sides with slack on one)
                for g in (rest[i + 1:] if len(rest) <= 14 else []) + [g for g in allf if g not in rest or len(rest) > 14]:
                    if g is f or set(f.t) == set(g.t):
                        continue
                    h = f + g
                    # beyond small joins only sums in which something cancels (two quantities moving in step)
                    if (len(rest) > 14 or g not in rest) and len(h.t) >= max(len(f.t), len(g.t)):
                        continue
                    if not h.t or len(h.t) > 4 or h in keep or h in tried:
                        continue
                    tried.add(h)
                    if self.entails(a, h) and self.entails(b, h):
                        keep.add(h)
                        continue
                    # the same sum without its negative terms in quantities that cannot be negative (x - n >= 0 and
                    # n >= 0 give x >= 0): weaker, and often what the two sides have in common (a separator that is
                    # present on one side only)
                    if syms_a is None:
                        syms_a = {q for x in fa for q in x.t}
                        syms_b = {q for x in fb for q in x.t}
                    # only quantities one side knows nothing about (a local of the branch that was not taken)
                    drop = [q for q, c_ in h.t.items() if c_ < 0 and q[0] == 'var' and (q not in syms_a or q not in syms_b) and
                            (q in self.unsigned_syms or is_unsigned(self.var_types.get(q[1], '')) or
                             'size_t' in self.var_types.get(q[1], ''))]
                    if drop and len(drop) < len(h.t):
                        h2 = Lin({q: c_ for q, c_ in h.t.items() if q not in drop}, h.c)
                        k2 = frozenset(h2.t.items())
                        for k in (0, 1, 2):     # and off by a small constant, as for single facts below
                            h3 = h2 + Lin.const(k)
                            if h3 in keep or h3 in tried or any(
                                    x.c <= h3.c for x in keep if len(x.t) == len(h3.t) and frozenset(x.t.items()) == k2):
                                break
                            tried.add(h3)
                            if self.entails(a, h3) and self.entails(b, h3):
                                keep.add(h3)
                                break
        # two variables that are stepped together, once each, in one basic block (`*out++ = *src++; room--;`): their
        # sum or difference is a loop invariant although nothing cancels in it
        pairs = self.lockstep_pairs()
        if pairs:
            pool = list(fa | fb)
            for f in rest:
                fv = [q for q in f.t if q[0] == 'var']
                for x in fv:
                    for (a_, b_), sign in pairs.items():
                        if x[1] != a_ and x[1] != b_:
                            continue
                        other = b_ if x[1] == a_ else a_
                        for g in pool:
                            if g is f:
                                continue
                            y = next((q for q in g.t if q[0] == 'var' and q[1] == other), None)
                            if y is None or x in g.t or y in f.t:
                                continue
                            # same direction: coefficients must be opposite; opposite direction: equal
                            if f.t[x] * sign != -g.t[y]:
                                continue
                            h = f + g
                            if len(h.t) > 5 or h in keep:
                                continue
                            if self.entails(a, h) and self.entails(b, h):
                                keep.add(h)
        # off-by-small-constant relaxations of facts that hold on one side only
        best = {}
        for f in keep:
            kf = frozenset(f.t.items())
            if kf not in best or f.c < best[kf]:
                best[kf] = f.c
        for f in (fa | fb) - keep:
            kf = frozenset(f.t.items())
            for k in (1, 2):
                g = f + Lin.const(k)
                if kf in best and best[kf] <= g.c:
                    break       # something at least as strong with the same linear part is kept already
                if g not in keep and self.entails(a, g) and self.entails(b, g):
                    keep.add(g)
                    best[kf] = g.c
                    break
            else:
                # ... or without its (negative) constant: x - y - 5 >= 0 on one side, x - y >= 0 on both
                if f.c < -2 and len(f.t) >= 2 and not (kf in best and best[kf] <= 0):
                    g = Lin(dict(f.t), 0)
                    if g not in keep and self.entails(a, g) and self.entails(b, g):
                        keep.add(g)
                        best[kf] = 0
        # sign of a variable that got different values on the two sides (a length clamped on one branch only)
        lost = set()
        for f in (fa | fb) - keep:
            lost |= {q for q in f.t if q[0] == 'var'}
        for q in sorted(lost, key=str)[:6]:
            for k in (1, 0):
                g = Lin.sym(q) - Lin.const(k)
                if g in keep:
                    break
                if self.entails(a, g) and self.entails(b, g):
                    keep.add(g)
                    break
        return State(frozenset(keep), a.regions & b.regions)

    def run(self):
        func = self.func
        init_facts = set(self.entry_facts)
        # parameters: current value == entry value
        regions = set()
        for i, p in enumerate(func.params):
            ct = p['ct']
            cur = Lin.sym(('var', p['id'], p['name']))
            ent = Lin.sym(('var0', p['id'], p['name'] + '@entry'))
            init_facts |= {cur - ent, ent - cur}
            ctp = ct.rstrip()
            for q in ('const', '__restrict', 'restrict'):
                if ctp.endswith(q):
                    ctp = ctp[:-len(q)].rstrip()
            if ctp.endswith('*') and ('char' in ct or 'void' in ct) and ct.count('*') == 1:
                reg = self.region_for_param(i)
                regions.add((p['id'], reg.key))
                if 'char' in ct:
                    sl0 = Lin.sym(('strlen', ('decl', p['id']), p['name']))
                    init_facts |= {reg.end - cur - sl0, cur + sl0 - reg.end}
        init = State(frozenset(init_facts), frozenset(regions))
        instate = {b: None for b in func.blocks}
        instate[func.entry] = init
        from collections import deque
        work = deque([func.entry])
        inq = {func.entry}
        visits = {}
        steps = 0
        while work:
            steps += 1
            if steps > 4000:
                break
            bid = work.popleft()
            inq.discard(bid)
            st = instate[bid]
            if st is None:
                continue
            b = func.blocks[bid]
            for e in b.elems:
                st = self.transfer(st, e)
            for si, (s, unr) in enumerate(b.all_succs):
                if s is None or unr:
                    continue
                out = self.edge(st, b, si)
                if out is None:
                    continue
                old = instate[s]
                if old is None:
                    new = out
                else:
                    new = self.join(old, out)
                    visits[s] = visits.get(s, 0) + 1
                    if visits[s] > 8:
                        # widening: only facts of the old state survive
                        new = State(frozenset(f for f in old.facts if f in new.facts), new.regions)
                    elif visits[s] > 3:
                        # a few more rounds in which a fact the incoming state states and the old state implies may
                        # still be adopted (an invariant found at the loop head after the body had been walked with the
                        # exact entry values); then the strict form above ends the iteration
                        new = State(frozenset(f for f in new.facts if f in old.facts or f in out.facts), new.regions)
                if new != old:
                    instate[s] = new
                    if s not in inq:
                        work.append(s)
                        inq.add(s)
        # obligations were recorded during iteration with the states of each visit; the last visits
        # use the weakest (stable) states, and a failure on any visit is kept — sound.
        return [self.obls[k] for k in self.order]
