"""A3: acquire/release pairing (typestate) on all CFG paths, with ownership
summaries across calls.

Facts (may-analysis, join = union):
  ('held', ent, kind, acq)       ent refers to a live resource acquired at node acq
  ('released', ent, kind, acq)   ent refers to a resource that was released
"""
from . import cfg as C
from .dataflow import decl_of
from .facts import render, strip
from .nullness import ent_of, ent_name
from .polarity import FAILS, NEG, NULLP, cond_outcome

ACQ_RESULT = {'malloc': 'heap', 'calloc': 'heap', 'strdup': 'heap', 'strndup': 'heap', 'realloc': 'heap',
              'fopen': 'file', 'fdopen': 'file', 'popen': 'file', 'tmpfile': 'file',
              'socket': 'fd', 'open': 'fd', 'openat': 'fd', 'creat': 'fd', 'mkstemp': 'fd', 'accept': 'fd',
              'dup': 'fd', 'opendir': 'dir'}
ACQ_OUTARG = {'getline': (0, 'heap'), 'getdelim': (0, 'heap'), 'asprintf': (0, 'heap')}
RELEASE = {'free': (0, 'heap'), 'fclose': (0, 'file'), 'pclose': (0, 'file'), 'close': (0, 'fd'),
           'closedir': (0, 'dir')}
LOCK = {'pthread_mutex_lock': 0}
UNLOCK = {'pthread_mutex_unlock': 0}
FAIL_CONV = {'heap': NULLP, 'file': NULLP, 'dir': NULLP, 'fd': NEG}


class Finding:
    def __init__(self, kind, func, node, ent, acq, detail):
        self.kind = kind
        self.func = func
        self.node = node
        self.ent = ent
        self.acq = acq
        self.detail = detail

    def key(self):
        return '%s:%s:%s' % (self.func.name, ent_name(self.func, self.ent) if self.ent else '?', self.kind)


class Pairing:
    def __init__(self, prog, cg):
        self.prog = prog
        self.cg = cg
        self._ret_owned = {}
        self._out_owned = {}
        self._captures = {}
        self._releases = {}
        self.acquisitions = 0
        self.functions = 0

    # ---- summaries --------------------------------------------------------------------
    def returns_owned(self, f):
        """kind of resource f hands to its caller through its return value, or None"""
        if f.key in self._ret_owned:
            return self._ret_owned[f.key]
        self._ret_owned[f.key] = None
        res = None
        if f.d.get('retCanon', '').endswith('*') or f.d.get('retCanon') == 'int':
            info = self.analyse(f, summary=True)
            res = info['returns_owned']
        self._ret_owned[f.key] = res
        return res

    def out_owned(self, f, idx):
        key = (f.key, idx)
        if key in self._out_owned:
            return self._out_owned[key]
        self._out_owned[key] = None
        info = self.analyse(f, summary=True)
        res = info['out_owned'].get(idx)
        self._out_owned[key] = res
        return res

    def captures(self, f, idx, depth=0):
        """f stores its parameter idx (a pointer) somewhere that outlives the call"""
        key = (f.key, idx)
        if key in self._captures:
            return self._captures[key]
        self._captures[key] = False
        res = False
        if idx < len(f.params) and depth < 5:
            pid = f.params[idx]['id']
            for n in f.body.walk():
                if n.k == 'BinaryOperator' and n['op'] == '=':
                    r = decl_of(n.ch[1])
                    if r is not None and r['id'] == pid:
                        l = strip(n.ch[0])
                        if l.k in ('MemberExpr', 'ArraySubscriptExpr') or (l.k == 'UnaryOperator' and l['op'] == '*') \
                                or (l.k == 'DeclRefExpr' and l['ref'].get('staticStorage')):
                            res = True
                        elif l.k == 'DeclRefExpr':
                            # copied into a local that is then stored/returned: approximate by
                            # checking stores of that local
                            lid = l['ref']['id']
                            for m in f.body.walk():
                                if m.k == 'BinaryOperator' and m['op'] == '=':
                                    rr = decl_of(m.ch[1])
                                    ll = strip(m.ch[0])
                                    if rr is not None and rr['id'] == lid and ll.k in ('MemberExpr',):
                                        res = True
                if n.k == 'CallExpr' and n.get('callee'):
                    t = self.prog.func(n['callee'], f.tu)
                    if t is not None:
                        for i, a in enumerate(n.ch[1:]):
                            r = decl_of(a) if a is not None else None
                            if r is not None and r['id'] == pid and self.captures(t, i, depth + 1):
                                res = True
        self._captures[key] = res
        return res

    def releases(self, f, idx):
        """f releases its parameter idx on every path: returns kind or None"""
        key = (f.key, idx)
        if key in self._releases:
            return self._releases[key]
        self._releases[key] = None
        res = None
        if idx < len(f.params):
            pid = f.params[idx]['id']
            for api, (ai, kind) in RELEASE.items():
                def pred(e, api=api, ai=ai):
                    if e.k == 'CallExpr' and e.get('callee') == api:
                        r = decl_of(e.ch[1 + ai]) if len(e.ch) > 1 + ai else None
                        return r is not None and r['id'] == pid
                    return False
                if any(pred(n) for n in f.body.walk()) and C.must_pass_through(f, pred):
                    res = kind
        self._releases[key] = res
        return res

    # ---- per-function analysis ----------------------------------------------------------
    def analyse(self, func, summary=False):
        findings = []
        seen = set()
        info = {'returns_owned': None, 'out_owned': {}, 'findings': findings, 'acquisitions': 0}
        if func.cfg_error:
            return info
        if not summary:
            self.functions += 1
        param_ids = {p['id']: i for i, p in enumerate(func.params)}
        acq_nodes = set()

        def report(kind, node, ent, acq, detail):
            k = (kind, node.id if node is not None else 0, ent, acq)
            if k in seen:
                return
            seen.add(k)
            findings.append(Finding(kind, func, node, ent, func.nodes.get(acq) if acq else None, detail))

        def acquire(st, ent, kind, node):
            acq_nodes.add(node.id)
            new = set(st)
            # overwriting a held entity loses the old resource unless an alias holds it
            for f in st:
                if f[0] == 'held' and f[1] == ent:
                    others = [g for g in st if g[0] == 'held' and g[3] == f[3] and g[1] != ent]
                    if not others and f[3] != node.id:
                        report('overwritten', node, ent, f[3],
                               '%s still holds the %s acquired at %s when it is overwritten by %s' % (
                                   ent_name(func, ent), f[2], func.nodes[f[3]].where(), render(node)))
                    new.discard(f)
                if f[0] == 'released' and f[1] == ent:
                    new.discard(f)
            new.add(('held', ent, kind, node.id))
            return frozenset(new)

        def release(st, ent, kind, node):
            new = set(st)
            held = [f for f in st if f[0] == 'held' and f[1] == ent]
            rel = [f for f in st if f[0] == 'released' and f[1] == ent]
            if rel and not held:
                report('double-release', node, ent, rel[0][3],
                       '%s was already released (acquired at %s) and is released again by %s' % (
                           ent_name(func, ent), func.nodes[rel[0][3]].where() if rel[0][3] in func.nodes else '?',
                           render(node)))
            for f in held:
                # release every alias of the same acquisition
                for g in list(new):
                    if g[0] == 'held' and g[3] == f[3]:
                        new.discard(g)
                        new.add(('released', g[1], g[2], g[3]))
            return frozenset(new)

        def escape(st, ent):
            new = set(st)
            for f in st:
                if f[0] == 'held' and f[1] == ent:
                    for g in list(new):
                        if g[0] == 'held' and g[3] == f[3]:
                            new.discard(g)
            return frozenset(new)

        def kill(st, ent, node):
            """ent is assigned a value that is not an acquisition"""
            new = set(st)
            for f in st:
                if f[1] == ent and f[0] == 'held':
                    others = [g for g in st if g[0] == 'held' and g[3] == f[3] and g[1] != ent]
                    if not others:
                        report('overwritten', node, ent, f[3],
                               '%s still holds the %s acquired at %s when it is overwritten (%s)' % (
                                   ent_name(func, ent), f[2], func.nodes[f[3]].where(), render(node)))
                    new.discard(f)
                elif f[1] == ent:
                    new.discard(f)
            return frozenset(new)

        def assign(st, tgt, rhs, node):
            r = strip(rhs)
            if r is not None and r.k == 'CallExpr':
                name = r.get('callee')
                if name in ACQ_RESULT:
                    if name == 'fdopen':
                        fe = ent_of(r.ch[1]) if len(r.ch) > 1 else None
                        if fe is not None:
                            st = escape(st, fe)
                    if name == 'realloc':
                        fe = ent_of(r.ch[1]) if len(r.ch) > 1 else None
                        if fe is not None:
                            st = escape(st, fe)
                    return acquire(st, tgt, ACQ_RESULT[name], r)
                t = self.prog.func(name, func.tu) if name else None
                if t is not None and t is not func:
                    kind = self.returns_owned(t)
                    if kind:
                        return acquire(st, tgt, kind, r)
            if r is not None and r.k == 'DeclRefExpr':
                src = ent_of(r)
                if src is not None and src != tgt:
                    st2 = kill(st, tgt, node)
                    new = set(st2)
                    for f in st2:
                        if f[1] == src:
                            new.add((f[0], tgt, f[2], f[3]))
                    return frozenset(new)
                return st
            # p = q + n  (pointer into the same object): keep nothing for tgt
            return kill(st, tgt, node)

        def transfer(st, e):
            k = e.k
            if k == 'CallExpr':
                name = e.get('callee')
                args = e.ch[1:]
                if name in RELEASE:
                    ai, kind = RELEASE[name]
                    ent = ent_of(args[ai]) if ai < len(args) else None
                    if ent is not None:
                        return release(st, ent, kind, e)
                    return st
                if name in LOCK:
                    ent = ent_of(args[0]) if args else None
                    if ent is not None:
                        acq_nodes.add(e.id)
                        return frozenset(set(st) | {('held', ent, 'lock', e.id)})
                    return st
                if name in UNLOCK:
                    ent = ent_of(args[0]) if args else None
                    if ent is not None:
                        return frozenset(f for f in st if not (f[0] == 'held' and f[1] == ent and f[2] == 'lock'))
                    return st
                if name in ACQ_OUTARG:
                    ai, kind = ACQ_OUTARG[name]
                    ent = ent_of(args[ai]) if ai < len(args) else None
                    if ent is not None:
                        # getline reuses/reallocates the buffer it is given
                        new = frozenset(f for f in st if not (f[1] == ent))
                        acq_nodes.add(e.id)
                        return frozenset(set(new) | {('held', ent, kind, e.id)})
                    return st
                t = self.prog.func(name, func.tu) if name else None
                new = st
                for i, a in enumerate(args):
                    if a is None:
                        continue
                    s = strip(a)
                    if s is not None and s.k == 'UnaryOperator' and s['op'] == '&':
                        ent = ent_of(s)
                        if ent is not None and t is not None and t is not func:
                            kind = self.out_owned(t, i)
                            if kind:
                                new = acquire(new, ent, kind, e)
                        continue
                    ent = ent_of(s) if s is not None and s.k == 'DeclRefExpr' else None
                    if ent is None:
                        continue
                    if t is not None and t is not func:
                        if self.captures(t, i):
                            new = escape(new, ent)
                        else:
                            rk = self.releases(t, i)
                            if rk:
                                new = release(new, ent, rk, e)
                return new
            if k == 'BinaryOperator' and e['op'] == '=':
                l = strip(e.ch[0])
                if l.k == 'DeclRefExpr':
                    tgt = ent_of(l)
                    if tgt is not None:
                        return assign(st, tgt, e.ch[1], e)
                    return st
                # store of a held entity into memory that outlives the function / out-parameter
                src = ent_of(e.ch[1]) if strip(e.ch[1]) is not None and strip(e.ch[1]).k == 'DeclRefExpr' else None
                if src is not None:
                    if l.k == 'UnaryOperator' and l['op'] == '*':
                        base = decl_of(l.ch[0])
                        if base is not None and base['id'] in param_ids:
                            for f in st:
                                if f[0] == 'held' and f[1] == src:
                                    info['out_owned'][param_ids[base['id']]] = f[2]
                    return escape(st, src)
                return st
            if k == 'DeclStmt':
                new = st
                for d in e['decls']:
                    if d.get('init', -1) != -1:
                        new = assign(new, ('v', d['id']), func.nodes[d['init']], e)
                return new
            if k == 'ReturnStmt' and e.ch:
                v = strip(e.ch[0])
                if v is not None and v.k == 'DeclRefExpr':
                    ent = ent_of(v)
                    if ent is not None:
                        for f in st:
                            if f[0] == 'held' and f[1] == ent:
                                info['returns_owned'] = f[2]
                        return escape(st, ent)
                if v is not None and v.k == 'CallExpr':
                    name = v.get('callee')
                    if name in ACQ_RESULT:
                        info['returns_owned'] = ACQ_RESULT[name]
                    else:
                        t = self.prog.func(name, func.tu) if name else None
                        if t is not None and t is not func and self.returns_owned(t):
                            info['returns_owned'] = self.returns_owned(t)
                return st
            return st

        stable = {}

        def stable_cond_key(c):
            """text of a condition that only reads parameters / locals that are never modified
            after their declaration and constants: its truth value cannot change between two
            evaluations on one path (correlated branches, e.g. a `mutex_already_locked` flag)."""
            if c.id in stable:
                return stable[c.id]
            ok = True
            from .dataflow import def_sites
            for n in c.walk():
                if n.k in ('CallExpr', 'MemberExpr', 'ArraySubscriptExpr'):
                    ok = False
                elif n.k == 'UnaryOperator' and n['op'] in ('*', '++', '--', '&'):
                    ok = False
                elif n.k in ('BinaryOperator', 'CompoundAssignOperator') and (n['op'] == '=' or n.k == 'CompoundAssignOperator'):
                    ok = False
                elif n.k == 'DeclRefExpr' and n['ref']['kind'] in ('var', 'parm'):
                    if n['ref'].get('staticStorage'):
                        ok = False
                    elif any(k != 'decl' for k, _ in def_sites(func, n['ref']['id'])):
                        ok = False
            key = render(c) if ok else None
            stable[c.id] = key
            return key

        def edge(st, block, si):
            cond = block.cond
            if cond is None or len(block.all_succs) != 2:
                return st
            c = strip(cond)
            new = set(st)
            ck = stable_cond_key(c)
            if ck is not None:
                truth = (si == 0)
                if ('cond', ck, not truth, 0) in st:
                    return None  # infeasible: the same condition evaluated the other way earlier
                new.add(('cond', ck, truth, 0))
            for f in st:
                if f[0] != 'held' or f[2] == 'lock':
                    continue
                conv = FAIL_CONV.get(f[2])
                ent = f[1]

                def tp(n, ent=ent, acq=f[3]):
                    if n.k == 'DeclRefExpr' and ent_of(n) == ent:
                        return True
                    if n.k == 'BinaryOperator' and n['op'] == '=' and ent_of(n.ch[0]) == ent:
                        return True
                    return False
                pol = cond_outcome(c, tp, conv)
                if pol is None:
                    continue
                fail_idx = 0 if pol == 'T' else 1
                if si == fail_idx:
                    for g in list(new):
                        if g[0] == 'held' and g[3] == f[3]:
                            new.discard(g)
            return frozenset(new)

        instates = C.forward_dataflow(func, frozenset(), transfer, lambda a, b: a | b, edge_transfer=edge)
        end = instates.get(func.exit)
        if end:
            for f in end:
                if f[0] == 'held':
                    ent = f[1]
                    node = func.nodes[f[3]]
                    if f[2] == 'lock':
                        report('lock-not-released', node, ent, f[3],
                               '%s is still locked on a path to the exit of %s' % (ent_name(func, ent), func.name))
                    elif ent[0] == 'v':
                        report('leak', node, ent, f[3],
                               'the %s acquired by %s is not released on some path to the exit of %s' % (
                                   f[2], render(node), func.name))
        info['acquisitions'] = len(acq_nodes)
        if not summary:
            self.acquisitions += len(acq_nodes)
        return info
