"""A10: no use of a heap block after its release (typestate).  Forward may-analysis per function over local
pointer variables and parameters: free(p) puts p into the released set, an assignment to p takes it out, any
read of p while it is in the set - a second free(), a return, an argument, a dereference - is reported.
Blocks released by a callee are not followed (the pairing analysis A3 owns the protocol across calls)."""
from . import cfg as C
from .dataflow import decl_of
from .facts import render, strip

RELEASE = {'free': 0, 'cfree': 0}


class Finding:
    def __init__(self, node, name, freed_at, kind):
        self.node = node
        self.name = name
        self.freed_at = freed_at
        self.kind = kind


def analyse(func):
    """(findings, number of release sites)"""
    out = []
    seen = set()
    if func.cfg_error:
        return out, 0
    sites = [0]
    counted = set()

    def var_of(e):
        s = strip(e) if e is not None else None
        if s is not None and s.k == 'DeclRefExpr' and s['ref'].get('kind') in ('var', 'parm') and \
                not (s.get('ct') or '').rstrip().endswith(']'):
            return s['ref']
        return None

    def transfer(st, e):
        if e.k == 'ImplicitCastExpr' and e.get('cast') == 'LValueToRValue':
            r = var_of(e.ch[0]) if e.ch else None
            if r is not None:
                for vid, fid in st:
                    if vid == r['id'] and (e.id, vid) not in seen:
                        seen.add((e.id, vid))
                        par = e.parent
                        while par is not None and par.k in ('ImplicitCastExpr', 'ParenExpr', 'CStyleCastExpr'):
                            par = par.parent
                        kind = 'released again' if par is not None and par.k == 'CallExpr' and par.get('callee') in RELEASE else \
                            ('returned' if par is not None and par.k == 'ReturnStmt' else 'used')
                        out.append(Finding(par if par is not None else e, r['name'], func.nodes[fid], kind))
            return st
        if e.k == 'CallExpr' and e.get('callee') in RELEASE and len(e.ch) > 1:
            r = var_of(e.ch[1 + RELEASE[e['callee']]])
            if r is not None:
                if e.id not in counted:
                    counted.add(e.id)
                    sites[0] += 1
                return frozenset({x for x in st if x[0] != r['id']} | {(r['id'], e.id)})
            return st
        if e.k == 'BinaryOperator' and e.get('op') == '=':
            r = var_of(e.ch[0])
            if r is not None:
                return frozenset(x for x in st if x[0] != r['id'])
            return st
        if e.k == 'DeclStmt':
            ids = {d['id'] for d in e['decls']}
            return frozenset(x for x in st if x[0] not in ids)
        if e.k == 'CallExpr':
            # p handed out by address may be given a new value by the callee
            new = st
            for a in e.ch[1:]:
                s = strip(a) if a is not None else None
                if s is not None and s.k == 'UnaryOperator' and s.get('op') == '&':
                    r = var_of(s.ch[0])
                    if r is not None:
                        new = frozenset(x for x in new if x[0] != r['id'])
            return new
        return st
    C.forward_dataflow(func, frozenset(), transfer, lambda a, b: a | b)
    return out, sites[0]
