"""Branch polarity: which edge of a two-way branch corresponds to failure / success
of a tested API result.  Used by pairing and protocol rules."""
from .dataflow import decl_of
from .facts import strip

# failure conventions
NEG = 'neg'        # < 0 or == -1 means failure
NONZERO = 'nz'     # != 0 means failure
NULLP = 'null'     # NULL means failure
ZERO = 'zero'      # 0 means failure (strftime, fread short count handled separately)

FAILS = {
    'mkstemp': NEG, 'open': NEG, 'creat': NEG, 'socket': NEG, 'connect': NEG, 'send': NEG, 'sendto': NEG,
    'write': NEG, 'read': NEG, 'fprintf': NEG, 'fputs': NEG, 'stat': NEG, 'fstat': NEG, 'lstat': NEG,
    'getline': NEG, 'fileno': NEG, 'dup': NEG, 'accept': NEG,
    'fflush': NONZERO, 'fsync': NONZERO, 'fdatasync': NONZERO, 'fclose': NONZERO, 'close': NONZERO,
    'rename': NONZERO, 'unlink': NONZERO, 'fchmod': NONZERO, 'chmod': NONZERO, 'fseek': NONZERO,
    'ttyname_r': NONZERO, 'getlogin_r': NONZERO, 'gethostname': NONZERO, 'gettimeofday': NONZERO,
    'getpwuid_r': NONZERO, 'getgrgid_r': NONZERO, 'pthread_mutex_lock': NONZERO, 'access': NONZERO,
    'fopen': NULLP, 'fdopen': NULLP, 'freopen': NULLP, 'malloc': NULLP, 'calloc': NULLP, 'strdup': NULLP,
    'getenv': NULLP, 'strchr': NULLP, 'strrchr': NULLP, 'strstr': NULLP, 'strtok_r': NULLP, 'fgets': NULLP,
    'getcwd': NULLP, 'localtime_r': NULLP, 'opendir': NULLP,
    'strftime': ZERO,
}


def _is(node, target_pred):
    s = strip(node)
    return s is not None and target_pred(s)


def cond_outcome(cond, target_pred, conv):
    """Given a branch condition node and a predicate recognising the tested value
    (the call node itself or a variable holding its result), return
    'T' if the TRUE edge is the failure edge, 'F' if the FALSE edge is, None if the
    condition does not test the value in a recognised way."""
    c = strip(cond)
    if c is None:
        return None
    if c.k == 'UnaryOperator' and c['op'] == '!':
        r = cond_outcome(c.ch[0], target_pred, conv)
        return {'T': 'F', 'F': 'T'}.get(r)
    if c.k == 'BinaryOperator' and c['op'] in ('==', '!=', '<', '<=', '>', '>='):
        l, r = strip(c.ch[0]), strip(c.ch[1])
        op = c['op']
        if _is(r, target_pred) and not _is(l, target_pred):
            l, r = r, l
            op = {'<': '>', '>': '<', '<=': '>=', '>=': '<=', '==': '==', '!=': '!='}[op]
        if not _is(l, target_pred):
            return None
        v = r.get('v')
        isnull = r.get('null') or (v == 0 and conv == NULLP)
        if conv == NEG:
            if (op == '==' and v == -1) or (op == '<' and v == 0) or (op == '<=' and v == -1):
                return 'T'
            if (op == '!=' and v == -1) or (op == '>=' and v == 0) or (op == '>' and v == -1):
                return 'F'
            return None
        if conv == NONZERO:
            if (op == '!=' and v == 0) or (op == '==' and v == -1) or (op == '<' and v == 0):
                return 'T'
            if (op == '==' and v == 0) or (op == '!=' and v == -1) or (op == '>=' and v == 0):
                return 'F'
            return None
        if conv == NULLP:
            if op == '==' and isnull:
                return 'T'
            if op == '!=' and isnull:
                return 'F'
            return None
        if conv == ZERO:
            if op == '==' and v == 0:
                return 'T'
            if (op == '!=' and v == 0) or (op == '>' and v == 0):
                return 'F'
            return None
    if _is(c, target_pred):
        # bare value as condition: true = non-zero / non-null
        if conv == NONZERO:
            return 'T'
        if conv in (NULLP, ZERO):
            return 'F'
        return None
    return None


def result_tests(func, call):
    """Branch blocks whose condition tests the result of `call` (directly or through
    a variable assigned from it).  Returns list of (block, failure edge index 0/1 or
    None when the polarity is not recognised)."""
    conv = FAILS.get(call.get('callee'))
    holders = set()
    p = call.parent
    while p is not None and p.k in ('ImplicitCastExpr', 'ParenExpr', 'CStyleCastExpr'):
        p = p.parent
    if p is not None and p.k == 'BinaryOperator' and p['op'] == '=':
        r = decl_of(p.ch[0])
        if r is not None:
            holders.add(r['id'])
    elif p is not None and p.k == 'DeclStmt':
        for d in p['decls']:
            if d.get('init', -1) != -1 and strip(func.nodes[d['init']]) is call:
                holders.add(d['id'])

    def target(n):
        if n is call:
            return True
        if n.k == 'DeclRefExpr' and n['ref']['kind'] in ('var', 'parm') and n['ref']['id'] in holders:
            return True
        return False

    out = []
    for b in func.blocks.values():
        if b.cond is None or len(b.all_succs) != 2:
            continue
        if not any(target(n) for n in b.cond.walk()):
            continue
        pol = cond_outcome(b.cond, target, conv) if conv else None
        out.append((b, {'T': 0, 'F': 1}.get(pol)))
    return out
