"""A4-T: after a writer that does not guarantee a terminator, a terminating store must reach
every later use of the buffer as a string.  Forward may-analysis, facts ('unterm', entity, node)."""
from . import cfg as C
from . import fmt
from .facts import render, strip
from .nullness import ent_of, ent_name

# API -> (destination arg index, size arg index or None)
NON_TERMINATING = {'strncpy': (0, 2), 'memcpy': (0, 2), 'memmove': (0, 2), 'fread': (0, None), 'gethostname': (0, 1),
                   'readlink': (1, 2), 'read': (1, 2), 'recv': (1, 2), 'getdomainname': (0, 1), 'stpncpy': (0, 2)}
TERMINATING = {'snprintf': 0, 'sprintf': 0, 'strcpy': 0, 'strcat': 0, 'fgets': 0, 'strftime': 0, 'memset': 0,
               'getcwd': 0, 'ttyname_r': 1, 'getlogin_r': 0, 'strerror_r': 1, 'inet_ntop': 2}
# functions that read their argument as a NUL-terminated string: name -> arg indices (None = all pointer args)
STRING_READERS = {'strlen': [0], 'strcmp': [0, 1], 'strncmp': [], 'strcasecmp': [0, 1], 'strstr': [0, 1],
                  'strchr': [0], 'strrchr': [0], 'strdup': [0], 'strcpy': [1], 'strcat': [0, 1], 'atoi': [0],
                  'atol': [0], 'strtol': [0], 'strtoul': [0], 'strtoull': [0], 'strtoll': [0], 'fopen': [0, 1],
                  'open': [0], 'stat': [0], 'access': [0], 'getenv': [0], 'strtok_r': [0, 1], 'fputs': [0],
                  'puts': [0], 'strcasestr': [0, 1], 'strpbrk': [0, 1], 'strspn': [0, 1], 'strcspn': [0, 1],
                  'unlink': [0], 'rename': [0, 1], 'utmpname': [0], 'syslog': [], 'perror': [0], 'dlopen': [0]}
BOUNDED_READERS = {'strnlen', 'strncmp', 'memcmp', 'strncpy', 'memcpy', 'write', 'send', 'fwrite', 'strncasecmp',
                   'strndup', 'connect', 'memchr'}


class Finding:
    def __init__(self, func, node, ent, origin, detail):
        self.func = func
        self.node = node
        self.ent = ent
        self.origin = origin
        self.detail = detail


def returns_unterminated(prog, t, _stack=()):
    """the file-local function t may return a buffer that one of its writers filled without a terminator (and no
    terminating store reached the return).  Such a return is not a use as a string: the obligation moves to the
    callers, where the call then counts as the non-terminating writer of the variable that receives the result."""
    memo = prog.__dict__.setdefault('_unterm_ret', {})
    if t.key in memo:
        return memo[t.key]
    if t.key in _stack or t.cfg_error or not t.internal:
        return False
    hits = []
    analyse(prog, t, _ret_sink=hits, _stack=_stack + (t.key,))
    memo[t.key] = bool(hits)
    return memo[t.key]


def analyse(prog, func, string_param_reader=None, _ret_sink=None, _stack=()):
    """string_param_reader(callee Function, index) -> bool: does the program function read its
    pointer parameter as a string?  (default: const char* parameters do)"""
    out = []
    seen = set()
    sites = [0]
    if func.cfg_error:
        return out, 0

    def unterm_helper_call(x):
        x = strip(x) if x is not None else None
        if x is None or x.k != 'CallExpr' or not x.get('callee'):
            return False
        t = prog.func(x.get('callee'), func.tu)
        return t is not None and t.internal and t is not func and returns_unterminated(prog, t, _stack)

    def base_ent(a):
        s = strip(a)
        while s is not None and s.k in ('ArraySubscriptExpr',):
            s = strip(s.ch[0])
        if s is not None and s.k == 'UnaryOperator' and s['op'] == '&':
            t = strip(s.ch[0])
            if t.k == 'ArraySubscriptExpr':
                return ent_of(t.ch[0]), False
            return ent_of(t), True
        if s is not None and s.k == 'BinaryOperator' and s['op'] in ('+', '-'):
            return ent_of(s.ch[0]), False
        return (ent_of(s) if s is not None else None), True

    decls = {d['id']: d for d in func.local_decls()}
    # pointer variables that may hold the address of a local array (p = arr): a string read through p reads arr
    aliases = {}
    for m in func.body.walk():
        tgt = src = None
        if m.k == 'BinaryOperator' and m.get('op') == '=' and strip(m.ch[0]).k == 'DeclRefExpr':
            tgt, src = ent_of(m.ch[0]), strip(m.ch[1])
        elif m.k == 'DeclStmt':
            for d in m['decls']:
                if d.get('init', -1) != -1 and (d.get('ct') or '').rstrip().endswith('*'):
                    s_ = strip(func.nodes[d['init']])
                    if s_ is not None and s_.k == 'DeclRefExpr' and (s_.get('ct') or '').rstrip().endswith(']'):
                        aliases.setdefault(('v', d['id']), set()).add(ent_of(s_))
        if tgt is not None and src is not None and src.k == 'DeclRefExpr' and (src.get('ct') or '').rstrip().endswith(']'):
            aliases.setdefault(tgt, set()).add(ent_of(src))

    def zero_tail(ent, size_arg, whole):
        """the destination is a zero-initialised local array written from its start with a constant
        count smaller than the array: the bytes behind the copy are still zero"""
        if ent[0] != 'v' or not whole or size_arg is None:
            return False
        d = decls.get(ent[1])
        n = strip(size_arg).get('v')
        if d is None or n is None or d.get('init', -1) == -1 or 'arrayLen' not in d:
            return False
        if n > d['arrayLen'] * d.get('elemSize', 1) - 1:
            return False
        # no other store into the array before (conservatively: anywhere) except terminators
        for m in func.body.walk():
            if m.k == 'BinaryOperator' and m['op'] == '=':
                l = strip(m.ch[0])
                if l.k == 'ArraySubscriptExpr' and ent_of(l.ch[0]) == ent and strip(m.ch[1]).get('v') != 0:
                    return False
        return True

    def report(node, ent, origin):
        k = (node.id, ent)
        if k in seen:
            return
        seen.add(k)
        o = func.nodes[origin]
        out.append(Finding(func, node, ent, o,
                           '%s is used as a string by %s, but %s may have filled it without writing a terminator and no '
                           'terminating store reaches this use on some path' % (
                               ent_name(func, ent), render(node)[:60], render(o)[:60])))

    def transfer(st, e):
        if e.k == 'CallExpr':
            name = e.get('callee')
            args = e.ch[1:]
            # uses first
            if name not in BOUNDED_READERS:
                idxs = STRING_READERS.get(name)
                binds = fmt.variadic_bindings(e) if name in fmt.PRINTF_FAMILY else None
                for i, a in enumerate(args):
                    if a is None or not (a.get('ct') or '').rstrip().endswith('*'):
                        continue
                    ent, whole = base_ent(a)
                    if ent is None:
                        continue
                    reads = False
                    if idxs is not None:
                        reads = i in idxs
                    elif binds is not None:
                        reads = any(an is a and d['conv'] == 's' and not d['prec'] and role == 'value'
                                    for an, d, role in binds)
                    else:
                        t = prog.func(name, func.tu) if name else None
                        if t is not None and i < len(t.params):
                            pt = t.params[i]['ct']
                            reads = 'const char' in pt if string_param_reader is None else string_param_reader(t, i)
                    if reads and name not in NON_TERMINATING and TERMINATING.get(name, -1) != i:
                        for f in st:
                            if f[1] == ent or f[1] in aliases.get(ent, ()):
                                report(e, f[1], f[2])
            new = set(st)
            if name in NON_TERMINATING:
                di, si = NON_TERMINATING[name]
                if di < len(args):
                    ent, whole = base_ent(args[di])
                    if ent is not None:
                        sites[0] += 1
                        new = {f for f in new if f[1] != ent}
                        # copying a string literal together with its terminator (memcpy(d, "text", sizeof("text"))) terminates
                        lit_with_nul = False
                        if name in ('memcpy', 'memmove', '__builtin_memcpy') and len(args) >= 3:
                            s_ = strip(args[1])
                            n_ = strip(args[2])
                            if s_ is not None and s_.k == 'StringLiteral' and n_ is not None and n_.get('v') is not None and \
                                    n_.get('v') >= s_.get('slen', 0) + 1:
                                lit_with_nul = True
                        if not lit_with_nul and not zero_tail(ent, args[si] if si is not None and si < len(args) else None, whole):
                            new.add(('unterm', ent, e.id))
            elif name in TERMINATING:
                di = TERMINATING[name]
                if di < len(args):
                    ent, whole = base_ent(args[di])
                    if ent is not None:
                        new = {f for f in new if f[1] != ent}
            return frozenset(new)
        if e.k == 'BinaryOperator' and e['op'] == '=':
            l = strip(e.ch[0])
            if l.k == 'ArraySubscriptExpr':
                ent = ent_of(l.ch[0])
                v = strip(e.ch[1])
                if ent is not None and v is not None and v.get('v') == 0:
                    # the terminator must sit at or before the end of what the writer copied: a store further
                    # back (the last byte of the buffer, say) leaves whatever the buffer held before in between
                    k = strip(l.ch[1])

                    def behind_copy(f):
                        o = func.nodes[f[2]]
                        spec = NON_TERMINATING.get(o.get('callee'))
                        # only the copy family: their count is exactly what is (at most) copied; gethostname/readlink/
                        # read report or bound the length differently
                        if o.get('callee') not in ('strncpy', 'stpncpy', 'memcpy', 'memmove', '__builtin_strncpy', '__builtin_memcpy'):
                            return True
                        if spec is None or spec[1] is None or spec[1] >= len(o.ch) - 1:
                            return True
                        n = strip(o.ch[1:][spec[1]])
                        if k is None or n is None:
                            return True
                        if render(k) == render(n):
                            return True
                        kv, nv = k.get('v'), n.get('v')
                        if kv is not None and nv is not None:
                            return kv <= nv
                        if kv == 0:
                            return True
                        # n - c  with the same n
                        if k.k == 'BinaryOperator' and k.get('op') == '-' and render(strip(k.ch[0])) == render(n) and \
                                (strip(k.ch[1]).get('v') or 0) >= 0:
                            return True
                        return False
                    return frozenset(f for f in st if f[1] != ent or not behind_copy(f))
            if l.k == 'UnaryOperator' and l['op'] == '*':
                ent, _ = base_ent(l.ch[0])
                v = strip(e.ch[1])
                if ent is not None and v is not None and v.get('v') == 0:
                    return frozenset(f for f in st if f[1] != ent)
            if l.k == 'DeclRefExpr':
                ent = ent_of(l)
                if ent is not None:
                    new = frozenset(f for f in st if f[1] != ent)
                    if unterm_helper_call(e.ch[1]):
                        sites[0] += 1
                        new = new | {('unterm', ent, strip(e.ch[1]).id)}
                    return new
        if e.k == 'DeclStmt':
            new = st
            for d in e['decls']:
                if d.get('init', -1) != -1 and unterm_helper_call(func.nodes[d['init']]):
                    sites[0] += 1
                    new = frozenset(f for f in new if f[1] != ('v', d['id'])) | {('unterm', ('v', d['id']), strip(func.nodes[d['init']]).id)}
            return new
        if e.k == 'ReturnStmt' and e.ch:
            ent = ent_of(e.ch[0])
            if ent is not None and (e.ch[0].get('ct') or '').rstrip().endswith('*'):
                for f in st:
                    if f[1] == ent:
                        if func.internal and (_ret_sink is not None or returns_unterminated(prog, func, _stack)):
                            # a file-local helper handing its buffer back: judged at the callers
                            if _ret_sink is not None:
                                _ret_sink.append(f[2])
                            continue
                        report(e, ent, f[2])
        return st

    C.forward_dataflow(func, frozenset(), transfer, lambda a, b: a | b)
    return out, sites[0]


# ---- result buffers of data sources are left NUL-terminated -------------------------------------
def result_terminated(prog, func, pidx=0, _memo=None, _depth=0):
    """(ok, offending node or None): on every path to a return of func, the buffer passed as
    parameter pidx is either untouched or its last write is a terminating one."""
    _memo = _memo if _memo is not None else {}
    key = (func.key, pidx)
    if key in _memo:
        return _memo[key]
    _memo[key] = (True, None)
    if func.cfg_error or pidx >= len(func.params):
        return (True, None)
    pid = func.params[pidx]['id']
    from .dataflow import PtrTaint
    pt = PtrTaint(func, lambda n: False, {pid})
    bad = [None]

    def into(e):
        return e is not None and pt.is_derived(e)

    def transfer(st, e):
        if e.k == 'CallExpr':
            name = e.get('callee')
            args = e.ch[1:]
            if name in TERMINATING and TERMINATING[name] < len(args) and into(args[TERMINATING[name]]):
                return 'term'
            if name in NON_TERMINATING and NON_TERMINATING[name][0] < len(args) and into(args[NON_TERMINATING[name][0]]):
                return 'dirty'
            t = prog.func(name, func.tu) if name else None
            if t is not None and t is not func and _depth < 5:
                for i, a in enumerate(args):
                    if a is not None and into(a) and i < len(t.params) and 'const' not in t.params[i]['ct'].split('*')[0]:
                        ok, _ = result_terminated(prog, t, i, _memo, _depth + 1)
                        if not ok:
                            return 'dirty'
                        # a callee that can return without having touched the buffer leaves it as it was: an
                        # unterminated buffer stays unterminated on that path
                        if _memo.get(('skips', t.key, i)):
                            return st
                        return 'term'
            return st
        if e.k == 'BinaryOperator' and e['op'] == '=':
            l = strip(e.ch[0])
            if (l.k == 'ArraySubscriptExpr' and into(l.ch[0])) or (l.k == 'UnaryOperator' and l['op'] == '*' and into(l.ch[0])):
                v = strip(e.ch[1])
                return 'term' if (v is not None and v.get('v') == 0) else 'dirty'
        if e.k == 'ReturnStmt':
            if st == 'dirty' and bad[0] is None:
                bad[0] = e
            if st == 'clean':
                skips[0] = True
        return st

    skips = [False]
    order = {'clean': 0, 'term': 1, 'dirty': 2}
    # 'clean' must survive a join with 'term' for the "may return untouched" summary: track it separately
    def transfer2(st, e):
        # st = (state, may_be_untouched)
        s0, un = st
        s1 = transfer(s0, e)
        if e.k == 'ReturnStmt' and un:
            skips[0] = True
        if s1 != s0 and s1 in ('term', 'dirty') and not (e.k == 'CallExpr' and s1 == s0):
            un = False
        return (s1, un)
    C.forward_dataflow(func, ('clean', True), transfer2,
                       lambda a, b: ((a[0] if order[a[0]] >= order[b[0]] else b[0]), a[1] or b[1]))
    res = (bad[0] is None, bad[0])
    _memo[key] = res
    _memo[('skips', func.key, pidx)] = skips[0]
    return res
