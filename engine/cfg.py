"""A2: CFG path rules at element granularity.

A program point is (block id, index); index i means "before element i of the
block"; index == len(elems) is the block's terminator/exit edge."""
from collections import deque

INF = float('inf')


def elem_positions(func):
    """node id -> (block id, idx) for every CFG element."""
    cache = getattr(func, '_elem_pos', None)
    if cache is not None:
        return cache
    pos = {}
    for b in func.blocks.values():
        for i, e in enumerate(b.elems):
            pos.setdefault(e.id, (b.id, i))
    func._elem_pos = pos
    return pos


def cfg_elem_of(func, node):
    """the CFG element that evaluates `node` (node itself or nearest ancestor that is
    an element)."""
    pos = elem_positions(func)
    n = node
    while n is not None and n.id not in pos:
        n = n.parent
    return n


def reachable_blocks(func):
    seen = {func.entry}
    dq = deque([func.entry])
    while dq:
        b = dq.popleft()
        for s in func.blocks[b].succs:
            if s not in seen:
                seen.add(s)
                dq.append(s)
    return seen


def reach(func, start, stop, from_after=False, edge_filter=None):
    """Forward reachability over elements from program point `start`
    (block id, idx).  `stop(node)` -> True means paths end *at* that element
    (it is visited but not passed).  Returns (visited element ids, exit reached).
    edge_filter(block, succ_index) -> False prunes an edge."""
    visited = set()
    exit_reached = False
    seen_pts = set()
    dq = deque([start])
    while dq:
        bid, idx = dq.popleft()
        if (bid, idx) in seen_pts:
            continue
        seen_pts.add((bid, idx))
        b = func.blocks[bid]
        i = idx
        stopped = False
        while i < len(b.elems):
            e = b.elems[i]
            visited.add(e.id)
            if stop is not None and stop(e):
                stopped = True
                break
            i += 1
        if stopped:
            continue
        if bid == func.exit:
            exit_reached = True
            continue
        for si, (s, unr) in enumerate(b.all_succs):
            if s is None or unr:
                continue
            if edge_filter is not None and not edge_filter(b, si):
                continue
            dq.append((s, 0))
    return visited, exit_reached


def must_pass_through(func, pred):
    """every entry->exit path executes an element satisfying pred."""
    _, ex = reach(func, (func.entry, 0), pred)
    return not ex


def always_preceded(func, target_node, pred):
    """every path from entry to target_node executes an element satisfying pred
    first (dominance at element level, by a set)."""
    pos = elem_positions(func)
    if target_node.id not in pos:
        target_node = cfg_elem_of(func, target_node)
    visited, _ = reach(func, (func.entry, 0),
                       lambda e: pred(e) and e.id != target_node.id)
    # target reached while avoiding pred?  pred elements stop the walk.
    # (a pred element that IS the target does not count as its own predecessor)
    if target_node.id not in visited:
        return True
    # visited includes stop elements themselves; target visited as a stop element
    # only if pred(target) is true and handled above, so here it was reached freely.
    return False


def always_followed(func, source_node, pred):
    """every path from just after source_node to exit executes a pred element."""
    pos = elem_positions(func)
    src = source_node if source_node.id in pos else cfg_elem_of(func, source_node)
    b, i = pos[src.id]
    _, ex = reach(func, (b, i + 1), pred)
    return not ex


def can_reach_after(func, source_node, pred):
    """some path from just after source_node executes a pred element; returns the
    list of such elements."""
    pos = elem_positions(func)
    src = source_node if source_node.id in pos else cfg_elem_of(func, source_node)
    b, i = pos[src.id]
    visited, _ = reach(func, (b, i + 1), None)
    return [func.nodes[v] for v in visited if pred(func.nodes[v])]


def count_on_paths(func, pred):
    """(min, max) number of pred elements executed on an entry->exit path.
    max is INF if a pred element lies on a cycle."""
    live = reachable_blocks(func)
    w = {b: sum(1 for e in func.blocks[b].elems if pred(e)) for b in live}
    # can exit be reached at all?
    # min: Dijkstra-like relaxation (non-negative weights)
    mn = {b: INF for b in live}
    mn[func.entry] = w[func.entry]
    changed = True
    while changed:
        changed = False
        for b in live:
            if mn[b] == INF:
                continue
            for s in func.blocks[b].succs:
                v = mn[b] + w[s]
                if v < mn[s]:
                    mn[s] = v
                    changed = True
    # max: SCC condensation
    sccs = _sccs(func, live)
    comp = {}
    for i, c in enumerate(sccs):
        for b in c:
            comp[b] = i
    cw = []
    cyc = []
    for i, c in enumerate(sccs):
        s = sum(w[b] for b in c)
        is_cycle = len(c) > 1 or any(b in func.blocks[b].succs for b in c)
        cyc.append(is_cycle)
        cw.append(INF if (is_cycle and s > 0) else s)
    # sccs from Tarjan come in reverse topological order
    mx = [None] * len(sccs)
    for i, c in enumerate(sccs):  # successors first
        best = None
        for b in c:
            for s in func.blocks[b].succs:
                j = comp[s]
                if j != i and mx[j] is not None:
                    best = mx[j] if best is None else max(best, mx[j])
        contains_exit = func.exit in c
        if contains_exit:
            best = 0 if best is None else max(best, 0)
        mx[i] = None if best is None else cw[i] + best
    mxe = mx[comp[func.entry]]
    return mn.get(func.exit, INF), mxe


def _sccs(func, live):
    index = {}
    low = {}
    onstack = set()
    stack = []
    out = []
    counter = [0]

    def strong(v):
        # iterative Tarjan
        work = [(v, iter(func.blocks[v].succs))]
        index[v] = low[v] = counter[0]
        counter[0] += 1
        stack.append(v)
        onstack.add(v)
        while work:
            node, it = work[-1]
            advanced = False
            for s in it:
                if s not in live:
                    continue
                if s not in index:
                    index[s] = low[s] = counter[0]
                    counter[0] += 1
                    stack.append(s)
                    onstack.add(s)
                    work.append((s, iter(func.blocks[s].succs)))
                    advanced = True
                    break
                elif s in onstack:
                    low[node] = min(low[node], index[s])
            if advanced:
                continue
            work.pop()
            if work:
                p = work[-1][0]
                low[p] = min(low[p], low[node])
            if low[node] == index[node]:
                c = []
                while True:
                    x = stack.pop()
                    onstack.discard(x)
                    c.append(x)
                    if x == node:
                        break
                out.append(c)

    for b in sorted(live):
        if b not in index:
            strong(b)
    return out


def in_loop(func, node):
    """is the CFG element of node on a cycle?"""
    pos = elem_positions(func)
    e = node if node.id in pos else cfg_elem_of(func, node)
    b, i = pos[e.id]
    visited, _ = reach(func, (b, i + 1), None)
    return e.id in visited


def branch_edges(block):
    """(true successor id or None, false successor id or None) for a two-way
    conditional terminator."""
    if len(block.all_succs) != 2:
        return None
    (t, tu), (f, fu) = block.all_succs
    return (None if tu else t, None if fu else f)


def return_nodes(func):
    return [n for n in func.body.walk() if n.k == 'ReturnStmt']


def forward_dataflow(func, init, transfer, join, edge_transfer=None, bottom=None, max_iter=10000):
    """Generic forward dataflow over blocks.
    transfer(state, elem) -> state ; edge_transfer(state, block, succ_index) -> state or None (infeasible)
    join(a, b) -> state.  Returns dict block id -> in-state (None = unreachable)."""
    instate = {b: None for b in func.blocks}
    instate[func.entry] = init
    work = deque([func.entry])
    inq = {func.entry}
    it = 0
    while work:
        it += 1
        if it > max_iter:
            raise RuntimeError('dataflow did not converge in %s' % func.name)
        bid = work.popleft()
        inq.discard(bid)
        st = instate[bid]
        if st is None:
            continue
        b = func.blocks[bid]
        for e in b.elems:
            st = transfer(st, e)
        for si, (s, unr) in enumerate(b.all_succs):
            if s is None or unr:
                continue
            out = st
            if edge_transfer is not None:
                out = edge_transfer(st, b, si)
                if out is None:
                    continue
            old = instate[s]
            new = out if old is None else join(old, out)
            if new != old:
                instate[s] = new
                if s not in inq:
                    work.append(s)
                    inq.add(s)
    return instate


# ---- loop progress ------------------------------------------------------------------------------
PURE_CALLS = {'strlen', 'strcmp', 'strncmp', 'strchr', 'strrchr', 'strstr', 'isdigit', 'isspace', 'isalpha',
              'toupper', 'tolower', 'strcasecmp', 'memcmp', 'strnlen', 'pthread_equal', '__builtin_strlen',
              'strpbrk', 'strspn', 'strcspn', 'abs', 'snoopy_util_string_countChars',
              '__ctype_b_loc', '__ctype_tolower_loc', '__ctype_toupper_loc'}


def stuck_cycles(func):
    """loops that can go round without changing anything their exit conditions depend on.
    Returns a list of (loop block ids, exit condition nodes, offending cycle witness block)."""
    from .facts import strip
    out = []
    live = reachable_blocks(func)
    work = [c for c in _sccs(func, live)]
    while work:
        comp = work.pop()
        cs = set(comp)
        if len(comp) == 1 and comp[0] not in func.blocks[comp[0]].succs:
            continue
        exits = [func.blocks[b] for b in comp
                 if func.blocks[b].cond is not None and any(s not in cs for s, u in func.blocks[b].all_succs if s is not None and not u)]
        if not exits:
            # no conditional exit at all: only return/break-less infinite loop
            rets = any(e.k == 'ReturnStmt' or (e.k == 'CallExpr' and e.get('calleeNoReturn'))
                       for b in comp for e in func.blocks[b].elems)
            if not rets:
                out.append((comp, [], comp[0]))
            continue
        vars_ = set()
        impure = False
        reads_global = False
        for b in exits:
            for n in b.cond.walk():
                if n.k == 'DeclRefExpr' and n['ref']['kind'] in ('var', 'parm'):
                    vars_.add(n['ref']['id'])
                    if n['ref'].get('staticStorage') or n['ref'].get('fileScope'):
                        reads_global = True
                if n.k == 'CallExpr' and n.get('callee') not in PURE_CALLS:
                    impure = True   # the condition itself advances some state (getline, strtok_r, list iterator ...)
                if n.k in ('BinaryOperator', 'CompoundAssignOperator') and (n.get('op') == '=' or n.k == 'CompoundAssignOperator'):
                    impure = True
                if n.k == 'UnaryOperator' and n.get('op') in ('++', '--'):
                    impure = True
        if impure:
            continue
        # close the set under dependence inside the loop: a variable assigned from, or under a branch on, other
        # variables changes when those change (a "keep going" flag cleared depending on what a search found,
        # the search starting at an offset advanced elsewhere in the loop).  Widening the set only makes the rule
        # accept more; it stays a necessary condition for termination.
        def refs(n):
            return {x['ref']['id'] for x in n.walk()
                    if x.k == 'DeclRefExpr' and x['ref'].get('kind') in ('var', 'parm')} if n is not None else set()
        deps = {}
        changed = True
        while changed:
            changed = False
            assigned_here = False
            for b in comp:
                for e in func.blocks[b].elems:
                    tgt, src = None, None
                    if e.k in ('BinaryOperator', 'CompoundAssignOperator') and (e.get('op') == '=' or e.k == 'CompoundAssignOperator'):
                        l = strip(e.ch[0])
                        if l is not None and l.k == 'DeclRefExpr':
                            tgt, src = l['ref'].get('id'), e.ch[1]
                    elif e.k == 'DeclStmt':
                        for d in e['decls']:
                            if d['id'] in vars_ and d.get('init', -1) != -1:
                                deps.setdefault(d['id'], set()).update(refs(func.nodes[d['init']]))
                                new = refs(func.nodes[d['init']]) - vars_
                                if new:
                                    vars_ |= new
                                    changed = True
                                assigned_here = True
                    elif e.k == 'UnaryOperator' and e.get('op') in ('++', '--'):
                        l = strip(e.ch[0])
                        if l is not None and l.k == 'DeclRefExpr' and l['ref'].get('id') in vars_:
                            assigned_here = True
                    if tgt is not None and tgt in vars_:
                        assigned_here = True
                        deps.setdefault(tgt, set()).update(refs(src))
                        if e.k == 'CompoundAssignOperator':
                            deps[tgt].add(tgt)
                        new = refs(src) - vars_
                        if new:
                            vars_ |= new
                            changed = True
            if assigned_here:
                for b in comp:
                    c = func.blocks[b].cond
                    if c is not None and not any(x.k == 'CallExpr' and x.get('callee') not in PURE_CALLS for x in c.walk()):
                        new = refs(c) - vars_
                        if new:
                            vars_ |= new
                            changed = True

        def on_cycle(v):
            seen, todo = set(), list(deps.get(v, ()))
            while todo:
                x = todo.pop()
                if x == v:
                    return True
                if x not in seen:
                    seen.add(x)
                    todo += list(deps.get(x, ()))
            return False

        def recomputed(tgt, src):
            """the assignment gives tgt a value computed from other variables only, none of which is fed by tgt:
            unless one of THOSE changes, tgt gets the value it had (a search result taken again from the same
            start, a length measured again) - that is not progress"""
            if src is None or not refs(src):
                return False
            if any(x.k == 'CallExpr' and x.get('callee') not in PURE_CALLS for x in src.walk()):
                return False
            if any(x.k == 'DeclRefExpr' and (x['ref'].get('staticStorage') or x['ref'].get('fileScope')) for x in src.walk()):
                return False
            return tgt in frozen

        # variables whose value cannot change from one way round to the next: never assigned in the loop, or only ever
        # assigned a pure expression of such variables (a search result taken again from the same start)
        assigns_ = {}
        for b2 in comp:
            for e2 in func.blocks[b2].elems:
                if e2.k in ('BinaryOperator', 'CompoundAssignOperator') and (e2.get('op') == '=' or e2.k == 'CompoundAssignOperator'):
                    l2 = strip(e2.ch[0])
                    if l2 is not None and l2.k == 'DeclRefExpr':
                        assigns_.setdefault(l2['ref'].get('id'), []).append(e2.ch[1] if e2.k == 'BinaryOperator' else None)
                elif e2.k == 'UnaryOperator' and e2.get('op') in ('++', '--'):
                    l2 = strip(e2.ch[0])
                    if l2 is not None and l2.k == 'DeclRefExpr':
                        assigns_.setdefault(l2['ref'].get('id'), []).append(None)
                elif e2.k == 'DeclStmt':
                    for d2 in e2['decls']:
                        if d2.get('init', -1) != -1:
                            assigns_.setdefault(d2['id'], []).append(func.nodes[d2['init']])
                elif e2.k == 'CallExpr':
                    for a2 in e2.ch[1:]:
                        s2 = strip(a2) if a2 is not None else None
                        if s2 is not None and s2.k == 'UnaryOperator' and s2.get('op') == '&' and strip(s2.ch[0]).k == 'DeclRefExpr':
                            assigns_.setdefault(strip(s2.ch[0])['ref'].get('id'), []).append(None)

        def pure_(src):
            return src is not None and not any(
                (x.k == 'CallExpr' and x.get('callee') not in PURE_CALLS) or
                (x.k == 'DeclRefExpr' and (x['ref'].get('staticStorage') or x['ref'].get('fileScope'))) for x in src.walk())
        frozen = set()
        grew = True
        while grew:
            grew = False
            for v2, srcs in assigns_.items():
                if v2 in frozen:
                    continue
                if all(pure_(s3) and refs(s3) and all((r2 not in assigns_) or (r2 in frozen) for r2 in refs(s3)) for s3 in srcs):
                    frozen.add(v2)
                    grew = True

        def on_every_round(bid):
            return True

        def progresses(blk):
            for e in blk.elems:
                if e.k == 'BinaryOperator' and e.get('op') == '=':
                    l0 = strip(e.ch[0])
                    if l0 is not None and l0.k == 'DeclRefExpr' and l0['ref'].get('id') in vars_ and \
                            recomputed(l0['ref']['id'], e.ch[1]) and on_every_round(blk.id):
                        continue
                if e.k in ('BinaryOperator', 'CompoundAssignOperator') and (e.get('op') == '=' or e.k == 'CompoundAssignOperator'):
                    l = strip(e.ch[0])
                    while l is not None and l.k in ('ArraySubscriptExpr', 'MemberExpr') or \
                            (l is not None and l.k == 'UnaryOperator' and l.get('op') == '*'):
                        l = strip(l.ch[0])
                    if l is not None and l.k == 'DeclRefExpr' and l['ref'].get('id') in vars_:
                        return True
                if e.k == 'UnaryOperator' and e.get('op') in ('++', '--'):
                    l = strip(e.ch[0])
                    if l is not None and l.k == 'DeclRefExpr' and l['ref'].get('id') in vars_:
                        return True
                if e.k == 'CallExpr':
                    if reads_global and e.get('callee') not in PURE_CALLS:
                        return True     # any callee may change the global the exit condition reads
                    for a in e.ch[1:]:
                        s = strip(a) if a is not None else None
                        if s is not None and s.k == 'UnaryOperator' and s.get('op') == '&':
                            t = strip(s.ch[0])
                            if t is not None and t.k == 'DeclRefExpr' and t['ref'].get('id') in vars_:
                                return True
                        # strings the condition reads may be modified through pointers passed on
                        if s is not None and s.k == 'DeclRefExpr' and s['ref'].get('id') in vars_ and \
                                e.get('callee') not in PURE_CALLS:
                            return True
                if e.k == 'DeclStmt':
                    for d in e['decls']:
                        if d['id'] in vars_ and d.get('init', -1) != -1 and not (
                                recomputed(d['id'], func.nodes[d['init']]) and on_every_round(blk.id)):
                            return True
            return False
        stay = {b for b in comp if not progresses(func.blocks[b])}
        # is there a cycle inside `stay`?
        sub = [c for c in _sccs_sub(func, stay)]
        for c in sub:
            if len(c) > 1 or c[0] in [s for s in func.blocks[c[0]].succs if s in stay]:
                if set(c) != cs and any(
                        func.blocks[b].cond is not None and any(s2 not in c for s2 in func.blocks[b].succs) for b in c):
                    # a smaller cycle with branches of its own (an inner loop, or a `continue` path): judged as a
                    # loop in its own right against ITS exit conditions - which include this loop's when it is the
                    # path that skips the progress statement
                    work.append(list(c))
                    continue
                if not _consistent_cycle(func, set(c)):
                    # every way round this cycle answers one and the same question (same condition text, nothing changed
                    # in between) once with yes and once with no: not a path of the program
                    continue
                out.append((comp, [b.cond for b in exits], c[0]))
                break
    return out


def _consistent_cycle(func, nodes, limit=20000):
    """is there a cycle inside `nodes` on which textually identical branch conditions are always decided the same way?
    (Used for cycles on which nothing changes: there, equal questions have equal answers.)"""
    from .facts import render
    steps = [0]

    def dfs(start, cur, path_blocks, answers):
        steps[0] += 1
        if steps[0] > limit:
            return True         # give up: assume feasible (the conservative answer for a "stuck" verdict)
        blk = func.blocks[cur]
        succs = [(k, s2) for k, (s2, u) in enumerate(blk.all_succs) if s2 is not None and not u and s2 in nodes]
        for k, s2 in succs:
            ans = answers
            if blk.cond is not None and len(blk.all_succs) == 2:
                from .facts import strip as _strip
                c0 = _strip(blk.cond)
                kk = k
                while c0 is not None and c0.k == 'UnaryOperator' and c0.get('op') == '!':
                    c0 = _strip(c0.ch[0])
                    kk = 1 - kk
                if c0 is not None and c0.k == 'BinaryOperator' and c0.get('op') in ('==', '!='):
                    a_, b_ = sorted([render(c0.ch[0]), render(c0.ch[1])])
                    key = '%s == %s' % (a_, b_)
                    if c0['op'] == '!=':
                        kk = 1 - kk         # `x != c` answered yes is `x == c` answered no
                else:
                    key = render(c0) if c0 is not None else render(blk.cond)
                if key in answers and answers[key] != kk:
                    continue
                if key not in answers:
                    ans = dict(answers)
                    ans[key] = kk
            if s2 == start:
                return True
            if s2 in path_blocks:
                continue
            if dfs(start, s2, path_blocks | {s2}, ans):
                return True
        return False
    return any(dfs(b0, b0, {b0}, {}) for b0 in sorted(nodes))


def _sccs_sub(func, nodes):
    """SCCs of the sub-graph induced by `nodes`"""
    index, low, on, st, out = {}, {}, set(), [], []
    cnt = [0]
    import sys
    sys.setrecursionlimit(10000)

    def strong(v):
        index[v] = low[v] = cnt[0]
        cnt[0] += 1
        st.append(v)
        on.add(v)
        for s in func.blocks[v].succs:
            if s not in nodes:
                continue
            if s not in index:
                strong(s)
                low[v] = min(low[v], low[s])
            elif s in on:
                low[v] = min(low[v], index[s])
        if low[v] == index[v]:
            c = []
            while True:
                x = st.pop()
                on.discard(x)
                c.append(x)
                if x == v:
                    break
            out.append(c)
    for v in sorted(nodes):
        if v not in index:
            strong(v)
    return out
