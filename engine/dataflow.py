"""A9 and friends: def-use, derivation (taint), interprocedural call summaries
(must-call / may-call), argument origin through parameter passing."""
from . import cfg as C
from .facts import render, strip


# ---- def / use ---------------------------------------------------------------
def decl_of(node):
    """(kind, id, name) if node (after stripping casts/parens) is a variable or
    parameter reference, else None."""
    s = strip(node)
    if s is not None and s.k == 'DeclRefExpr' and s['ref']['kind'] in ('var', 'parm'):
        return s['ref']
    return None


def def_exprs(func, decl_id):
    """right-hand sides assigned to the variable with `=` or its initialiser."""
    out = []
    for n in func.body.walk():
        if n.k == 'BinaryOperator' and n['op'] == '=':
            r = decl_of(n.ch[0])
            if r is not None and r['id'] == decl_id:
                out.append(n.ch[1])
        elif n.k == 'DeclStmt':
            for d in n['decls']:
                if d['id'] == decl_id and d.get('init', -1) != -1:
                    out.append(func.nodes[d['init']])
    return out


def def_sites(func, decl_id):
    """nodes that (re)define the variable: assignments, compound assignments,
    ++/--, initialising DeclStmt, and address-taken sites (possible indirect write)."""
    out = []
    for n in func.body.walk():
        if n.k in ('BinaryOperator', 'CompoundAssignOperator') and \
                (n['op'] == '=' or n.k == 'CompoundAssignOperator'):
            r = decl_of(n.ch[0])
            if r is not None and r['id'] == decl_id:
                out.append(('assign', n))
        elif n.k == 'UnaryOperator' and n['op'] in ('++', '--'):
            r = decl_of(n.ch[0])
            if r is not None and r['id'] == decl_id:
                out.append(('incdec', n))
        elif n.k == 'UnaryOperator' and n['op'] == '&':
            r = decl_of(n.ch[0])
            if r is not None and r['id'] == decl_id:
                out.append(('addr', n))
        elif n.k == 'DeclStmt':
            for d in n['decls']:
                if d['id'] == decl_id:
                    out.append(('decl', n))
    return out


def local_decl(func, decl_id):
    for d in func.local_decls():
        if d['id'] == decl_id:
            return d
    return None


def contains(node, pred):
    for n in node.walk():
        if pred(n):
            return True
    return False


def derived_vars(func, seed_pred, through_calls=True):
    """ids of local variables whose value derives from an expression satisfying
    seed_pred (transitively through assignments/initialisers).  Conservative:
    any containment of a derived sub-expression counts."""
    derived = set()

    def is_derived_expr(e):
        for n in e.walk():
            if seed_pred(n):
                return True
            if n.k == 'DeclRefExpr' and n['ref']['kind'] in ('var', 'parm') and n['ref']['id'] in derived:
                return True
        return False

    changed = True
    while changed:
        changed = False
        for n in func.body.walk():
            tgt = None
            rhs = None
            if n.k in ('BinaryOperator', 'CompoundAssignOperator') and \
                    (n['op'] == '=' or n.k == 'CompoundAssignOperator'):
                r = decl_of(n.ch[0])
                if r is not None:
                    tgt, rhs = r['id'], n.ch[1]
            elif n.k == 'DeclStmt':
                for d in n['decls']:
                    if d.get('init', -1) != -1 and d['id'] not in derived:
                        if is_derived_expr(func.nodes[d['init']]):
                            derived.add(d['id'])
                            changed = True
                continue
            if tgt is not None and tgt not in derived and is_derived_expr(rhs):
                derived.add(tgt)
                changed = True
    return derived, is_derived_expr


# ---- interprocedural summaries --------------------------------------------------
# external functions that run their callback argument to completion before returning
MUST_CALLBACK = {'pthread_once'}
# external functions that only register their callback arguments for later
DEFERRED_CALLBACK = {'pthread_atfork', 'atexit', 'on_exit', 'signal', 'sigaction', 'pthread_key_create',
                     '__register_atfork'}


def _live_callbacks(cs):
    if any(isinstance(t, str) and t[4:] in DEFERRED_CALLBACK for t in cs.targets):
        return []
    return list(cs.callbacks)


class Summaries:
    """must-call / may-call of named events over the call graph."""

    def __init__(self, cg):
        self.cg = cg
        self.prog = cg.prog
        self._may = {}
        self._must = {}
        self._site_targets = {}
        for cs in cg.sites:
            self._site_targets[(cs.caller.key, cs.node.id)] = cs

    def site(self, func, call_node):
        cs = self._site_targets.get((func.key, call_node.id))
        if cs is None and getattr(func, 'inlined_from', None) and call_node.k == 'CallExpr' and call_node.get('callee'):
            # a call that came into an inlined view with the body of a file-local helper: a direct call by name
            key = ('view', func.key, call_node.id)
            cs = self._site_targets.get(key)
            if cs is None:
                from .callgraph import CallSite
                t = self.cg.prog.func(call_node.get('callee'), func.tu)
                cs = CallSite(func, call_node, [t if t is not None else 'ext:' + call_node.get('callee')], False, 'direct')
                self._site_targets[key] = cs
        return cs

    def targets(self, func, call_node):
        cs = self.site(func, call_node)
        return cs.targets if cs else []

    def _tname(self, t):
        return t[4:] if isinstance(t, str) else t.name

    def may_call(self, func, names, _stack=None):
        """can executing func reach a call to any of `names` (function names,
        including externals)?"""
        key = (func.key, frozenset(names))
        if key in self._may:
            return self._may[key]
        self._may[key] = False  # cycle guard (least fixpoint)
        res = False
        for cs in self.cg.callees(func):
            for t in list(cs.targets) + _live_callbacks(cs):
                if self._tname(t) in names:
                    res = True
                elif not isinstance(t, str) and self.may_call(t, names):
                    res = True
        self._may[key] = res
        return res

    def elem_may(self, func, elem, names):
        if elem.k != 'CallExpr':
            return False
        cs = self.site(func, elem)
        if cs is None:
            return False
        for t in list(cs.targets) + _live_callbacks(cs):
            if self._tname(t) in names:
                return True
            if not isinstance(t, str) and self.may_call(t, names):
                return True
        return False

    def must_call(self, func, names):
        """does every entry->exit path of func execute a call to one of `names`
        (directly or inside a callee that must)?"""
        key = (func.key, frozenset(names))
        if key in self._must:
            return self._must[key]
        self._must[key] = False
        res = C.must_pass_through(func, lambda e: self.elem_must(func, e, names))
        if not res:
            # a call sequence driven by a table (for each row: row.fn()): whether every path makes the call depends on
            # the table's contents and the loop bounds - not decidable by a path rule, and not a "no"
            for c in func.calls():
                if c.get('callee') is None and C.in_loop(func, c):
                    cs = self.site(func, c)
                    if cs is not None and len(cs.targets) > 1 and any(self._tname(t) in names for t in cs.targets):
                        from .facts import AnalysisBroken
                        raise AnalysisBroken('%s reaches %s only through a table of functions walked in a loop: the '
                                             'must-call rules do not decide table-driven sequences' % (
                                                 func.name, '/'.join(sorted(names))[:60]))
        self._must[key] = res
        return res

    def elem_must(self, func, elem, names):
        if elem.k != 'CallExpr':
            return False
        cs = self.site(func, elem)
        if cs is None or not cs.targets:
            return False
        for t in cs.targets:
            if self._tname(t) in names:
                continue
            if isinstance(t, str):
                if t[4:] in MUST_CALLBACK and cs.callbacks and \
                        all(self.must_call(cb, names) for cb in cs.callbacks):
                    continue
                return False
            if not self.must_call(t, names):
                return False
        return True

    def ordered(self, func, first, then, depth=0):
        """every execution of a `then` call inside func (transitively) is preceded,
        on every path from func's entry, by a `first` call.  Returns (ok, witness)."""
        if depth > 6:
            from .facts import AnalysisBroken
            raise AnalysisBroken('ordering rule: inlining bound exceeded in %s (calls nested deeper than 6, or a cycle through a '
                                 'table of functions): not decided' % func.name)
        for b in func.blocks.values():
            for e in b.elems:
                if not self.elem_may(func, e, then):
                    continue
                if C.always_preceded(func, e, lambda x: x.id != e.id and self.elem_must(func, x, first)):
                    continue
                # not preceded in this function: acceptable only if the callee itself
                # orders them internally
                ok_inside = True
                ts = self.targets(func, e)
                for t in ts:
                    if self._tname(t) in then or isinstance(t, str):
                        ok_inside = False
                        break
                    ok, w = self.ordered(t, first, then, depth + 1)
                    if not ok:
                        return False, w
                if not ok_inside or not ts:
                    return False, '%s at %s in %s is reachable without a preceding %s' % (
                        render(e), e.where(), func.name, '/'.join(sorted(first)))
        return True, ''

    def count_range(self, func, names):
        """(min by must-call, max by may-call) of events `names` on a path of func,
        counting a call element once."""
        mn, _ = C.count_on_paths(func, lambda e: self.elem_must(func, e, names))
        _, mx = C.count_on_paths(func, lambda e: self.elem_may(func, e, names))
        return mn, mx

    # ---- argument origin ---------------------------------------------------
    def arg_origins(self, root, callee_name, arg_index):
        """For every call of callee_name reachable from root, trace argument
        `arg_index` back through parameter passing to an expression in `root`.
        Returns list of (origin node in root or None, chain description)."""
        out = []
        reach = self.cg.reachable([root])

        def trace(func, expr, chain, depth):
            r = decl_of(expr)
            if func.key == root.key:
                out.append((expr, chain))
                return
            if r is not None and r['kind'] == 'parm' and depth < 8:
                # find callers of func within reach
                found = False
                for cs in self.cg.sites:
                    if cs.caller.key not in reach:
                        continue
                    for t in cs.targets:
                        if not isinstance(t, str) and t.key == func.key:
                            args = cs.node.ch[1:]
                            if r['index'] < len(args):
                                found = True
                                trace(cs.caller, args[r['index']],
                                      chain + ['%s(%s)' % (func.name, render(args[r['index']]))], depth + 1)
                if not found:
                    out.append((None, chain + ['no caller found for ' + func.name]))
            else:
                out.append((None, chain + ['%s in %s is not a parameter of the entry point' % (
                    render(expr), func.name)]))

        for key, (f, _, _) in reach.items():
            for c in f.calls(callee_name):
                args = c.ch[1:]
                if arg_index < len(args):
                    trace(f, args[arg_index], ['%s(%s) in %s' % (callee_name, render(args[arg_index]), f.name)], 0)
        return out


# ---- pointer derivation ------------------------------------------------------------
def is_ptr_type(ct):
    ct = (ct or '').strip()
    return ct.endswith('*') or ct.endswith(']') or ct.endswith('*const') or ct.endswith('*restrict')


FRESH_MEMORY = {'strdup', 'strndup', 'malloc', 'calloc', 'realloc', 'fopen', 'fdopen', 'getenv', 'opendir'}


class PtrTaint:
    """Which pointer-typed expressions of a function point into (or are) objects
    designated by `seed_pred` (a predicate on nodes) or by the parameters listed in
    `param_ids`.  Flow-insensitive, through local pointer variables, pointer
    arithmetic, subscripts, dereferences, casts, ?: and pointer-returning calls that
    receive a derived pointer (strchr, strtok, ...)."""

    def __init__(self, func, seed_pred, param_ids=()):
        self.func = func
        self.seed = seed_pred
        self.derived = set(param_ids)
        changed = True
        while changed:
            changed = False
            for n in func.body.walk():
                if n.k == 'BinaryOperator' and n['op'] == '=':
                    r = decl_of(n.ch[0])
                    if r is not None and r['id'] not in self.derived and is_ptr_type(n.ch[0].get('ct')) \
                            and self.is_derived(n.ch[1]):
                        self.derived.add(r['id'])
                        changed = True
                elif n.k == 'DeclStmt':
                    for d in n['decls']:
                        if d.get('init', -1) != -1 and d['id'] not in self.derived and is_ptr_type(d.get('ct')):
                            if self.is_derived(func.nodes[d['init']]):
                                self.derived.add(d['id'])
                                changed = True

    def is_derived(self, e, depth=0):
        e = strip(e)
        if e is None or depth > 20:
            return False
        if self.seed(e):
            return True
        k = e.k
        if k == 'DeclRefExpr':
            return e['ref']['kind'] in ('var', 'parm') and e['ref']['id'] in self.derived
        if k == 'ArraySubscriptExpr':
            return self.is_derived(e.ch[0], depth + 1)
        if k == 'UnaryOperator':
            if e['op'] in ('*', '&', '++', '--'):
                return self.is_derived(e.ch[0], depth + 1)
            return False
        if k in ('BinaryOperator', 'CompoundAssignOperator'):
            if e['op'] == '=':
                return self.is_derived(e.ch[1], depth + 1)
            if e['op'] in ('+', '-', '+=', '-=') and is_ptr_type(e.get('ct')):
                return self.is_derived(e.ch[0], depth + 1) or self.is_derived(e.ch[1], depth + 1)
            if e['op'] == ',':
                return self.is_derived(e.ch[1], depth + 1)
            return False
        if k == 'ConditionalOperator':
            return self.is_derived(e.ch[1], depth + 1) or self.is_derived(e.ch[2], depth + 1)
        if k == 'MemberExpr':
            return False
        if k == 'CallExpr' and is_ptr_type(e.get('ct')):
            if e.get('callee') in FRESH_MEMORY:
                return False  # returns newly allocated / unrelated storage, not a pointer into its argument
            return any(a is not None and is_ptr_type(a.get('ct')) and self.is_derived(a, depth + 1)
                       for a in e.ch[1:])
        return False

    def stores(self):
        """assignments / ++ / -- whose target object is reached through a derived
        pointer (x[i] = , *x = , x[i][j] = , x->f = )."""
        out = []
        for n in self.func.body.walk():
            tgt = None
            if n.k in ('BinaryOperator', 'CompoundAssignOperator') and \
                    (n['op'] == '=' or n.k == 'CompoundAssignOperator'):
                tgt = strip(n.ch[0])
            elif n.k == 'UnaryOperator' and n['op'] in ('++', '--'):
                tgt = strip(n.ch[0])
            if tgt is None:
                continue
            if tgt.k == 'ArraySubscriptExpr' or (tgt.k == 'UnaryOperator' and tgt['op'] == '*'):
                if self.is_derived(tgt.ch[0]):
                    out.append(n)
            elif tgt.k == 'MemberExpr' and tgt.get('arrow') and self.is_derived(tgt.ch[0]):
                out.append(n)
        return out

    def pointer_args(self):
        """(call node, arg index, arg node) for every derived pointer passed to a call."""
        out = []
        for n in self.func.body.walk():
            if n.k == 'CallExpr':
                for i, a in enumerate(n.ch[1:]):
                    if a is not None and is_ptr_type(a.get('ct')) and self.is_derived(a):
                        out.append((n, i, a))
        return out
