"""A8: presence conditions from raw preprocessor conditionals.

Each source line gets the Boolean formula (over macro atoms) under which the
preprocessor keeps it.  Formulas are tuples:
  ('T',) ('F',) ('def', M) ('val', M) ('not', f) ('and', f, g) ('or', f, g)
"""
import itertools
import re

from .facts import AnalysisBroken

T = ('T',)
F = ('F',)


def f_and(a, b):
    if a == T:
        return b
    if b == T:
        return a
    if a == F or b == F:
        return F
    return ('and', a, b)


def f_or(a, b):
    if a == F:
        return b
    if b == F:
        return a
    if a == T or b == T:
        return T
    return ('or', a, b)


def f_not(a):
    if a == T:
        return F
    if a == F:
        return T
    if a[0] == 'not':
        return a[1]
    return ('not', a)


def atoms(f, acc=None):
    acc = set() if acc is None else acc
    if f[0] in ('def', 'val'):
        acc.add(f)
    elif f[0] in ('not',):
        atoms(f[1], acc)
    elif f[0] in ('and', 'or'):
        atoms(f[1], acc)
        atoms(f[2], acc)
    return acc


def evaluate(f, env):
    k = f[0]
    if k == 'T':
        return True
    if k == 'F':
        return False
    if k in ('def', 'val'):
        return env[f]
    if k == 'not':
        return not evaluate(f[1], env)
    if k == 'and':
        return evaluate(f[1], env) and evaluate(f[2], env)
    if k == 'or':
        return evaluate(f[1], env) or evaluate(f[2], env)
    raise ValueError(f)


def eval_macros(f, defined):
    """evaluate under a concrete set of defined macros (('val',M) true iff defined
    with a non-zero value; `defined` maps name -> value string)."""
    env = {}
    for a in atoms(f):
        if a[0] == 'def':
            env[a] = a[1] in defined
        else:
            v = defined.get(a[1])
            try:
                env[a] = v is not None and int(v, 0) != 0
            except ValueError:
                env[a] = v is not None
    return evaluate(f, env)


def implies(a, b, limit=16):
    """a => b for all assignments of their atoms (truth table)."""
    at = sorted(atoms(a) | atoms(b))
    if len(at) > limit:
        raise AnalysisBroken('presence condition with %d atoms exceeds truth-table limit' % len(at))
    for vals in itertools.product((False, True), repeat=len(at)):
        env = dict(zip(at, vals))
        if evaluate(a, env) and not evaluate(b, env):
            return False
    return True


def equivalent(a, b):
    return implies(a, b) and implies(b, a)


def show(f):
    k = f[0]
    if k == 'T':
        return 'always'
    if k == 'F':
        return 'never'
    if k == 'def':
        return 'defined(%s)' % f[1]
    if k == 'val':
        return f[1]
    if k == 'not':
        return '!' + show(f[1])
    return '(%s %s %s)' % (show(f[1]), '&&' if k == 'and' else '||', show(f[2]))


# ---- #if expression parser ---------------------------------------------------
_tok = re.compile(r'\s*(defined|&&|\|\||!|\(|\)|[A-Za-z_]\w*|\d+[uUlL]*|==|!=|>=|<=|>|<)')


def parse_if(expr):
    toks = []
    pos = 0
    expr = expr.strip()
    while pos < len(expr):
        m = _tok.match(expr, pos)
        if not m:
            raise AnalysisBroken('cannot parse #if expression: %r' % expr)
        toks.append(m.group(1))
        pos = m.end()
    i = [0]

    def peek():
        return toks[i[0]] if i[0] < len(toks) else None

    def eat(t=None):
        x = peek()
        if t is not None and x != t:
            raise AnalysisBroken('cannot parse #if expression: %r' % expr)
        i[0] += 1
        return x

    def p_or():
        a = p_and()
        while peek() == '||':
            eat()
            a = f_or(a, p_and())
        return a

    def p_and():
        a = p_un()
        while peek() == '&&':
            eat()
            a = f_and(a, p_un())
        return a

    def p_un():
        t = peek()
        if t == '!':
            eat()
            return f_not(p_un())
        if t == '(':
            eat()
            a = p_or()
            eat(')')
            return a
        if t == 'defined':
            eat()
            if peek() == '(':
                eat()
                m = eat()
                eat(')')
            else:
                m = eat()
            return ('def', m)
        if t is None:
            raise AnalysisBroken('cannot parse #if expression: %r' % expr)
        eat()
        if re.match(r'\d', t):
            return T if int(re.sub(r'[uUlL]+$', '', t), 0) != 0 else F
        if peek() in ('==', '!=', '>=', '<=', '>', '<'):
            raise AnalysisBroken('comparison in #if not supported: %r' % expr)
        return ('val', t)

    f = p_or()
    if i[0] != len(toks):
        raise AnalysisBroken('cannot parse #if expression: %r' % expr)
    return f


def strip_comments(text):
    """remove /* */ and // comments keeping line structure; string literals are
    respected."""
    out = []
    i, n = 0, len(text)
    while i < n:
        c = text[i]
        if c == '"' or c == "'":
            q = c
            j = i + 1
            while j < n and text[j] != q:
                if text[j] == '\\':
                    j += 1
                j += 1
            out.append(text[i:j + 1])
            i = j + 1
        elif text.startswith('/*', i):
            j = text.find('*/', i + 2)
            j = n if j < 0 else j + 2
            out.append(''.join(ch if ch == '\n' else ' ' for ch in text[i:j]))
            i = j
        elif text.startswith('//', i):
            j = text.find('\n', i)
            j = n if j < 0 else j
            i = j
        else:
            out.append(c)
            i += 1
    return ''.join(out)


class SpanningEntry(AnalysisBroken):
    """an initialiser entry continues across a change of presence condition: a row whose separating comma
    is missing (or sits inside another row's guard) merges with its neighbour in some configurations"""
    def __init__(self, path, line, sofar, lit):
        AnalysisBroken.__init__(self, '%s:%d: initialiser entry spans lines with different presence conditions' % (path, line))
        self.path, self.line, self.sofar, self.lit = path, line, sofar, lit


class PresenceMap:
    """line number (1-based) -> presence condition, plus the code text of each line
    with comments and directives blanked."""

    def __init__(self, path):
        self.path = path
        raw = open(path).read()
        text = strip_comments(raw)
        # join continuation lines logically but keep numbering by blanking
        lines = text.split('\n')
        self.cond = [T] * (len(lines) + 2)
        self.code = [''] * (len(lines) + 2)
        self.includes = []  # (line, header, cond)
        stack = []  # list of [taken-so-far formula, current formula]
        ln = 0
        while ln < len(lines):
            line = lines[ln]
            num = ln + 1
            full = line
            extra = 0
            while full.rstrip().endswith('\\') and ln + extra + 1 < len(lines):
                extra += 1
                full = full.rstrip()[:-1] + ' ' + lines[ln + extra]
            s = full.strip()
            cur = T
            for taken, c in stack:
                cur = f_and(cur, c)
            m = re.match(r'^#\s*(\w+)\s*(.*)$', s)
            if m:
                d, rest = m.group(1), m.group(2).strip()
                if d == 'ifdef':
                    stack.append([('def', rest.split()[0]), ('def', rest.split()[0])])
                elif d == 'ifndef':
                    c = f_not(('def', rest.split()[0]))
                    stack.append([c, c])
                elif d == 'if':
                    c = parse_if(rest)
                    stack.append([c, c])
                elif d == 'elif':
                    if not stack:
                        raise AnalysisBroken('%s:%d: #elif without #if' % (path, num))
                    taken, _ = stack[-1]
                    c = parse_if(rest)
                    stack[-1] = [f_or(taken, c), f_and(f_not(taken), c)]
                elif d == 'else':
                    if not stack:
                        raise AnalysisBroken('%s:%d: #else without #if' % (path, num))
                    taken, _ = stack[-1]
                    stack[-1] = [T, f_not(taken)]
                elif d == 'endif':
                    if not stack:
                        raise AnalysisBroken('%s:%d: #endif without #if' % (path, num))
                    stack.pop()
                elif d == 'include':
                    mm = re.match(r'^[<"]([^>"]+)[>"]', rest)
                    if mm:
                        self.includes.append((num, mm.group(1), cur))
                for k in range(extra + 1):
                    self.cond[num + k] = cur
                    self.code[num + k] = ''
            else:
                for k in range(extra + 1):
                    self.cond[num + k] = cur
                    self.code[num + k] = lines[ln + k]
            ln += extra + 1
        if stack:
            raise AnalysisBroken('%s: unterminated #if' % path)

    def guarded_tokens(self, first, last):
        """initialiser entries between the first '{' at/after line `first` and its
        matching '}' (at or before `last`): list of (token text, condition, line).
        Tokens are separated by top-level commas."""
        out = []
        depth = 0
        started = False
        cur = ''
        cur_cond = None
        cur_line = None
        for num in range(first, last + 1):
            code = self.code[num]
            i = 0
            while i < len(code):
                ch = code[i]
                if ch == '"':
                    j = i + 1
                    while j < len(code) and code[j] != '"':
                        if code[j] == '\\':
                            j += 1
                        j += 1
                    lit = code[i:j + 1]
                    if started and depth == 1:
                        if cur_cond is None:
                            cur_cond, cur_line = self.cond[num], num
                        elif self.cond[num] != cur_cond:
                            raise SpanningEntry(self.path, num, cur, lit)
                        cur += lit
                    i = j + 1
                    continue
                if ch == '{':
                    depth += 1
                    if depth == 1:
                        started = True
                        i += 1
                        continue
                if ch == '}':
                    depth -= 1
                    if depth == 0 and started:
                        if cur.strip():
                            out.append((cur.strip(), cur_cond, cur_line))
                        return out
                if started and depth >= 1:
                    if ch == ',' and depth == 1:
                        if cur.strip():
                            out.append((cur.strip(), cur_cond, cur_line))
                        elif cur_cond is not None:
                            pass
                        cur, cur_cond, cur_line = '', None, None
                    elif not ch.isspace() or cur:
                        if not ch.isspace():
                            if cur_cond is None:
                                cur_cond, cur_line = self.cond[num], num
                            elif self.cond[num] != cur_cond:
                                raise AnalysisBroken(
                                    '%s:%d: initialiser entry spans lines with different '
                                    'presence conditions' % (self.path, num))
                        cur += ch
                i += 1
            if cur:
                cur += ' '
        raise AnalysisBroken('%s:%d-%d: initialiser braces not found' % (self.path, first, last))
