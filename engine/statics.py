"""A6: accesses to objects with static storage duration, lock typestate at each
access, and a deny-list of non-reentrant libc functions."""
from . import cfg as C
from .dataflow import decl_of
from .facts import render, strip
from . import fmt

NON_REENTRANT = {'strtok', 'getpwuid', 'getpwnam', 'getgrgid', 'getgrnam', 'getlogin', 'ttyname', 'localtime',
                 'gmtime', 'ctime', 'asctime', 'strerror', 'readdir', 'setutent', 'getutent', 'getutline',
                 'getutid', 'endutent', 'pututline', 'setpwent', 'getpwent', 'endpwent', 'setgrent', 'getgrent',
                 'endgrent', 'gethostbyname', 'gethostbyaddr', 'getservbyname', 'getprotobyname', 'inet_ntoa',
                 'rand', 'srand', 'random', 'drand48', 'lrand48', 'ptsname', 'tmpnam', 'tempnam', 'basename',
                 'dirname', 'ecvt', 'fcvt', 'getenv_unsafe', 'setenv', 'putenv', 'unsetenv', 'crypt', 'nl_langinfo',
                 'getutline_r', 'getutent_r', 'getutid_r', 'utmpname', 'getopt', 'getmntent', 'l64a', 'hcreate',
                 'hsearch', 'hdestroy', 'setlocale', 'catgets', 'dlerror', 'ether_ntoa', 'getdate', 'wcstombs_unsafe',
                 'setnetent', 'getnetent', 'fcloseall', 'strsignal', 'getpass', 'lgamma', 'mbrlen_null'}
# writer APIs: index of the destination argument
DEST_ARG = {'snprintf': 0, 'sprintf': 0, 'strcpy': 0, 'strncpy': 0, 'strcat': 0, 'strncat': 0, 'memcpy': 0,
            'memset': 0, 'memmove': 0, 'getlogin_r': 0, 'gethostname': 0, 'getcwd': 0, 'ttyname_r': 1,
            'fgets': 0, 'fread': 0, 'strftime': 0, 'read': 1, 'readlink': 1, 'getline': 0, 'strerror_r': 1,
            'inet_ntop': 2, 'stat': 1, 'gettimeofday': 0, 'localtime_r': 1, 'sscanf': None, 'vsnprintf': 0}


class Access:
    __slots__ = ('func', 'node', 'var', 'write', 'how', 'static_local', 'const', 'vtype')

    def __init__(self, func, node, var, write, how, static_local, const, vtype=''):
        self.vtype = vtype
        self.func = func
        self.node = node
        self.var = var
        self.write = write
        self.how = how
        self.static_local = static_local
        self.const = const


def _static_base(node):
    """(name, ref dict) of the static-storage variable an lvalue/pointer expression is
    rooted in, following subscripts, members, derefs of the array itself, & and casts."""
    s = strip(node)
    depth = 0
    while s is not None and depth < 20:
        depth += 1
        if s.k in ('ArraySubscriptExpr', 'MemberExpr'):
            if s.k == 'MemberExpr' and s.get('arrow'):
                # p->f : the object is what p points to, not p itself
                return None
            s = strip(s.ch[0])
            continue
        if s.k == 'UnaryOperator' and s['op'] == '&':
            s = strip(s.ch[0])
            continue
        if s.k == 'BinaryOperator' and s['op'] in ('+', '-'):
            s = strip(s.ch[0])
            continue
        break
    if s is not None and s.k == 'DeclRefExpr' and s['ref']['kind'] == 'var' and s['ref'].get('staticStorage'):
        return s['ref']
    return None


def _is_array_or_addr(node):
    """expression designates the storage of the variable itself (array decays / &var),
    as opposed to the value of a pointer variable"""
    s = strip(node)
    if s is None:
        return False
    if s.k == 'UnaryOperator' and s['op'] == '&':
        return True
    t = s.get('ct') or ''
    return t.rstrip().endswith(']')


def _var_type(func, ref):
    for n in func.body.walk():
        if n.k == 'DeclRefExpr' and n['ref'].get('id') == ref['id']:
            return n.get('ct') or ''
    return ''


def static_accesses(func, writes_param=None):
    """writes (and address-escapes) of static-storage objects in func.
    writes_param(callee name, arg index) -> bool refines calls to program functions."""
    out = []

    def add(node, ref, write, how):
        out.append(Access(func, node, ref['name'], write, how, bool(ref.get('staticLocal')), False,
                          _var_type(func, ref)))

    # local pointers that alias static storage (char *p = staticBuf; p = &staticObj; ...)
    from .dataflow import PtrTaint

    def static_seed(x):
        if x.k == 'DeclRefExpr' and x['ref']['kind'] == 'var' and x['ref'].get('staticStorage'):
            return (x.get('ct') or '').rstrip().endswith(']')
        if x.k == 'UnaryOperator' and x['op'] == '&':
            t = strip(x.ch[0])
            return t is not None and t.k == 'DeclRefExpr' and t['ref']['kind'] == 'var' and bool(t['ref'].get('staticStorage'))
        return False
    pt = PtrTaint(func, static_seed)

    def alias_root(e):
        """the static variable a derived local pointer expression may point into"""
        for x in e.walk():
            if x.k == 'DeclRefExpr' and x['ref']['kind'] == 'var' and x['ref']['id'] in pt.derived:
                from .dataflow import def_exprs
                for d in def_exprs(func, x['ref']['id']):
                    for y in d.walk():
                        if static_seed(y):
                            t = y if y.k == 'DeclRefExpr' else strip(y.ch[0])
                            return t['ref']
        return None
    if pt.derived:
        for n in func.body.walk():
            if n.k == 'CallExpr':
                ptypes = n.get('calleeParamTypes') or []
                for i, a in enumerate(n.ch[1:]):
                    if a is None or not (a.get('ct') or '').rstrip().endswith('*'):
                        continue
                    sa = strip(a)
                    if sa is None or sa.k != 'DeclRefExpr' or sa['ref']['id'] not in pt.derived:
                        continue
                    pty = ptypes[i] if i < len(ptypes) else (a.get('ct') or '')
                    if _pointee_const(pty):
                        continue
                    if writes_param is not None and n.get('callee') and writes_param(func, n['callee'], i) is False:
                        continue
                    r0 = alias_root(a)
                    if r0 is not None:
                        add(n, r0, True, 'static storage passed (through local pointer %s) as writable argument #%d of %s' % (
                            sa['ref']['name'], i, n.get('callee') or 'indirect call'))
            elif n.k in ('BinaryOperator', 'CompoundAssignOperator') and (n['op'] == '=' or n.k == 'CompoundAssignOperator'):
                l = strip(n.ch[0])
                if l.k == 'ArraySubscriptExpr' or (l.k == 'UnaryOperator' and l['op'] == '*'):
                    b0 = strip(l.ch[0])
                    if b0 is not None and b0.k == 'DeclRefExpr' and b0['ref']['id'] in pt.derived:
                        r0 = alias_root(b0)
                        if r0 is not None:
                            add(n, r0, True, 'store through local pointer %s into static storage' % b0['ref']['name'])
    for n in func.body.walk():
        if n.k in ('BinaryOperator', 'CompoundAssignOperator') and (n['op'] == '=' or n.k == 'CompoundAssignOperator'):
            l = strip(n.ch[0])
            ref = None
            if l.k == 'DeclRefExpr' and l['ref']['kind'] == 'var' and l['ref'].get('staticStorage'):
                ref = l['ref']
            elif l.k in ('ArraySubscriptExpr', 'MemberExpr') or (l.k == 'UnaryOperator' and l['op'] == '*'):
                # store into the object only when the path from the variable does not go through
                # a pointer VALUE (p[i] with p a static pointer writes *p, not p)
                r0 = _static_base(l)
                if r0 is not None and _roots_in_storage(l):
                    ref = r0
            if ref is not None:
                add(n, ref, True, 'assigned: %s' % render(n)[:80])
        elif n.k == 'UnaryOperator' and n['op'] in ('++', '--'):
            l = strip(n.ch[0])
            r0 = _static_base(l)
            if r0 is not None and (l.k == 'DeclRefExpr' or _roots_in_storage(l)):
                add(n, r0, True, 'modified: %s' % render(n))
        elif n.k == 'CallExpr':
            name = n.get('callee')
            ptypes = n.get('calleeParamTypes') or []
            for i, a in enumerate(n.ch[1:]):
                if a is None:
                    continue
                r0 = _static_base(a)
                if r0 is None or not _is_array_or_addr(a) and not _roots_in_storage_ptr(a):
                    continue
                if not (a.get('ct') or '').rstrip().endswith('*'):
                    continue
                pty = ptypes[i] if i < len(ptypes) else (a.get('ct') or '')
                if _pointee_const(pty):
                    continue
                if writes_param is not None and name is not None:
                    w = writes_param(func, name, i)
                    if w is False:
                        continue  # the program function provably only reads through this parameter
                add(n, r0, True, 'storage passed as writable argument #%d of %s' % (i, name or 'indirect call'))
    return out


def _roots_in_storage(l):
    """lvalue designates bytes inside the static object itself: every step from the
    variable is a subscript of an ARRAY, a '.' member, never a pointer dereference."""
    s = strip(l)
    while s is not None:
        if s.k == 'ArraySubscriptExpr':
            base = strip(s.ch[0], casts=False)
            # base after array-to-pointer decay: look below the implicit cast
            inner = s.ch[0]
            while inner is not None and inner.k in ('ImplicitCastExpr', 'ParenExpr'):
                if inner.k == 'ImplicitCastExpr' and inner.get('cast') == 'ArrayToPointerDecay':
                    break
                inner = inner.ch[0]
            if inner is None or inner.k != 'ImplicitCastExpr':
                return False  # subscript of a pointer value
            s = strip(inner.ch[0])
            continue
        if s.k == 'MemberExpr':
            if s.get('arrow'):
                return False
            s = strip(s.ch[0])
            continue
        if s.k == 'UnaryOperator' and s['op'] == '*':
            inner = s.ch[0]
            while inner is not None and inner.k in ('ImplicitCastExpr', 'ParenExpr'):
                if inner.k == 'ImplicitCastExpr' and inner.get('cast') == 'ArrayToPointerDecay':
                    break
                inner = inner.ch[0]
            if inner is None or inner.k != 'ImplicitCastExpr':
                return False
            s = strip(inner.ch[0])
            continue
        break
    return s is not None and s.k == 'DeclRefExpr'


def _roots_in_storage_ptr(a):
    """pointer expression points into the static object's own bytes"""
    s = a
    while s is not None and s.k in ('ImplicitCastExpr', 'ParenExpr', 'CStyleCastExpr'):
        if s.k == 'ImplicitCastExpr' and s.get('cast') == 'ArrayToPointerDecay':
            return _roots_in_storage(s.ch[0]) or strip(s.ch[0]).k == 'DeclRefExpr'
        s = s.ch[0]
    if s is not None and s.k == 'UnaryOperator' and s['op'] == '&':
        t = strip(s.ch[0])
        return t.k == 'DeclRefExpr' or _roots_in_storage(t)
    if s is not None and s.k == 'BinaryOperator' and s['op'] in ('+', '-'):
        return _roots_in_storage_ptr(s.ch[0])
    return False


def _pointee_const(ct):
    """is the pointee of the (canonical) pointer type const-qualified?  Qualifiers of the
    pointer object itself (const, restrict, __restrict, volatile after the last '*') are ignored."""
    import re
    ct = (ct or '').strip()
    ct = re.sub(r'\*\s*((?:const|volatile|restrict|__restrict|__restrict__)\s*)+$', '*', ct).strip()
    if not ct.endswith('*'):
        return True
    inner = ct[:-1].strip()
    if re.search(r'\bconst$', inner):
        return True
    if inner.endswith('*'):
        return False
    return bool(re.match(r'^(?:volatile\s+)?const\b', inner))


def lock_state_at(func, mutex_name, lock_apis=('pthread_mutex_lock',), unlock_apis=('pthread_mutex_unlock',),
                  entry_held=False, const_params=None):
    """node id -> set of {'held','free'} lock states possible at each CFG element, by a
    forward may-analysis; correlated branches on unmodified parameters are pruned when
    const_params (param index -> constant) fixes their value."""
    from .pairing import Pairing  # noqa (only for the helper below)

    def mutex_of(call):
        a = strip(call.ch[1]) if len(call.ch) > 1 else None
        if a is not None and a.k == 'UnaryOperator' and a['op'] == '&':
            a = strip(a.ch[0])
        r = decl_of(a) if a is not None else None
        return r['name'] if r is not None else None

    states = {}

    def transfer(st, e):
        states.setdefault(e.id, set()).update(st)
        if e.k == 'CallExpr':
            if e.get('callee') in lock_apis and mutex_of(e) == mutex_name:
                return frozenset({'held'})
            if e.get('callee') in unlock_apis and mutex_of(e) == mutex_name:
                return frozenset({'free'})
        return st

    def edge(st, block, si):
        if const_params and block.cond is not None and len(block.all_succs) == 2:
            v = _eval_cond(block.cond, func, const_params)
            if v is not None:
                if (si == 0) != v:
                    return None
        return st

    init = frozenset({'held' if entry_held else 'free'})
    instates = C.forward_dataflow(func, init, transfer, lambda a, b: a | b, edge_transfer=edge)
    return states, instates.get(func.exit)


def _eval_cond(cond, func, const_params):
    c = strip(cond)
    neg = False
    while c is not None and c.k == 'UnaryOperator' and c['op'] == '!':
        neg = not neg
        c = strip(c.ch[0])
    if c is None:
        return None
    if c.k == 'BinaryOperator' and c['op'] in ('==', '!='):
        l, r = strip(c.ch[0]), strip(c.ch[1])
        for x, y in ((l, r), (r, l)):
            d = decl_of(x)
            if d is not None and d['kind'] == 'parm' and d['index'] in const_params and 'v' in y.d:
                res = (const_params[d['index']] == y['v'])
                if c['op'] == '!=':
                    res = not res
                return res != neg
    d = decl_of(c)
    if d is not None and d['kind'] == 'parm' and d['index'] in const_params:
        return (const_params[d['index']] != 0) != neg
    return None
