"""A5: may-be-NULL pointers and only-valid-on-success buffers.

Forward may-analysis per function.  State = frozenset of facts:
  ('null', ent)            entity may be NULL here
  ('invalid', ent, tok)    entity's content is not valid unless the call `tok`
                           succeeded (tok = call node id)
Entities: ('v', decl id) locals/params, ('g', name) globals.
Violations: a fact is alive at a use that needs a valid / non-NULL entity."""
from . import cfg as C
from .dataflow import decl_of
from .facts import render, strip
from .polarity import FAILS, NEG, NONZERO, NULLP, ZERO, cond_outcome
from . import fmt

# APIs whose pointer result may be NULL (malloc family excluded: memory exhaustion is
# outside the properties' domain)
NULL_RESULT = {'fopen', 'fdopen', 'freopen', 'getenv', 'strchr', 'strrchr', 'strstr', 'strcasestr',
               'strtok_r', 'strtok', 'fgets', 'getcwd', 'localtime_r', 'localtime', 'gmtime_r', 'opendir',
               'readdir', 'memchr', 'strpbrk', 'getpwuid', 'getgrgid', 'ttyname', 'getlogin', 'realpath',
               'getutline', 'getutent', 'secure_getenv', 'index', 'rindex', 'popen', 'tmpfile'}
# API -> (indices of out-buffer arguments whose content is only valid on success)
OUT_BUFFERS = {
    'ttyname_r': [1], 'getlogin_r': [0], 'gethostname': [0], 'getcwd': [0], 'strftime': [0], 'fgets': [0],
    'stat': [1], 'fstat': [1], 'lstat': [1], 'gettimeofday': [0], 'localtime_r': [1], 'gmtime_r': [1],
    'getpwuid_r': [1], 'getgrgid_r': [1], 'readlink': [1], 'inet_ntop': [2], 'getdomainname': [0],
    'getutline_r': [1], 'getline': [0], 'clock_gettime': [1], 'time': [],
}
# API -> indices of "result pointer" out-arguments that are NULL when nothing was found
OUT_NULLABLE = {'getpwuid_r': [4], 'getgrgid_r': [4], 'getutline_r': [2]}
# external functions that accept NULL for the given argument index (others are assumed to
# dereference every pointer argument)
NULL_OK = {'free': {0}, 'realloc': {0}, 'strtok_r': {0}, 'time': {0}, 'gettimeofday': {1}, 'setvbuf': {1},
           'fflush': {0}, 'getcwd': {0}, 'realpath': {1}, 'strtol': {1}, 'strtoul': {1}, 'strtoll': {1},
           'strtod': {1}, 'sigaction': {1, 2}, 'sigprocmask': {1, 2}, 'pthread_sigmask': {1, 2},
           'pthread_create': {1, 3}, 'pthread_mutex_init': {1}, 'pthread_join': {1}, 'getline': set(),
           'setlocale': {1}, 'select': {1, 2, 3, 4}, 'waitpid': {1}, 'wait': {0}, 'pthread_atfork': {0, 1, 2},
           'dlopen': {0}, 'execv': set(), 'ini_parse': {2}, 'snoopy_ini_parse': {2}}
# functions that write their destination argument (index) making it valid again
WRITERS = {'snprintf': 0, 'sprintf': 0, 'strcpy': 0, 'strncpy': 0, 'memset': 0, 'memcpy': 0, 'strcat': None,
           'stpcpy': 0, 'memmove': 0}
NULLABLE_GLOBALS = {'environ', '__environ'}


# record fields that may legitimately be NULL (exec inputs): record -> fields
NULLABLE_FIELDS = {'snoopy_inputdatastorage_t': {'argv', 'envp'}}
# ... and whose first element may be NULL
NULLABLE_FIRST_ELEM = {'snoopy_inputdatastorage_t': {'argv'}}


def ent_of(node):
    s = strip(node)
    if s is None:
        return None
    if s.k == 'MemberExpr' and s.get('member') in NULLABLE_FIELDS.get(s.get('record'), ()):
        return ('f', s.get('record'), s.get('member'))
    if s.k == 'ArraySubscriptExpr':
        b = strip(s.ch[0])
        if b is not None and b.k == 'MemberExpr' and b.get('member') in NULLABLE_FIRST_ELEM.get(b.get('record'), ()) \
                and strip(s.ch[1]).get('v') == 0:
            return ('e', b.get('record'), b.get('member'))
        return None
    if s.k == 'UnaryOperator' and s['op'] == '&':
        s = strip(s.ch[0])
        if s is None:
            return None
    if s.k == 'DeclRefExpr' and s['ref']['kind'] in ('var', 'parm'):
        if s['ref'].get('fileScope') or (s['ref']['kind'] == 'var' and s['ref'].get('staticStorage') and
                                          not s['ref'].get('staticLocal')):
            return ('g', s['ref']['name'])
        return ('v', s['ref']['id'])
    return None


def ent_name(func, ent):
    if ent[0] == 'g':
        return ent[1]
    if ent[0] == 'f':
        return '%s->%s' % (ent[1], ent[2])
    if ent[0] == 'e':
        return '%s->%s[0]' % (ent[1], ent[2])
    for p in func.params:
        if p['id'] == ent[1]:
            return p['name']
    for d in func.local_decls():
        if d['id'] == ent[1]:
            return d['name']
    return str(ent)


class Violation:
    def __init__(self, kind, func, node, ent, origin, detail):
        self.kind = kind
        self.func = func
        self.node = node
        self.ent = ent
        self.origin = origin
        self.detail = detail

    def key(self):
        return '%s:%s:%s' % (self.func.name, ent_name(self.func, self.ent), self.kind)


class NullAnalysis:
    def __init__(self, prog, cg, nullable_params=None, extra_null_sources=None):
        self.prog = prog
        self.cg = cg
        self._ret_null = {}
        self._param_deref = {}
        self.extra_null_sources = extra_null_sources or (lambda func, node: False)
        self.sites = 0          # fallible call sites seen
        self.uses = 0           # uses checked

    # ---- summaries --------------------------------------------------------------
    def may_return_null(self, f, depth=0):
        if f.key in self._ret_null:
            return self._ret_null[f.key]
        self._ret_null[f.key] = False
        res = False
        if f.d.get('retCanon', '').endswith('*'):
            for r in C.return_nodes(f):
                v = strip(r.ch[0]) if r.ch else None
                if v is None:
                    continue
                if v.get('null') or v.get('v') == 0:
                    res = True
                e = ent_of(v)
                if e is not None:
                    for d in self._defs(f, e):
                        sd = strip(d)
                        if sd is not None and (sd.get('null') or sd.get('v') == 0):
                            res = True
                        if sd is not None and sd.k == 'CallExpr' and self.call_may_return_null(f, sd):
                            res = True
                if v.k == 'CallExpr' and self.call_may_return_null(f, v):
                    res = True
        self._ret_null[f.key] = res
        return res

    def _defs(self, f, ent):
        from .dataflow import def_exprs
        if ent[0] != 'v':
            return []
        return def_exprs(f, ent[1])

    def call_may_return_null(self, f, call):
        n = call.get('callee')
        if n in NULL_RESULT:
            return True
        if n is None:
            return False
        t = self.prog.func(n, f.tu)
        if t is not None and t is not f:
            return self.may_return_null(t)
        return False

    def param_needs_nonnull(self, f, idx):
        """does f dereference parameter idx without testing it for NULL first?"""
        key = (f.key, idx)
        if key in self._param_deref:
            return self._param_deref[key]
        self._param_deref[key] = False  # cycle guard
        if idx >= len(f.params):
            return False
        ent = ('v', f.params[idx]['id'])
        vio = self.analyse(f, initial={('null', ent)}, only_ent=ent, summary_mode=True)
        res = bool(vio)
        self._param_deref[key] = res
        return res

    # ---- the dataflow --------------------------------------------------------------
    def analyse(self, func, initial=(), only_ent=None, summary_mode=False):
        vios = []
        seen = set()
        if func.cfg_error:
            return vios

        def report(kind, node, ent, origin, detail):
            k = (kind, node.id, ent)
            if k in seen:
                return
            seen.add(k)
            vios.append(Violation(kind, func, node, ent, origin, detail))

        init = set(initial)
        if not summary_mode:
            for g in NULLABLE_GLOBALS:
                init.add(('null', ('g', g)))
            for rec, flds in NULLABLE_FIELDS.items():
                for fl in flds:
                    init.add(('null', ('f', rec, fl)))
            for rec, flds in NULLABLE_FIRST_ELEM.items():
                for fl in flds:
                    init.add(('null', ('e', rec, fl)))
        origins = {}

        def kill_ent(st, ent):
            return frozenset(f for f in st if f[1] != ent)

        def assigned_value_facts(st, tgt, rhs):
            """facts for tgt after `tgt = rhs`"""
            out = set(f for f in st if f[1] != tgt)
            r = strip(rhs)
            if r is None:
                return frozenset(out)
            if r.k == 'CallExpr':
                if self.call_may_return_null(func, r) or self.extra_null_sources(func, r):
                    out.add(('null', tgt))
                    origins[tgt] = r
            elif r.get('null') or (r.get('v') == 0 and (rhs.get('ct') or '').endswith('*')):
                out.add(('null', tgt))
                origins.setdefault(tgt, r)
            else:
                e = ent_of(r) if r.k == 'DeclRefExpr' else None
                if e is not None and ('null', e) in st:
                    out.add(('null', tgt))
                    origins[tgt] = origins.get(e, r)
                elif r.k == 'ConditionalOperator':
                    for br in r.ch[1:]:
                        sb = strip(br)
                        if sb is not None and (sb.get('null') or (sb.k == 'CallExpr' and self.call_may_return_null(func, sb))):
                            out.add(('null', tgt))
                            origins[tgt] = r
            return frozenset(out)

        def need_nonnull(st, node, expr, why):
            """expr is used in a way that requires a non-NULL pointer"""
            if only_ent is None:
                self.uses += 1
            s = strip(expr)
            if s is None:
                return
            e = ent_of(s) if s.k in ('DeclRefExpr', 'MemberExpr', 'ArraySubscriptExpr') else None
            if e is not None:
                if ('null', e) in st and (only_ent is None or e == only_ent):
                    o = origins.get(e)
                    report('null-deref', node, e, o,
                           '%s may be NULL here (%s) and is %s' % (
                               ent_name(func, e),
                               'from %s at %s' % (render(o), o.where()) if o is not None else 'never tested',
                               why))
                return
            if s.k == 'CallExpr' and only_ent is None:
                if self.call_may_return_null(func, s) or self.extra_null_sources(func, s):
                    report('null-deref', node, ('v', -s.id), s,
                           'the result of %s may be NULL and is %s without a test' % (render(s), why))
                return
            if s.k == 'BinaryOperator' and s['op'] in ('+', '-') and (s.get('ct') or '').endswith('*'):
                need_nonnull(st, node, s.ch[0], why)
                return
            if s.k == 'BinaryOperator' and s['op'] == '=':
                # (p = f()) used directly
                need_nonnull(assigned_state_after(st, s), node, s.ch[0], why)
                return
            if s.k == 'ConditionalOperator':
                return

        def assigned_state_after(st, asg):
            tgt = ent_of(asg.ch[0])
            if tgt is None:
                return st
            return assigned_value_facts(st, tgt, asg.ch[1])

        def need_valid(st, node, expr, why):
            e = ent_of(expr)
            if e is None:
                s = strip(expr)
                # member of a struct entity: tv.tv_sec, statbuffer.st_uid, pwd.pw_name
                while s is not None and s.k in ('MemberExpr', 'ArraySubscriptExpr'):
                    s = strip(s.ch[0])
                e = ent_of(s) if s is not None else None
            if e is None:
                return
            for f in st:
                if f[0] == 'invalid' and f[1] == e and (only_ent is None):
                    call = func.nodes[f[2]]
                    report('invalid-read', node, e, call,
                           '%s is only valid when %s succeeded, but it is %s on a path where the call failed or its '
                           'result was not tested' % (ent_name(func, e), render(call), why))

        def transfer(st, e):
            k = e.k
            if k == 'CallExpr':
                name = e.get('callee')
                args = e.ch[1:]
                # reads first (arguments are evaluated before the call's effects)
                binds = fmt.variadic_bindings(e) if name in fmt.PRINTF_FAMILY else None
                np = e.get('calleeNumParams')
                tgt = self.prog.func(name, func.tu) if name else None
                for i, a in enumerate(args):
                    if a is None:
                        continue
                    is_ptr = (a.get('ct') or '').rstrip().endswith('*')
                    if not is_ptr:
                        # integer arguments read from struct entities (tv.tv_sec ...)
                        need_valid(st, e, a, 'read as an argument of %s' % (name or 'a call'))
                        continue
                    dest_idx = WRITERS.get(name, -1)
                    if name in OUT_BUFFERS and i in OUT_BUFFERS[name]:
                        pass
                    elif name in OUT_NULLABLE and i in OUT_NULLABLE[name]:
                        pass
                    elif dest_idx == i:
                        need_nonnull(st, e, a, 'written to by %s' % name)
                    else:
                        if tgt is not None:
                            if self.param_needs_nonnull(tgt, i):
                                need_nonnull(st, e, a, 'passed to %s, which dereferences it' % name)
                        elif name is None:
                            pass  # indirect call: members are checked through their own summaries
                        elif i not in NULL_OK.get(name, set()):
                            need_nonnull(st, e, a, 'passed to %s' % name)
                        if np is not None and i >= np and binds is not None:
                            conv = [d['conv'] for an, d, role in binds if an is a and role == 'value']
                            if conv and conv[0] == 's':
                                need_valid(st, e, a, 'read as a string by %s' % name)
                        elif name not in ('free',):
                            need_valid(st, e, a, 'read by %s' % (name or 'a call'))
                # effects
                new = set(st)
                if name in OUT_BUFFERS:
                    self.sites += 1 if only_ent is None else 0
                    for i in OUT_BUFFERS[name]:
                        if i < len(args):
                            b = ent_of(args[i])
                            if b is not None:
                                new = set(f for f in new if not (f[0] == 'invalid' and f[1] == b))
                                new.add(('invalid', b, e.id))
                if name in OUT_NULLABLE:
                    for i in OUT_NULLABLE[name]:
                        if i < len(args):
                            b = ent_of(args[i])
                            if b is not None:
                                new.add(('null', b))
                                origins[b] = e
                if name in WRITERS and WRITERS[name] is not None and WRITERS[name] < len(args):
                    b = ent_of(args[WRITERS[name]])
                    if b is not None:
                        new = set(f for f in new if not (f[0] == 'invalid' and f[1] == b))
                # passing &v to any other call: v may be assigned (e.g. strtok_r(&saveptr), getline(&line))
                if name not in OUT_NULLABLE:
                    for i, a in enumerate(args):
                        s = strip(a) if a is not None else None
                        if s is not None and s.k == 'UnaryOperator' and s['op'] == '&':
                            b = ent_of(s)
                            if b is not None:
                                new = set(f for f in new if not (f[0] == 'null' and f[1] == b))
                if name in NULL_RESULT and only_ent is None:
                    self.sites += 1
                return frozenset(new)
            if k == 'BinaryOperator' and e['op'] == '=':
                tgt = ent_of(e.ch[0]) if strip(e.ch[0]).k == 'DeclRefExpr' else None
                if tgt is not None:
                    return assigned_value_facts(st, tgt, e.ch[1])
                # store through a pointer / into an array element
                l = strip(e.ch[0])
                if l.k == 'ArraySubscriptExpr' or (l.k == 'UnaryOperator' and l['op'] == '*'):
                    need_nonnull(st, e, l.ch[0], 'written through')
                    b = ent_of(l.ch[0])
                    if b is not None:
                        # a store into the buffer (e.g. buf[0] = '\0') makes it a valid string again
                        return frozenset(f for f in st if not (f[0] == 'invalid' and f[1] == b))
                elif l.k == 'MemberExpr' and l.get('arrow'):
                    need_nonnull(st, e, l.ch[0], 'written through')
                return st
            if k == 'CompoundAssignOperator':
                tgt = ent_of(e.ch[0]) if strip(e.ch[0]).k == 'DeclRefExpr' else None
                if tgt is not None and (e.ch[0].get('ct') or '').endswith('*'):
                    need_nonnull(st, e, e.ch[0], 'advanced by pointer arithmetic')
                return st
            if k == 'DeclStmt':
                new = st
                for d in e['decls']:
                    if d.get('init', -1) != -1:
                        new = assigned_value_facts(new, ('v', d['id']), func.nodes[d['init']])
                    else:
                        new = kill_ent(new, ('v', d['id']))
                return new
            if k == 'UnaryOperator':
                if e['op'] == '*':
                    need_nonnull(st, e, e.ch[0], 'dereferenced')
                elif e['op'] in ('++', '--') and (e.ch[0].get('ct') or '').endswith('*'):
                    need_nonnull(st, e, e.ch[0], 'advanced by pointer arithmetic')
                return st
            if k == 'ArraySubscriptExpr':
                base = e.ch[0]
                need_nonnull(st, e, base, 'indexed')
                # reading an element of an invalid buffer (only if it is an rvalue use)
                p = e.parent
                if p is not None and p.k == 'ImplicitCastExpr' and p.get('cast') == 'LValueToRValue':
                    need_valid(st, e, base, 'read')
                return st
            if k == 'MemberExpr':
                if e.get('arrow'):
                    need_nonnull(st, e, e.ch[0], 'dereferenced (->%s)' % e.get('member'))
                else:
                    p = e.parent
                    if p is not None and p.k == 'ImplicitCastExpr' and p.get('cast') == 'LValueToRValue':
                        need_valid(st, e, e, 'read (.%s)' % e.get('member'))
                return st
            if k == 'BinaryOperator' and e['op'] in ('+', '-') and (e.get('ct') or '').endswith('*'):
                for c in e.ch:
                    if c is not None and (c.get('ct') or '').endswith('*'):
                        need_nonnull(st, e, c, 'used in pointer arithmetic')
                return st
            if k == 'ReturnStmt' and e.ch:
                return st
            return st

        def edge(st, block, si):
            cond = block.cond
            if cond is None or len(block.all_succs) != 2:
                return st
            new = set(st)
            c = strip(cond)
            # --- NULL tests on entities ---
            for ent, null_edge in null_tests(c):
                if null_edge is None:
                    continue
                if si == null_edge:
                    pass  # stays (may be) NULL; could mark definitely-null
                else:
                    new.discard(('null', ent))
            # --- result tests for invalid-buffer tokens ---
            for f in list(new):
                if f[0] != 'invalid':
                    continue
                call = func.nodes[f[2]]
                conv = FAILS.get(call.get('callee'))
                if conv is None:
                    continue
                holders = result_holders(func, call)

                def tp(n):
                    if n is call:
                        return True
                    if n.k == 'DeclRefExpr' and n['ref']['kind'] in ('var', 'parm') and n['ref']['id'] in holders:
                        return True
                    if n.k == 'BinaryOperator' and n['op'] == '=' and strip(n.ch[1]) is call:
                        return True
                    return False
                pol = cond_outcome(c, tp, conv)
                if pol is None:
                    continue
                fail_idx = 0 if pol == 'T' else 1
                if si != fail_idx:
                    new.discard(f)
            return frozenset(new)

        def null_tests(c):
            """[(entity, successor index taken when entity is NULL)]"""
            out = []
            neg = False
            while c is not None and c.k == 'UnaryOperator' and c['op'] == '!':
                neg = not neg
                c = strip(c.ch[0])
            if c is None:
                return out

            def ent_in(x):
                x = strip(x)
                if x is None:
                    return None
                if x.k == 'BinaryOperator' and x['op'] == '=':
                    return ent_of(x.ch[0])
                if x.k in ('DeclRefExpr', 'MemberExpr', 'ArraySubscriptExpr'):
                    return ent_of(x)
                return None
            if c.k == 'BinaryOperator' and c['op'] in ('==', '!='):
                l, r = c.ch[0], c.ch[1]
                sl, sr = strip(l), strip(r)
                isnull = lambda x, raw: x is not None and (x.get('null') or raw.get('null') or
                                                           (x.get('v') == 0 and x.k in ('IntegerLiteral',)))
                e = None
                if isnull(sr, r):
                    e = ent_in(l)
                elif isnull(sl, l):
                    e = ent_in(r)
                if e is not None and ((l.get('ct') or '').endswith('*') or (r.get('ct') or '').endswith('*')):
                    null_on_true = (c['op'] == '==') != neg
                    out.append((e, 0 if null_on_true else 1))
                return out
            e = ent_in(c)
            if e is not None and (c.get('ct') or '').rstrip().endswith('*'):
                # bare pointer as condition: true = non-NULL
                null_on_true = neg
                out.append((e, 0 if null_on_true else 1))
            return out

        C.forward_dataflow(func, frozenset(init), transfer, lambda a, b: a | b, edge_transfer=edge)
        return vios


def result_holders(func, call):
    hs = set()
    p = call.parent
    while p is not None and p.k in ('ImplicitCastExpr', 'ParenExpr', 'CStyleCastExpr'):
        p = p.parent
    if p is not None and p.k == 'BinaryOperator' and p['op'] == '=':
        r = decl_of(p.ch[0])
        if r is not None:
            hs.add(r['id'])
    elif p is not None and p.k == 'DeclStmt':
        for d in p['decls']:
            if d.get('init', -1) != -1 and strip(func.nodes[d['init']]) is call:
                hs.add(d['id'])
    return hs
