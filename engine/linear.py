"""A4 support: linear symbolic forms of integer expressions and a small
Fourier-Motzkin entailment over rationals (sound for the integer facts used here).

A linear form is (dict symbol -> coefficient, constant).  Symbols are hashable
tuples: ('strlen', key) ('var', decl id, name) ('field', text) ('opaque', node id)."""

from .dataflow import decl_of, def_sites
from .facts import render, strip


class Lin:
    """sum of coefficient*symbol + constant; coefficients are Python ints (all arithmetic here is
    integer: constants, element sizes and Fourier-Motzkin combinations)."""
    __slots__ = ('t', 'c', '_h')

    def __init__(self, t=None, c=0):
        self.t = {k: v for k, v in t.items() if v != 0} if t else {}
        self.c = c
        self._h = None

    @staticmethod
    def const(c):
        return Lin(None, c)

    @staticmethod
    def sym(s):
        return Lin({s: 1}, 0)

    def __add__(self, o):
        t = dict(self.t)
        for k, v in o.t.items():
            nv = t.get(k, 0) + v
            if nv:
                t[k] = nv
            else:
                t.pop(k, None)
        r = Lin(None, self.c + o.c)
        r.t = t
        return r

    def __neg__(self):
        r = Lin(None, -self.c)
        r.t = {k: -v for k, v in self.t.items()}
        return r

    def __sub__(self, o):
        return self + (-o)

    def scale(self, f):
        if f == 1:
            return self
        r = Lin(None, self.c * f)
        r.t = {k: v * f for k, v in self.t.items()} if f else {}
        return r

    def is_const(self):
        return not self.t

    def __eq__(self, o):
        return isinstance(o, Lin) and self.c == o.c and self.t == o.t

    def __hash__(self):
        if self._h is None:
            self._h = hash((frozenset(self.t.items()), self.c))
        return self._h

    def __repr__(self):
        parts = []
        for k, v in sorted(self.t.items(), key=repr):
            name = symname(k)
            parts.append(('%s' % name) if v == 1 else ('-%s' % name if v == -1 else '%s*%s' % (v, name)))
        if self.c != 0 or not parts:
            parts.append(str(self.c))
        return ' + '.join(parts).replace('+ -', '- ')


def symname(k):
    if k[0] == 'strlen':
        return 'strlen(%s)' % k[2]
    if k[0] == 'var':
        return k[2]
    if k[0] == 'field':
        return k[1]
    return '%s#%s' % (k[0], k[1])


class LinEnv:
    """Converts expression nodes of one function into linear forms.  Local variables
    with exactly one definition that is not inside a loop are substituted by their
    definition; everything else becomes a symbol."""

    def __init__(self, func, in_loop=None):
        self.func = func
        self._single = {}
        self._busy = set()

    def single_def(self, decl_id):
        if decl_id in self._single:
            return self._single[decl_id]
        sites = def_sites(self.func, decl_id)
        val = None
        assigns = [n for k, n in sites if k == 'assign']
        decls = [n for k, n in sites if k == 'decl']
        other = [n for k, n in sites if k in ('incdec', 'addr')]
        if not other:
            inits = []
            for n in decls:
                for d in n['decls']:
                    if d['id'] == decl_id and d.get('init', -1) != -1:
                        inits.append(self.func.nodes[d['init']])
            plain = [n for n in assigns if n.k == 'BinaryOperator' and n['op'] == '=']
            if len(plain) + len(inits) == 1 and len(plain) == len(assigns):
                val = inits[0] if inits else plain[0].ch[1]
        self._single[decl_id] = val
        return val

    def lin(self, node, depth=0):
        n = strip(node)
        if n is None:
            return None
        if 'v' in n.d and n.k != 'DeclRefExpr':
            return Lin.const(n['v'])
        k = n.k
        if k == 'IntegerLiteral' or k == 'CharacterLiteral':
            return Lin.const(n.get('v', 0))
        if k == 'UnaryExprOrTypeTraitExpr' and 'v' in n.d:
            return Lin.const(n['v'])
        if k == 'DeclRefExpr':
            r = n['ref']
            if r['kind'] == 'enum' and 'v' in n.d:
                return Lin.const(n['v'])
            if r['kind'] in ('var', 'parm'):
                if r['kind'] == 'var' and not r.get('staticStorage') and depth < 8 and r['id'] not in self._busy:
                    d = self.single_def(r['id'])
                    if d is not None:
                        self._busy.add(r['id'])
                        try:
                            v = self.lin(d, depth + 1)
                        finally:
                            self._busy.discard(r['id'])
                        if v is not None:
                            return v
                return Lin.sym(('var', r['id'], r['name']))
            return None
        if k == 'CallExpr' and n.get('callee') in ('strlen', '__builtin_strlen'):
            a = strip(n.ch[1])
            # strlen of a pointer variable that is a plain copy of another one (a parameter of an inlined helper bound to
            # the caller's variable) is the strlen of that one
            hops = 0
            while a is not None and a.k == 'DeclRefExpr' and a['ref'].get('kind') == 'var' and hops < 6:
                d = self.single_def(a['ref']['id'])
                ds = strip(d) if d is not None else None
                if ds is None or ds.k != 'DeclRefExpr' or ds['ref'].get('kind') not in ('var', 'parm'):
                    break
                a = ds
                hops += 1
            return Lin.sym(('strlen', strkey(a), render(a)))
        if k == 'BinaryOperator':
            op = n['op']
            if op in ('+', '-'):
                a, b = self.lin(n.ch[0], depth + 1), self.lin(n.ch[1], depth + 1)
                if a is None or b is None:
                    return None
                return a + b if op == '+' else a - b
            if op == '*':
                a, b = self.lin(n.ch[0], depth + 1), self.lin(n.ch[1], depth + 1)
                if a is not None and b is not None:
                    if a.is_const():
                        return b.scale(a.c)
                    if b.is_const():
                        return a.scale(b.c)
                return Lin.sym(('opaque', n.id))
            if op == ',':
                return self.lin(n.ch[1], depth + 1)
            return Lin.sym(('opaque', n.id))
        if k == 'UnaryOperator' and n['op'] == '-':
            a = self.lin(n.ch[0], depth + 1)
            return -a if a is not None else None
        if k == 'UnaryOperator' and n['op'] == '+':
            return self.lin(n.ch[0], depth + 1)
        if k == 'MemberExpr':
            return Lin.sym(('field', render(n)))
        if k == 'ConditionalOperator':
            return Lin.sym(('opaque', n.id))
        return Lin.sym(('opaque', n.id))


def strkey(a):
    """identity of a string expression for strlen symbols."""
    if a is None:
        return None
    r = decl_of(a)
    if r is not None:
        return ('decl', r['id'])
    return ('expr', render(a))


# ---- Fourier-Motzkin ----------------------------------------------------------
# a constraint is a Lin meaning  lin >= 0

_memo = {}


def _normalize(c):
    """divide by the gcd of the coefficients (integer tightening of the constant)"""
    from math import gcd
    g = 0
    for v in c.t.values():
        g = gcd(g, abs(v))
    if g > 1:
        r = Lin(None, c.c // g)   # floor: sum(a_i x_i) >= -c  with integer lhs  =>  tighter bound
        r.t = {k: v // g for k, v in c.t.items()}
        return r
    return c


def entails(facts, goal, max_vars=10):
    """do the facts (Lins, each meaning >= 0) entail goal >= 0 over the integers?
    Refutation of facts + (goal <= -1) by Fourier-Motzkin elimination (sound; complete over the
    rationals), restricted to the constraints connected to the goal's symbols."""
    neg = (-goal) - Lin.const(1)
    if not goal.t:
        if goal.c >= 0:
            return True
    # relevance slice
    rel = set(neg.t)
    fl = [f for f in facts if f.t]
    changed = True
    rounds = 0
    used = []
    pool = list(fl)
    while changed and rounds < 4:
        changed = False
        rounds += 1
        rest = []
        for c in pool:
            if rel & c.t.keys():
                used.append(c)
                if not (c.t.keys() <= rel):
                    rel |= c.t.keys()
                    changed = True
            else:
                rest.append(c)
        pool = rest
    # constant facts that are false make everything follow
    for f in facts:
        if not f.t and f.c < 0:
            return True
    key = (frozenset(used), neg)
    r = _memo.get(key)
    if r is not None:
        return r
    cons = set(_normalize(c) for c in used)
    cons.add(_normalize(neg))
    res = False
    syms = set()
    for c in cons:
        syms |= c.t.keys()
    # eliminate symbols with the fewest pos*neg products first
    while syms:
        best, bestcost = None, None
        for s_ in syms:
            p_ = sum(1 for c in cons if c.t.get(s_, 0) > 0)
            n_ = sum(1 for c in cons if c.t.get(s_, 0) < 0)
            cost = p_ * n_ - p_ - n_
            if bestcost is None or cost < bestcost:
                best, bestcost = s_, cost
        s_ = best
        syms.discard(s_)
        pos = [c for c in cons if c.t.get(s_, 0) > 0]
        negs = [c for c in cons if c.t.get(s_, 0) < 0]
        rest = set(c for c in cons if c.t.get(s_, 0) == 0)
        if len(pos) * len(negs) > 400:
            res = False
            break
        for p_ in pos:
            for q_ in negs:
                a_, b_ = p_.t[s_], -q_.t[s_]
                comb = p_.scale(b_) + q_.scale(a_)
                comb.t.pop(s_, None)
                comb._h = None
                if not comb.t:
                    if comb.c < 0:
                        _memo[key] = True
                        return True
                    continue
                rest.add(_normalize(comb))
        cons = rest
        if len(cons) > 1500:
            break
        if any((not c.t) and c.c < 0 for c in cons):
            res = True
            break
    else:
        res = any((not c.t) and c.c < 0 for c in cons)
    if len(_memo) > 200000:
        _memo.clear()
    _memo[key] = res
    return res
