"""A4 support: linear symbolic forms of integer expressions and a small
Fourier-Motzkin entailment over rationals (sound for the integer facts used here).

A linear form is (dict symbol -> coefficient, constant).  Symbols are hashable
tuples: ('strlen', key) ('var', decl id, name) ('field', text) ('opaque', node id)."""
from fractions import Fraction

from .dataflow import decl_of, def_sites
from .facts import render, strip


class Lin:
    __slots__ = ('t', 'c')

    def __init__(self, t=None, c=0):
        self.t = {k: Fraction(v) for k, v in (t or {}).items() if v != 0}
        self.c = Fraction(c)

    @staticmethod
    def const(c):
        return Lin({}, c)

    @staticmethod
    def sym(s):
        return Lin({s: 1}, 0)

    def __add__(self, o):
        t = dict(self.t)
        for k, v in o.t.items():
            t[k] = t.get(k, 0) + v
        return Lin(t, self.c + o.c)

    def __neg__(self):
        return Lin({k: -v for k, v in self.t.items()}, -self.c)

    def __sub__(self, o):
        return self + (-o)

    def scale(self, f):
        return Lin({k: v * f for k, v in self.t.items()}, self.c * f)

    def is_const(self):
        return not self.t

    def __eq__(self, o):
        return isinstance(o, Lin) and self.t == o.t and self.c == o.c

    def __hash__(self):
        return hash((tuple(sorted(self.t.items(), key=repr)), self.c))

    def __repr__(self):
        parts = []
        for k, v in sorted(self.t.items(), key=repr):
            name = symname(k)
            parts.append(('%s' % name) if v == 1 else ('-%s' % name if v == -1 else '%s*%s' % (v, name)))
        if self.c != 0 or not parts:
            parts.append(str(self.c))
        return ' + '.join(parts).replace('+ -', '- ')


def symname(k):
    if k[0] == 'strlen':
        return 'strlen(%s)' % k[2]
    if k[0] == 'var':
        return k[2]
    if k[0] == 'field':
        return k[1]
    return '%s#%s' % (k[0], k[1])


class LinEnv:
    """Converts expression nodes of one function into linear forms.  Local variables
    with exactly one definition that is not inside a loop are substituted by their
    definition; everything else becomes a symbol."""

    def __init__(self, func, in_loop=None):
        self.func = func
        self._single = {}
        self._busy = set()

    def single_def(self, decl_id):
        if decl_id in self._single:
            return self._single[decl_id]
        sites = def_sites(self.func, decl_id)
        val = None
        assigns = [n for k, n in sites if k == 'assign']
        decls = [n for k, n in sites if k == 'decl']
        other = [n for k, n in sites if k in ('incdec', 'addr')]
        if not other:
            inits = []
            for n in decls:
                for d in n['decls']:
                    if d['id'] == decl_id and d.get('init', -1) != -1:
                        inits.append(self.func.nodes[d['init']])
            plain = [n for n in assigns if n.k == 'BinaryOperator' and n['op'] == '=']
            if len(plain) + len(inits) == 1 and len(plain) == len(assigns):
                val = inits[0] if inits else plain[0].ch[1]
        self._single[decl_id] = val
        return val

    def lin(self, node, depth=0):
        n = strip(node)
        if n is None:
            return None
        if 'v' in n.d and n.k != 'DeclRefExpr':
            return Lin.const(n['v'])
        k = n.k
        if k == 'IntegerLiteral' or k == 'CharacterLiteral':
            return Lin.const(n.get('v', 0))
        if k == 'UnaryExprOrTypeTraitExpr' and 'v' in n.d:
            return Lin.const(n['v'])
        if k == 'DeclRefExpr':
            r = n['ref']
            if r['kind'] == 'enum' and 'v' in n.d:
                return Lin.const(n['v'])
            if r['kind'] in ('var', 'parm'):
                if r['kind'] == 'var' and not r.get('staticStorage') and depth < 8 and r['id'] not in self._busy:
                    d = self.single_def(r['id'])
                    if d is not None:
                        self._busy.add(r['id'])
                        try:
                            v = self.lin(d, depth + 1)
                        finally:
                            self._busy.discard(r['id'])
                        if v is not None:
                            return v
                return Lin.sym(('var', r['id'], r['name']))
            return None
        if k == 'CallExpr' and n.get('callee') in ('strlen', '__builtin_strlen'):
            a = strip(n.ch[1])
            return Lin.sym(('strlen', strkey(a), render(a)))
        if k == 'BinaryOperator':
            op = n['op']
            if op in ('+', '-'):
                a, b = self.lin(n.ch[0], depth + 1), self.lin(n.ch[1], depth + 1)
                if a is None or b is None:
                    return None
                return a + b if op == '+' else a - b
            if op == '*':
                a, b = self.lin(n.ch[0], depth + 1), self.lin(n.ch[1], depth + 1)
                if a is not None and b is not None:
                    if a.is_const():
                        return b.scale(a.c)
                    if b.is_const():
                        return a.scale(b.c)
                return Lin.sym(('opaque', n.id))
            if op == ',':
                return self.lin(n.ch[1], depth + 1)
            return Lin.sym(('opaque', n.id))
        if k == 'UnaryOperator' and n['op'] == '-':
            a = self.lin(n.ch[0], depth + 1)
            return -a if a is not None else None
        if k == 'UnaryOperator' and n['op'] == '+':
            return self.lin(n.ch[0], depth + 1)
        if k == 'MemberExpr':
            return Lin.sym(('field', render(n)))
        if k == 'ConditionalOperator':
            return Lin.sym(('opaque', n.id))
        return Lin.sym(('opaque', n.id))


def strkey(a):
    """identity of a string expression for strlen symbols."""
    if a is None:
        return None
    r = decl_of(a)
    if r is not None:
        return ('decl', r['id'])
    return ('expr', render(a))


# ---- Fourier-Motzkin ----------------------------------------------------------
# a constraint is a Lin meaning  lin >= 0

def entails(facts, goal, max_vars=10):
    """do the facts (list of Lin, each meaning >= 0) entail goal >= 0 ?
    Decided by refuting facts + (goal <= -1) over the rationals (integers: -goal-1 >= 0)."""
    cons = [f for f in facts] + [(-goal) - Lin.const(1)]
    syms = set()
    for c in cons:
        syms |= set(c.t)
    if len(syms) > max_vars:
        # keep only constraints sharing symbols with the goal (transitively, bounded)
        rel = set(goal.t)
        for _ in range(3):
            for c in facts:
                if set(c.t) & rel:
                    rel |= set(c.t)
        cons = [c for c in cons if set(c.t) <= rel]
        syms = rel
    cons = list(set(cons))
    for s in list(syms):
        pos = [c for c in cons if c.t.get(s, 0) > 0]
        neg = [c for c in cons if c.t.get(s, 0) < 0]
        rest = [c for c in cons if c.t.get(s, 0) == 0]
        new = []
        for p in pos:
            for q in neg:
                a, b = p.t[s], -q.t[s]
                comb = p.scale(b) + q.scale(a)
                comb.t.pop(s, None)
                new.append(comb)
        cons = list(set(rest + new))
        if len(cons) > 4000:
            return False
    for c in cons:
        if not c.t and c.c < 0:
            return True
    return False
